#!/bin/sh
# Build the fact extractor and extract facts for /repo's current tree (offline).
set -e
cd "$(dirname "$0")"
export CARGO_NET_OFFLINE=true
(cd driver && cargo build --offline 2>&1 | tail -2)
python3 -c "
import sys; sys.path.insert(0,'.')
from sa import facts
d = facts.ensure('default')
print('facts ready:', d)
"
