// ergfacts: a rustc_private driver that exports facts about the *resolved* program
// (typed HIR trees with resolved callees / paths / patterns, ADT tables, impl tables,
// a call graph) as JSON, one directory per crate. Used as RUSTC_WORKSPACE_WRAPPER.
#![feature(rustc_private)]
#![allow(clippy::all)]

extern crate rustc_abi;
extern crate rustc_ast;
extern crate rustc_driver;
extern crate rustc_hir;
extern crate rustc_interface;
extern crate rustc_middle;
extern crate rustc_span;

mod json;
mod mir;

use json::J;
use rustc_hir as hir;
use rustc_hir::def::{DefKind, Res};
use rustc_hir::def_id::{DefId, LocalDefId, LOCAL_CRATE};
use rustc_middle::ty::print::{with_no_trimmed_paths, with_no_visible_paths};
use rustc_middle::ty::{self, TyCtxt, TypeckResults};
use rustc_span::{ExpnKind, Span};
use std::collections::{BTreeMap, HashMap};

struct Cb;

impl rustc_driver::Callbacks for Cb {
    fn after_analysis<'tcx>(
        &mut self,
        _c: &rustc_interface::interface::Compiler,
        tcx: TyCtxt<'tcx>,
    ) -> rustc_driver::Compilation {
        if let Ok(out) = std::env::var("ERGFACTS_OUT") {
            dump(tcx, &out);
        }
        rustc_driver::Compilation::Continue
    }
}

fn main() {
    let mut args: Vec<String> = std::env::args().collect();
    // RUSTC_WORKSPACE_WRAPPER: argv[1] is the real rustc path
    if args.len() > 1 && (args[1].ends_with("rustc") || args[1].contains("/rustc")) {
        args.remove(1);
    }
    rustc_driver::run_compiler(&args, &mut Cb);
}

pub fn def_path(tcx: TyCtxt<'_>, did: DefId) -> String {
    let s = with_no_visible_paths!(with_no_trimmed_paths!(tcx.def_path_str(did)));
    if did.is_local() {
        format!("{}::{}", tcx.crate_name(LOCAL_CRATE), s)
    } else {
        s
    }
}

pub fn file_line(tcx: TyCtxt<'_>, sp: Span) -> (String, usize) {
    let sp = sp.source_callsite();
    let sm = tcx.sess.source_map();
    let loc = sm.lookup_char_pos(sp.lo());
    let name = match &loc.file.name {
        rustc_span::FileName::Real(r) => match r.local_path() {
            Some(p) => p.to_string_lossy().to_string(),
            None => format!("{:?}", r),
        },
        other => format!("{:?}", other),
    };
    (name, loc.line)
}

fn macro_chain(sp: Span) -> Vec<String> {
    // outermost first
    let mut v: Vec<String> = Vec::new();
    for ed in sp.macro_backtrace() {
        match ed.kind {
            ExpnKind::Macro(_, name) => v.push(name.to_string()),
            ExpnKind::Desugaring(d) => v.push(format!("~{:?}", d)),
            _ => {}
        }
    }
    v.reverse();
    v
}

struct Enc<'a, 'tcx> {
    tcx: TyCtxt<'tcx>,
    tr: &'tcx TypeckResults<'tcx>,
    owner: LocalDefId,
    types: &'a mut Vec<String>,
    tyidx: &'a mut HashMap<String, usize>,
    calls: &'a mut Vec<(String, usize)>,
}

impl<'a, 'tcx> Enc<'a, 'tcx> {
    fn ty_id(&mut self, t: ty::Ty<'tcx>) -> J {
        let s = with_no_visible_paths!(with_no_trimmed_paths!(t.to_string()));
        if let Some(i) = self.tyidx.get(&s) {
            return J::Num(*i as i128);
        }
        let i = self.types.len();
        self.types.push(s.clone());
        self.tyidx.insert(s, i);
        J::Num(i as i128)
    }

    fn line(&self, sp: Span) -> usize {
        let sp = sp.source_callsite();
        self.tcx.sess.source_map().lookup_char_pos(sp.lo()).line
    }

    fn res(&mut self, res: Res, o: &mut Vec<(&'static str, J)>) {
        match res {
            Res::Local(id) => {
                o.push(("k", J::s("Local")));
                o.push(("n", J::Str(self.tcx.hir_name(id).to_string())));
                o.push(("id", J::Num(id.local_id.as_u32() as i128)));
            }
            Res::Def(kind, did) => {
                o.push(("k", J::s("Path")));
                let did2 = match kind {
                    DefKind::Ctor(..) => self.tcx.parent(did),
                    _ => did,
                };
                o.push(("d", J::Str(def_path(self.tcx, did2))));
                o.push(("dk", J::Str(defkind_str(kind))));
            }
            Res::SelfCtor(_) => {
                o.push(("k", J::s("Path")));
                o.push(("d", J::s("Self")));
                o.push(("dk", J::s("SelfCtor")));
            }
            other => {
                o.push(("k", J::s("Path")));
                o.push(("d", J::Str(format!("{:?}", other))));
                o.push(("dk", J::s("Other")));
            }
        }
    }

    fn resolve_instance(&self, did: DefId, hir_id: hir::HirId) -> Option<String> {
        // resolve trait method calls to the impl when the type arguments are concrete enough
        let tcx = self.tcx;
        if !matches!(tcx.def_kind(did), DefKind::AssocFn) {
            return None;
        }
        if tcx.trait_of_assoc(did).is_none() {
            return None;
        }
        let args = self.tr.node_args(hir_id);
        if args.len() != tcx.generics_of(did).count() {
            return None;
        }
        let env = ty::TypingEnv::post_analysis(tcx, self.owner.to_def_id());
        let args = tcx.try_normalize_erasing_regions(env, ty::Unnormalized::new_wip(args)).ok()?;
        match ty::Instance::try_resolve(tcx, env, did, args) {
            Ok(Some(inst)) => {
                let d = inst.def_id();
                if d != did {
                    Some(def_path(tcx, d))
                } else {
                    None
                }
            }
            _ => None,
        }
    }

    fn block(&mut self, b: &'tcx hir::Block<'tcx>, pm: &[String]) -> J {
        let mut stmts = Vec::new();
        for s in b.stmts {
            match s.kind {
                hir::StmtKind::Let(l) => {
                    let mut o: Vec<(&'static str, J)> = vec![("k", J::s("Let"))];
                    o.push(("l", J::Num(self.line(l.span) as i128)));
                    o.push(("pat", self.pat(l.pat)));
                    if let Some(t) = self.tr.node_type_opt(l.pat.hir_id) {
                        o.push(("t", self.ty_id(t)));
                    }
                    if let Some(i) = l.init {
                        o.push(("init", self.expr(i, pm)));
                    }
                    if let Some(e) = l.els {
                        o.push(("els", self.block(e, pm)));
                    }
                    stmts.push(J::obj(o));
                }
                hir::StmtKind::Item(_) => {}
                hir::StmtKind::Expr(e) => stmts.push(self.expr(e, pm)),
                hir::StmtKind::Semi(e) => {
                    let x = self.expr(e, pm);
                    stmts.push(J::obj(vec![("k", J::s("Semi")), ("e", x)]));
                }
            }
        }
        let mut o: Vec<(&'static str, J)> = vec![("k", J::s("Block")), ("s", J::Arr(stmts))];
        if let Some(e) = b.expr {
            o.push(("e", self.expr(e, pm)));
        }
        J::obj(o)
    }

    fn qpath_res(&mut self, q: &hir::QPath<'tcx>, id: hir::HirId, o: &mut Vec<(&'static str, J)>) {
        let res = self.tr.qpath_res(q, id);
        self.res(res, o);
    }

    fn pat(&mut self, p: &'tcx hir::Pat<'tcx>) -> J {
        use hir::PatKind::*;
        match p.kind {
            Missing | Wild => J::obj(vec![("k", J::s("Wild"))]),
            Never => J::obj(vec![("k", J::s("Never"))]),
            Binding(mode, id, ident, sub) => {
                let mut o: Vec<(&'static str, J)> = vec![
                    ("k", J::s("Bind")),
                    ("n", J::Str(ident.to_string())),
                    ("id", J::Num(id.local_id.as_u32() as i128)),
                ];
                let _ = mode;
                if let Some(t) = self.tr.node_type_opt(p.hir_id) {
                    o.push(("t", self.ty_id(t)));
                }
                if let Some(s) = sub {
                    o.push(("sub", self.pat(s)));
                }
                J::obj(o)
            }
            Struct(ref q, fields, rest) => {
                let mut o: Vec<(&'static str, J)> = Vec::new();
                self.qpath_res(q, p.hir_id, &mut o);
                o[0] = ("k", J::s("PStruct"));
                let fs = fields
                    .iter()
                    .map(|f| J::obj(vec![("n", J::Str(f.ident.to_string())), ("p", self.pat(f.pat))]))
                    .collect();
                o.push(("f", J::Arr(fs)));
                o.push(("rest", J::Bool(rest.is_some())));
                J::obj(o)
            }
            TupleStruct(ref q, pats, dd) => {
                let mut o: Vec<(&'static str, J)> = Vec::new();
                self.qpath_res(q, p.hir_id, &mut o);
                o[0] = ("k", J::s("PTupleStruct"));
                o.push(("p", J::Arr(pats.iter().map(|x| self.pat(x)).collect())));
                if let Some(i) = dd.as_opt_usize() {
                    o.push(("dd", J::Num(i as i128)));
                }
                J::obj(o)
            }
            Or(pats) => J::obj(vec![("k", J::s("POr")), ("p", J::Arr(pats.iter().map(|x| self.pat(x)).collect()))]),
            Tuple(pats, dd) => {
                let mut o = vec![("k", J::s("PTuple")), ("p", J::Arr(pats.iter().map(|x| self.pat(x)).collect()))];
                if let Some(i) = dd.as_opt_usize() {
                    o.push(("dd", J::Num(i as i128)));
                }
                J::obj(o)
            }
            Box(x) | Deref(x) | Ref(x, _, _) => J::obj(vec![("k", J::s("PRef")), ("p", self.pat(x))]),
            Expr(pe) => self.pat_expr(pe),
            Guard(x, g) => {
                let gg = self.expr(g, &[]);
                J::obj(vec![("k", J::s("PGuard")), ("p", self.pat(x)), ("g", gg)])
            }
            Range(lo, hi, end) => {
                let mut o = vec![("k", J::s("PRange")), ("end", J::Str(format!("{:?}", end)))];
                if let Some(l) = lo {
                    o.push(("lo", self.pat_expr(l)));
                }
                if let Some(h) = hi {
                    o.push(("hi", self.pat_expr(h)));
                }
                J::obj(o)
            }
            Slice(a, m, b) => {
                let mut o = vec![
                    ("k", J::s("PSlice")),
                    ("a", J::Arr(a.iter().map(|x| self.pat(x)).collect())),
                    ("b", J::Arr(b.iter().map(|x| self.pat(x)).collect())),
                ];
                if let Some(m) = m {
                    o.push(("m", self.pat(m)));
                }
                J::obj(o)
            }
            Err(_) => J::obj(vec![("k", J::s("PErr"))]),
        }
    }

    fn pat_expr(&mut self, pe: &'tcx hir::PatExpr<'tcx>) -> J {
        match &pe.kind {
            hir::PatExprKind::Lit { lit, negated } => J::obj(vec![
                ("k", J::s("PLit")),
                ("v", lit_json(lit)),
                ("neg", J::Bool(*negated)),
            ]),
            hir::PatExprKind::Path(q) => {
                let mut o: Vec<(&'static str, J)> = Vec::new();
                self.qpath_res(q, pe.hir_id, &mut o);
                o[0] = ("k", J::s("PPath"));
                J::obj(o)
            }
        }
    }

    fn expr(&mut self, e: &'tcx hir::Expr<'tcx>, parent_mac: &[String]) -> J {
        use hir::ExprKind::*;
        // transparent wrappers
        if let DropTemps(x) = e.kind {
            return self.expr(x, parent_mac);
        }
        if let Use(x, _) = e.kind {
            return self.expr(x, parent_mac);
        }
        let mac = if e.span.from_expansion() { macro_chain(e.span) } else { Vec::new() };
        let pm: &[String] = &mac;
        let mut o: Vec<(&'static str, J)> = Vec::with_capacity(8);
        match e.kind {
            ConstBlock(_) => o.push(("k", J::s("ConstBlock"))),
            Array(xs) => {
                o.push(("k", J::s("Array")));
                o.push(("a", J::Arr(xs.iter().map(|x| self.expr(x, pm)).collect())));
            }
            Call(f, args) => {
                o.push(("k", J::s("Call")));
                if let Path(ref q) = f.kind {
                    let res = self.tr.qpath_res(q, f.hir_id);
                    if let Res::Def(kind, did) = res {
                        let did2 = match kind {
                            DefKind::Ctor(..) => self.tcx.parent(did),
                            _ => did,
                        };
                        let p = def_path(self.tcx, did2);
                        o.push(("fn", J::Str(p.clone())));
                        o.push(("dk", J::Str(defkind_str(kind))));
                        if matches!(kind, DefKind::Fn | DefKind::AssocFn) {
                            let rd = self.resolve_instance(did, f.hir_id);
                            self.calls.push((rd.clone().unwrap_or(p), self.line(e.span)));
                            if let Some(rd) = rd {
                                o.push(("rd", J::Str(rd)));
                            }
                        }
                    } else {
                        o.push(("f", self.expr(f, pm)));
                    }
                } else {
                    o.push(("f", self.expr(f, pm)));
                }
                o.push(("a", J::Arr(args.iter().map(|x| self.expr(x, pm)).collect())));
            }
            MethodCall(seg, recv, args, _) => {
                o.push(("k", J::s("MCall")));
                o.push(("n", J::Str(seg.ident.to_string())));
                if let Some(did) = self.tr.type_dependent_def_id(e.hir_id) {
                    let p = def_path(self.tcx, did);
                    o.push(("fn", J::Str(p.clone())));
                    let rd = self.resolve_instance(did, e.hir_id);
                    self.calls.push((rd.clone().unwrap_or(p), self.line(e.span)));
                    if let Some(rd) = rd {
                        o.push(("rd", J::Str(rd)));
                    }
                }
                o.push(("r", self.expr(recv, pm)));
                let rt = self.tr.expr_ty_adjusted(recv);
                o.push(("rt", self.ty_id(rt)));
                o.push(("a", J::Arr(args.iter().map(|x| self.expr(x, pm)).collect())));
            }
            Tup(xs) => {
                o.push(("k", J::s("Tup")));
                o.push(("a", J::Arr(xs.iter().map(|x| self.expr(x, pm)).collect())));
            }
            Binary(op, l, r) => {
                o.push(("k", J::s("Binary")));
                o.push(("op", J::Str(op.node.as_str().to_string())));
                let lt = self.tr.expr_ty(l);
                let rt = self.tr.expr_ty(r);
                o.push(("lt", self.ty_id(lt)));
                o.push(("rt", self.ty_id(rt)));
                if let Some(did) = self.tr.type_dependent_def_id(e.hir_id) {
                    o.push(("fn", J::Str(def_path(self.tcx, did))));
                    let rd = self.resolve_instance(did, e.hir_id);
                    if let Some(rd) = rd {
                        self.calls.push((rd.clone(), self.line(e.span)));
                        o.push(("rd", J::Str(rd)));
                    }
                }
                o.push(("x", self.expr(l, pm)));
                o.push(("y", self.expr(r, pm)));
            }
            Unary(op, x) => {
                o.push(("k", J::s("Unary")));
                o.push(("op", J::Str(op.as_str().to_string())));
                if let Some(did) = self.tr.type_dependent_def_id(e.hir_id) {
                    o.push(("fn", J::Str(def_path(self.tcx, did))));
                }
                o.push(("x", self.expr(x, pm)));
            }
            Lit(l) => {
                o.push(("k", J::s("Lit")));
                o.push(("v", lit_json(&l)));
            }
            Cast(x, _) => {
                o.push(("k", J::s("Cast")));
                let ft = self.tr.expr_ty(x);
                o.push(("from", self.ty_id(ft)));
                o.push(("x", self.expr(x, pm)));
            }
            Type(x, _) => return self.expr(x, parent_mac),
            DropTemps(_) | Use(..) => unreachable!(),
            Let(l) => {
                o.push(("k", J::s("LetCond")));
                o.push(("pat", self.pat(l.pat)));
                o.push(("init", self.expr(l.init, pm)));
            }
            If(c, t, el) => {
                o.push(("k", J::s("If")));
                o.push(("c", self.expr(c, pm)));
                o.push(("t", self.expr(t, pm)));
                if let Some(el) = el {
                    o.push(("e", self.expr(el, pm)));
                }
            }
            Loop(b, label, src, _) => {
                o.push(("k", J::s("Loop")));
                o.push(("src", J::Str(format!("{:?}", src))));
                if let Some(l) = label {
                    o.push(("label", J::Str(l.ident.to_string())));
                }
                o.push(("id", J::Num(e.hir_id.local_id.as_u32() as i128)));
                o.push(("b", self.block(b, pm)));
            }
            Match(scrut, arms, src) => {
                o.push(("k", J::s("Match")));
                let srcs = match src {
                    hir::MatchSource::Normal => "Normal".to_string(),
                    hir::MatchSource::TryDesugar(_) => "Try".to_string(),
                    other => format!("{:?}", other),
                };
                o.push(("src", J::Str(srcs)));
                let st = self.tr.expr_ty(scrut);
                o.push(("st", self.ty_id(st)));
                o.push(("x", self.expr(scrut, pm)));
                let mut av = Vec::new();
                for a in arms {
                    let mut ao: Vec<(&'static str, J)> = vec![("l", J::Num(self.line(a.span) as i128))];
                    ao.push(("pat", self.pat(a.pat)));
                    if let Some(g) = a.guard {
                        ao.push(("g", self.expr(g, pm)));
                    }
                    ao.push(("b", self.expr(a.body, pm)));
                    av.push(J::obj(ao));
                }
                o.push(("arms", J::Arr(av)));
            }
            Closure(c) => {
                o.push(("k", J::s("Closure")));
                let body = self.tcx.hir_body(c.body);
                o.push(("params", J::Arr(body.params.iter().map(|p| self.pat(p.pat)).collect())));
                o.push(("b", self.expr(body.value, pm)));
            }
            Block(b, label) => {
                let mut jb = self.block(b, pm);
                if let J::Obj(ref mut v) = jb {
                    if let Some(l) = label {
                        v.push(("label".to_string(), J::Str(l.ident.to_string())));
                        v.push(("id".to_string(), J::Num(e.hir_id.local_id.as_u32() as i128)));
                    }
                    if matches!(b.rules, hir::BlockCheckMode::UnsafeBlock(_)) {
                        v.push(("unsafe".to_string(), J::Bool(true)));
                    }
                    v.push(("l".to_string(), J::Num(self.line(e.span) as i128)));
                    if mac.as_slice() != parent_mac {
                        v.push(("m".to_string(), J::Arr(mac.iter().map(|s| J::Str(s.clone())).collect())));
                    }
                    let t = self.tr.expr_ty(e);
                    let ti = self.ty_id(t);
                    v.push(("ty".to_string(), ti));
                }
                return jb;
            }
            Assign(l, r, _) => {
                o.push(("k", J::s("Assign")));
                o.push(("x", self.expr(l, pm)));
                o.push(("y", self.expr(r, pm)));
            }
            AssignOp(op, l, r) => {
                o.push(("k", J::s("AssignOp")));
                o.push(("op", J::Str(op.node.as_str().to_string())));
                let lt = self.tr.expr_ty(l);
                let rt = self.tr.expr_ty(r);
                o.push(("lt", self.ty_id(lt)));
                o.push(("rt", self.ty_id(rt)));
                if let Some(did) = self.tr.type_dependent_def_id(e.hir_id) {
                    o.push(("fn", J::Str(def_path(self.tcx, did))));
                }
                o.push(("x", self.expr(l, pm)));
                o.push(("y", self.expr(r, pm)));
            }
            Field(x, ident) => {
                o.push(("k", J::s("Field")));
                o.push(("n", J::Str(ident.to_string())));
                let bt = self.tr.expr_ty_adjusted(x);
                o.push(("bt", self.ty_id(bt)));
                o.push(("x", self.expr(x, pm)));
            }
            Index(x, i, _) => {
                o.push(("k", J::s("Index")));
                let bt = self.tr.expr_ty_adjusted(x);
                o.push(("bt", self.ty_id(bt)));
                if let Some(did) = self.tr.type_dependent_def_id(e.hir_id) {
                    o.push(("fn", J::Str(def_path(self.tcx, did))));
                }
                o.push(("x", self.expr(x, pm)));
                o.push(("i", self.expr(i, pm)));
            }
            Path(ref q) => {
                self.qpath_res(q, e.hir_id, &mut o);
            }
            AddrOf(_, m, x) => {
                o.push(("k", J::s("Ref")));
                o.push(("mut", J::Bool(m.is_mut())));
                o.push(("x", self.expr(x, pm)));
            }
            Break(dest, x) => {
                o.push(("k", J::s("Break")));
                if let Ok(id) = dest.target_id {
                    o.push(("to", J::Num(id.local_id.as_u32() as i128)));
                }
                if let Some(x) = x {
                    o.push(("x", self.expr(x, pm)));
                }
            }
            Continue(dest) => {
                o.push(("k", J::s("Continue")));
                if let Ok(id) = dest.target_id {
                    o.push(("to", J::Num(id.local_id.as_u32() as i128)));
                }
            }
            Ret(x) => {
                o.push(("k", J::s("Ret")));
                if let Some(x) = x {
                    o.push(("x", self.expr(x, pm)));
                }
            }
            Become(x) => {
                o.push(("k", J::s("Become")));
                o.push(("x", self.expr(x, pm)));
            }
            InlineAsm(_) => o.push(("k", J::s("Asm"))),
            OffsetOf(..) => o.push(("k", J::s("OffsetOf"))),
            Struct(q, fields, tail) => {
                self.qpath_res(q, e.hir_id, &mut o);
                o[0] = ("k", J::s("Struct"));
                let fs = fields
                    .iter()
                    .map(|f| J::obj(vec![("n", J::Str(f.ident.to_string())), ("x", self.expr(f.expr, pm))]))
                    .collect();
                o.push(("f", J::Arr(fs)));
                if let hir::StructTailExpr::Base(b) = tail {
                    o.push(("base", self.expr(b, pm)));
                }
            }
            Repeat(x, _) => {
                o.push(("k", J::s("Repeat")));
                o.push(("x", self.expr(x, pm)));
            }
            Yield(x, _) => {
                o.push(("k", J::s("Yield")));
                o.push(("x", self.expr(x, pm)));
            }
            UnsafeBinderCast(_, x, _) => return self.expr(x, parent_mac),
            Err(_) => o.push(("k", J::s("Err"))),
        }
        o.push(("l", J::Num(self.line(e.span) as i128)));
        if mac.as_slice() != parent_mac {
            o.push(("m", J::Arr(mac.iter().map(|s| J::Str(s.clone())).collect())));
        }
        let t = self.tr.expr_ty(e);
        o.push(("ty", self.ty_id(t)));
        let adj = self.tr.expr_adjustments(e);
        if !adj.is_empty() {
            // record overloaded deref adjustments (they are calls) and the adjusted type
            let at = self.tr.expr_ty_adjusted(e);
            if at != t {
                o.push(("aty", self.ty_id(at)));
            }
        }
        J::obj(o)
    }
}

fn lit_json(l: &hir::Lit) -> J {
    use rustc_ast::LitKind::*;
    match &l.node {
        Str(s, _) => J::obj(vec![("str", J::Str(s.to_string()))]),
        ByteStr(b, _) | CStr(b, _) => J::obj(vec![(
            "bytes",
            J::Arr(b.as_byte_str().iter().map(|x| J::Num(*x as i128)).collect()),
        )]),
        Byte(b) => J::obj(vec![("byte", J::Num(*b as i128))]),
        Char(c) => J::obj(vec![("char", J::Str(c.to_string()))]),
        Int(v, _) => J::obj(vec![("int", J::Num(v.get() as i128))]),
        Float(s, _) => J::obj(vec![("float", J::Str(s.to_string()))]),
        Bool(b) => J::obj(vec![("bool", J::Bool(*b))]),
        Err(_) => J::Null,
    }
}

fn defkind_str(k: DefKind) -> String {
    match k {
        DefKind::Ctor(of, kind) => format!("Ctor{:?}{:?}", of, kind),
        DefKind::Const { .. } => "Const".to_string(),
        DefKind::AssocConst { .. } => "AssocConst".to_string(),
        DefKind::Static { .. } => "Static".to_string(),
        other => format!("{:?}", other),
    }
}

fn mangle(file: &str) -> String {
    file.replace('/', "__")
}

fn write_atomic(path: &std::path::Path, data: &str) {
    let tmp = path.with_extension(format!("tmp{}", std::process::id()));
    std::fs::write(&tmp, data).expect("write facts");
    std::fs::rename(&tmp, path).expect("rename facts");
}

fn dump(tcx: TyCtxt<'_>, out: &str) {
    let cname = tcx.crate_name(LOCAL_CRATE).to_string();
    if cname.starts_with("build_script") {
        return;
    }
    let is_bin = tcx.crate_types().iter().any(|t| matches!(t, rustc_session_crate_type::Executable));
    let dname = if is_bin { format!("{}-bin", cname) } else { cname.clone() };
    let dir = std::path::Path::new(out).join(&dname);
    std::fs::create_dir_all(dir.join("fns")).expect("mkdir");
    let root = std::env::var("ERGFACTS_ROOT").unwrap_or_else(|_| String::new());

    // ---- ADTs and impls
    let mut adts = Vec::new();
    let mut impls = Vec::new();
    for id in tcx.hir_free_items() {
        let item = tcx.hir_item(id);
        let did = item.owner_id.to_def_id();
        match item.kind {
            hir::ItemKind::Enum(..) | hir::ItemKind::Struct(..) | hir::ItemKind::Union(..) => {
                let adt = tcx.adt_def(did);
                let (file, line) = file_line(tcx, item.span);
                let mut vs = Vec::new();
                let discrs: Vec<_> = if adt.is_enum() { adt.discriminants(tcx).collect() } else { Vec::new() };
                for (i, v) in adt.variants().iter_enumerated() {
                    let mut vo: Vec<(&'static str, J)> = vec![("n", J::Str(v.name.to_string()))];
                    if adt.is_enum() {
                        if let Some((_, d)) = discrs.iter().find(|(vi, _)| *vi == i) {
                            vo.push(("discr", J::Num(d.val as i128)));
                        }
                    }
                    vo.push(("ctor", J::Str(format!("{:?}", v.ctor_kind()))));
                    let fs = v
                        .fields
                        .iter()
                        .map(|f| {
                            let t = tcx.type_of(f.did).instantiate_identity().skip_norm_wip();
                            J::obj(vec![
                                ("n", J::Str(f.name.to_string())),
                                ("t", J::Str(with_no_visible_paths!(with_no_trimmed_paths!(t.to_string())))),
                            ])
                        })
                        .collect();
                    vo.push(("f", J::Arr(fs)));
                    vs.push(J::obj(vo));
                }
                adts.push(J::obj(vec![
                    ("path", J::Str(def_path(tcx, did))),
                    ("kind", J::s(if adt.is_enum() { "enum" } else if adt.is_struct() { "struct" } else { "union" })),
                    ("file", J::Str(rel(&file, &root))),
                    ("line", J::Num(line as i128)),
                    ("repr", J::Str(format!("{:?}", adt.repr().int))),
                    ("variants", J::Arr(vs)),
                ]));
            }
            hir::ItemKind::Impl(imp) => {
                let (file, line) = file_line(tcx, item.span);
                let self_ty = tcx.type_of(did).instantiate_identity().skip_norm_wip();
                let mut o: Vec<(&'static str, J)> = vec![
                    ("self", J::Str(with_no_visible_paths!(with_no_trimmed_paths!(self_ty.to_string())))),
                    ("file", J::Str(rel(&file, &root))),
                    ("line", J::Num(line as i128)),
                    ("derived", J::Bool(tcx.is_automatically_derived(did))),
                ];
                if let Some(tr) = imp.of_trait {
                    if let Some(tdid) = tr.trait_ref.trait_def_id() {
                        o.push(("trait", J::Str(def_path(tcx, tdid))));
                    }
                }
                let items: Vec<J> = imp
                    .items
                    .iter()
                    .map(|r| J::Str(def_path(tcx, r.owner_id.to_def_id())))
                    .collect();
                o.push(("items", J::Arr(items)));
                impls.push(J::obj(o));
            }
            _ => {}
        }
    }
    write_atomic(
        &dir.join("adt.json"),
        &J::obj(vec![("crate", J::Str(dname.clone())), ("adts", J::Arr(adts)), ("impls", J::Arr(impls))]).to_string(),
    );

    // ---- function bodies, grouped per source file
    let mut per_file: BTreeMap<String, (Vec<J>, Vec<String>, HashMap<String, usize>)> = BTreeMap::new();
    let mut callgraph: Vec<J> = Vec::new();
    let mut nfn = 0usize;
    for ldid in tcx.hir_body_owners() {
        let did = ldid.to_def_id();
        let kind = tcx.def_kind(did);
        if tcx.is_closure_like(did) {
            continue;
        }
        if matches!(kind, DefKind::AnonConst | DefKind::InlineConst) {
            continue;
        }
        let body = tcx.hir_body_owned_by(ldid);
        let span = tcx.def_span(did);
        let (file, line) = file_line(tcx, span);
        let file = rel(&file, &root);
        let full_span = tcx.hir_span_with_body(tcx.local_def_id_to_hir_id(ldid));
        let end_line = tcx.sess.source_map().lookup_char_pos(full_span.source_callsite().hi()).line;
        let tr = tcx.typeck(ldid);
        let entry = per_file.entry(file.clone()).or_insert_with(|| (Vec::new(), Vec::new(), HashMap::new()));
        let mut calls: Vec<(String, usize)> = Vec::new();
        let (params, value) = {
            let mut enc = Enc { tcx, tr, owner: ldid, types: &mut entry.1, tyidx: &mut entry.2, calls: &mut calls };
            let params: Vec<J> = body.params.iter().map(|p| enc.pat(p.pat)).collect();
            let mac = if body.value.span.from_expansion() { macro_chain(body.value.span) } else { Vec::new() };
            let _ = mac;
            let value = enc.expr(body.value, &[]);
            (params, value)
        };
        let path = def_path(tcx, did);
        let mut o: Vec<(&'static str, J)> = vec![
            ("path", J::Str(path.clone())),
            ("dk", J::Str(defkind_str(kind))),
            ("line", J::Num(line as i128)),
            ("end", J::Num(end_line as i128)),
            ("from_macro", J::Bool(span.from_expansion())),
        ];
        if matches!(kind, DefKind::Fn | DefKind::AssocFn) {
            o.push(("vis", J::Str(format!("{:?}", tcx.visibility(did)))));
            let sig = tcx.fn_sig(did).instantiate_identity().skip_norm_wip();
            o.push(("sig", J::Str(with_no_visible_paths!(with_no_trimmed_paths!(sig.to_string())))));
            if let Some(imp) = tcx.impl_of_assoc(did) {
                let st = tcx.type_of(imp).instantiate_identity().skip_norm_wip();
                o.push(("self_ty", J::Str(with_no_visible_paths!(with_no_trimmed_paths!(st.to_string())))));
                if let Some(trf) = tcx.impl_opt_trait_ref(imp) {
                    o.push(("impl_trait", J::Str(def_path(tcx, trf.skip_binder().def_id))));
                }
            }
        }
        o.push(("params", J::Arr(params)));
        o.push(("body", value));
        entry.0.push(J::obj(o));
        // MIR facts for fn-like bodies
        let mirj = mir::mir_facts(tcx, ldid);
        callgraph.push(J::obj(vec![
            ("path", J::Str(path)),
            ("file", J::Str(file)),
            ("line", J::Num(line as i128)),
            ("calls", J::Arr(calls.into_iter().map(|(c, l)| J::Arr(vec![J::Str(c), J::Num(l as i128)])).collect())),
            ("mir", mirj),
        ]));
        nfn += 1;
    }
    let mut files = Vec::new();
    for (file, (fns, types, _)) in per_file {
        let name = mangle(&file);
        files.push(J::Str(file.clone()));
        write_atomic(
            &dir.join("fns").join(format!("{}.json", name)),
            &J::obj(vec![
                ("file", J::Str(file)),
                ("types", J::Arr(types.into_iter().map(J::Str).collect())),
                ("fns", J::Arr(fns)),
            ])
            .to_string(),
        );
    }
    write_atomic(&dir.join("calls.json"), &J::Arr(callgraph).to_string());
    write_atomic(
        &dir.join("index.json"),
        &J::obj(vec![("crate", J::Str(dname)), ("nfn", J::Num(nfn as i128)), ("files", J::Arr(files))]).to_string(),
    );
}

fn rel(file: &str, root: &str) -> String {
    if !root.is_empty() {
        if let Some(r) = file.strip_prefix(root) {
            return r.trim_start_matches('/').to_string();
        }
    }
    file.to_string()
}

#[allow(non_camel_case_types)]
use rustc_session::config::CrateType as rustc_session_crate_type;
extern crate rustc_session;
