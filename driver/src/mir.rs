// MIR-level facts: resolved calls (with the guard-typed locals that may be live at the call),
// integer casts, integer/float binary operations, assert terminators.
use crate::json::J;
use crate::{def_path};
use rustc_hir::def::DefKind;
use rustc_hir::def_id::LocalDefId;
use rustc_middle::mir::{self, Operand, Rvalue, StatementKind, TerminatorKind};
use rustc_middle::ty::print::{with_no_trimmed_paths, with_no_visible_paths};
use rustc_middle::ty::{self, TyCtxt};
use std::collections::BTreeSet;

fn line(tcx: TyCtxt<'_>, sp: rustc_span::Span) -> usize {
    let sp = sp.source_callsite();
    tcx.sess.source_map().lookup_char_pos(sp.lo()).line
}

fn is_guard_ty(t: ty::Ty<'_>) -> bool {
    if let ty::Adt(adt, _) = t.kind() {
        let n = with_no_visible_paths!(with_no_trimmed_paths!(format!("{:?}", adt.did())));
        let _ = n;
        true
    } else {
        false
    }
}

fn guardish_name(s: &str) -> bool {
    s.contains("Guard") || s.contains("cell::Ref")
}

pub fn mir_facts(tcx: TyCtxt<'_>, ldid: LocalDefId) -> J {
    let did = ldid.to_def_id();
    if !matches!(tcx.def_kind(did), DefKind::Fn | DefKind::AssocFn) {
        return J::Null;
    }
    if !tcx.is_mir_available(did) {
        return J::Null;
    }
    let body: &mir::Body<'_> = tcx.optimized_mir(did);
    let env = ty::TypingEnv::post_analysis(tcx, did);
    let mut casts = Vec::new();
    let mut binops = Vec::new();
    let mut asserts = Vec::new();
    let mut calls = Vec::new();

    // guard-typed locals
    let mut guard_locals: Vec<(mir::Local, String)> = Vec::new();
    for (l, decl) in body.local_decls.iter_enumerated() {
        if is_guard_ty(decl.ty) {
            let s = with_no_visible_paths!(with_no_trimmed_paths!(decl.ty.to_string()));
            if guardish_name(&s) {
                guard_locals.push((l, s));
            }
        }
    }
    let is_guard = |l: mir::Local| guard_locals.iter().any(|(g, _)| *g == l);

    // forward may-live dataflow for guard locals
    let nbb = body.basic_blocks.len();
    let mut entry: Vec<Option<BTreeSet<u32>>> = vec![None; nbb];
    let mut at_call: Vec<BTreeSet<u32>> = vec![BTreeSet::new(); nbb];
    if !guard_locals.is_empty() {
        entry[0] = Some(BTreeSet::new());
        let mut work: Vec<usize> = vec![0];
        while let Some(bb) = work.pop() {
            let mut st = entry[bb].clone().unwrap();
            let data = &body.basic_blocks[mir::BasicBlock::from_usize(bb)];
            for s in &data.statements {
                match &s.kind {
                    StatementKind::Assign(b) => {
                        let (place, rv) = &**b;
                        kill_moves_rvalue(rv, &mut st);
                        if place.projection.is_empty() && is_guard(place.local) {
                            st.insert(place.local.as_u32());
                        }
                    }
                    StatementKind::StorageDead(l) => {
                        st.remove(&l.as_u32());
                    }
                    _ => {}
                }
            }
            let term = data.terminator();
            let mut succ_state = st.clone();
            match &term.kind {
                TerminatorKind::Call { args, destination, .. } => {
                    for a in args.iter() {
                        if let Operand::Move(p) = &a.node {
                            if p.projection.is_empty() {
                                st.remove(&p.local.as_u32());
                            }
                        }
                    }
                    at_call[bb] = st.clone();
                    succ_state = st.clone();
                    if destination.projection.is_empty() && is_guard(destination.local) {
                        succ_state.insert(destination.local.as_u32());
                    }
                }
                TerminatorKind::Drop { place, .. } => {
                    if place.projection.is_empty() {
                        succ_state.remove(&place.local.as_u32());
                    }
                }
                _ => {}
            }
            for succ in term.successors() {
                let si = succ.as_usize();
                let changed = match &mut entry[si] {
                    None => {
                        entry[si] = Some(succ_state.clone());
                        true
                    }
                    Some(old) => {
                        let before = old.len();
                        old.extend(succ_state.iter().cloned());
                        old.len() != before
                    }
                };
                if changed {
                    work.push(si);
                }
            }
        }
    }

    for (bb, data) in body.basic_blocks.iter_enumerated() {
        for s in &data.statements {
            if let StatementKind::Assign(b) = &s.kind {
                let (_, rv) = &**b;
                match rv {
                    Rvalue::Cast(kind, op, to) => {
                        let from = op.ty(&body.local_decls, tcx);
                        let k = format!("{:?}", kind);
                        if k.starts_with("IntToInt") || k.starts_with("FloatToInt") || k.starts_with("IntToFloat") {
                            if !s.source_info.span.from_expansion() || true {
                                casts.push(J::Arr(vec![
                                    J::Str(k),
                                    J::Str(from.to_string()),
                                    J::Str(to.to_string()),
                                    J::Num(line(tcx, s.source_info.span) as i128),
                                    J::Bool(s.source_info.span.from_expansion()),
                                ]));
                            }
                        }
                    }
                    Rvalue::BinaryOp(op, ops) => {
                        let lt = ops.0.ty(&body.local_decls, tcx);
                        if lt.is_integral() || lt.is_floating_point() {
                            binops.push(J::Arr(vec![
                                J::Str(format!("{:?}", op)),
                                J::Str(lt.to_string()),
                                J::Num(line(tcx, s.source_info.span) as i128),
                                J::Bool(s.source_info.span.from_expansion()),
                            ]));
                        }
                    }
                    _ => {}
                }
            }
        }
        let term = data.terminator();
        match &term.kind {
            TerminatorKind::Assert { msg, .. } => {
                let k = match &**msg {
                    mir::AssertKind::BoundsCheck { .. } => "BoundsCheck".to_string(),
                    mir::AssertKind::Overflow(op, _, _) => format!("Overflow({:?})", op),
                    mir::AssertKind::OverflowNeg(_) => "OverflowNeg".to_string(),
                    mir::AssertKind::DivisionByZero(_) => "DivisionByZero".to_string(),
                    mir::AssertKind::RemainderByZero(_) => "RemainderByZero".to_string(),
                    _ => "Other".to_string(),
                };
                asserts.push(J::Arr(vec![
                    J::Str(k),
                    J::Num(line(tcx, term.source_info.span) as i128),
                    J::Bool(term.source_info.span.from_expansion()),
                ]));
            }
            TerminatorKind::Call { func, .. } => {
                let fty = func.ty(&body.local_decls, tcx);
                if let ty::FnDef(cdid, cargs) = fty.kind() {
                    let mut name = def_path(tcx, *cdid);
                    if let Ok(cargs) = tcx.try_normalize_erasing_regions(env, ty::Unnormalized::new_wip(*cargs)) {
                        if let Ok(Some(inst)) = ty::Instance::try_resolve(tcx, env, *cdid, cargs) {
                            name = def_path(tcx, inst.def_id());
                        }
                    }
                    let live: Vec<J> = at_call[bb.as_usize()]
                        .iter()
                        .map(|l| {
                            let t = guard_locals.iter().find(|(g, _)| g.as_u32() == *l).map(|x| x.1.clone()).unwrap_or_default();
                            J::Str(t)
                        })
                        .collect();
                    let mut v = vec![J::Str(name), J::Num(line(tcx, term.source_info.span) as i128)];
                    if !live.is_empty() {
                        v.push(J::Arr(live));
                    }
                    calls.push(J::Arr(v));
                }
            }
            _ => {}
        }
    }
    J::obj(vec![
        ("casts", J::Arr(casts)),
        ("binops", J::Arr(binops)),
        ("asserts", J::Arr(asserts)),
        ("calls", J::Arr(calls)),
    ])
}

fn kill_moves_rvalue(rv: &Rvalue<'_>, st: &mut BTreeSet<u32>) {
    let mut kill = |op: &Operand<'_>| {
        if let Operand::Move(p) = op {
            if p.projection.is_empty() {
                st.remove(&p.local.as_u32());
            }
        }
    };
    match rv {
        Rvalue::Use(op, ..) => kill(op),
        Rvalue::Cast(_, op, _) => kill(op),
        Rvalue::Aggregate(_, ops) => {
            for o in ops.iter() {
                kill(o)
            }
        }
        _ => {}
    }
}
