"""call graph over the resolved callees exported by ergfacts (calls.json of a crate); SCCs"""
from sa import tree as T


def graph(fx, crate):
    g, meta = {}, {}
    for e in fx.calls(crate):
        n = T.norm(e['path'])
        g.setdefault(n, set()).update(T.norm(c[0]) for c in e['calls'])
        if e.get('mir') and e['mir'].get('calls'):
            g[n].update(T.norm(c[0]) for c in e['mir']['calls'])
        meta[n] = (e['file'], e['line'])
    return g, meta


def reachable(g, roots):
    seen, work = set(), [r for r in roots if r in g]
    while work:
        x = work.pop()
        if x in seen:
            continue
        seen.add(x)
        work.extend(y for y in g.get(x, ()) if y in g and y not in seen)
    return seen


def sccs(g, nodes):
    """Tarjan (iterative) restricted to `nodes`; returns list of sets with a cycle (size > 1 or self-loop)"""
    index, low, on, st, out = {}, {}, set(), [], []
    counter = [0]
    for root in nodes:
        if root in index:
            continue
        work = [(root, iter(sorted(y for y in g.get(root, ()) if y in nodes)))]
        index[root] = low[root] = counter[0]
        counter[0] += 1
        st.append(root)
        on.add(root)
        while work:
            v, it = work[-1]
            adv = False
            for w in it:
                if w not in index:
                    index[w] = low[w] = counter[0]
                    counter[0] += 1
                    st.append(w)
                    on.add(w)
                    work.append((w, iter(sorted(y for y in g.get(w, ()) if y in nodes))))
                    adv = True
                    break
                elif w in on:
                    low[v] = min(low[v], index[w])
            if adv:
                continue
            work.pop()
            if work:
                p = work[-1][0]
                low[p] = min(low[p], low[v])
            if low[v] == index[v]:
                comp = set()
                while True:
                    w = st.pop()
                    on.discard(w)
                    comp.add(w)
                    if w == v:
                        break
                if len(comp) > 1 or v in g.get(v, ()):
                    out.append(comp)
    return out
