"""K4 visitor completeness: does a traversal over an expression enum *visit* every child expression?

Type side (from ADT facts): for every struct reachable from the root enum through ADTs of the syntax-tree module, the field
paths that hold root-enum values ("leaf paths"); expansion continues through directly embedded structs (`args: Args`) and
stops at wrappers (Vec/Option/Box) and at enums (which need their own `match`).

Code side (typed HIR of the traversal): a leaf path is *visited* in an arm when a value originating from it flows into a call
of a traversal function (the root traversal, or a function of the same file that transitively calls it):
  origin(e)  = the field chains rooted at the payload binding from which e is derived (through refs, method chains such as
               .iter()/.as_ref()/.split_at()/.zip(), tuple/let/if-let/for/closure-parameter bindings);
  visit site = a call whose resolved callee is a traversal function and one of whose arguments has a non-empty origin, or an
               iterator adaptor receiving a traversal function as a value (`.any(Self::is_impure)`).
A payload (or sub-struct / sub-enum) handed whole to another traversal function is analysed recursively in that function.
Reported: variants with children in a neutral / catch-all-neutral arm, unvisited leaf paths, panicking arms.
"""
import re
from sa import tree as T

WRAPPERS = ('alloc::boxed::Box', 'core::option::Option', 'alloc::vec::Vec', 'alloc::sync::Arc', 'alloc::rc::Rc',
            'erg_common::set::Set', 'std::collections::HashSet', 'erg_common::shared::Shared')
PANIC_MACROS = {'todo', 'unimplemented', 'panic', 'unreachable'}


class TypeGraph:
    def __init__(self, adts, crate, root, follow_prefix):
        """adts: ADT facts of one crate; root: short name like 'hir::Expr'; follow_prefix: only ADTs whose short name starts
        with it are syntax-tree nodes (types, var-infos, contexts are not children)"""
        self.crate = crate
        self.root = root
        self.prefix = follow_prefix
        self.by_short = {}
        for a in adts:
            p = a['path']
            short = p[len(crate) + 2:] if p.startswith(crate + '::') else p
            if short.startswith(follow_prefix):
                self.by_short[short] = a
        self._contains = {}
        self._compute_contains()

    def names_in(self, tstr):
        return [m for m in re.findall(r'[A-Za-z_][A-Za-z0-9_]*(?:::[A-Za-z_][A-Za-z0-9_]*)+', tstr) if m in self.by_short]

    def _compute_contains(self):
        c = {n: (n == self.root) for n in self.by_short}
        changed = True
        while changed:
            changed = False
            for n, a in self.by_short.items():
                if c[n]:
                    continue
                if any(any(c.get(m) for m in self.names_in(f['t'])) for v in a['variants'] for f in v['f']):
                    c[n] = True
                    changed = True
        self._contains = c

    def contains_root(self, tstr):
        return any(self._contains.get(m) for m in self.names_in(tstr))

    def core(self, tstr):
        """(adt short name or None, wrapped?)"""
        t = tstr.strip()
        while t.startswith('&'):
            t = t[1:].strip()
            if t.startswith("'"):
                t = t.split(' ', 1)[1] if ' ' in t else t
            if t.startswith('mut '):
                t = t[4:]
        wrapped = False
        while True:
            m = re.match(r'^([A-Za-z_:0-9]+)<(.*)>$', t)
            if m and m.group(1) in WRAPPERS:
                t = m.group(2).strip()
                wrapped = True
                continue
            break
        return (t if t in self.by_short else None), wrapped

    def is_newtype(self, short):
        a = self.by_short[short]
        return a['kind'] == 'struct' and len(a['variants'][0]['f']) == 1 and a['variants'][0]['f'][0]['n'] == '0'

    def leaf_paths(self, short, _depth=0):
        a = self.by_short.get(short)
        if not a or a['kind'] != 'struct':
            return []
        if self.is_newtype(short):
            return [((), a['variants'][0]['f'][0]['t'])]
        out = []
        for f in a['variants'][0]['f']:
            if not self.contains_root(f['t']):
                continue
            core, wrapped = self.core(f['t'])
            sub = self.by_short.get(core) if core else None
            if core and not wrapped and sub and sub['kind'] == 'struct' and core != self.root and _depth < 4 and not self.is_newtype(core):
                for (p, t) in self.leaf_paths(core, _depth + 1):
                    out.append(((f['n'],) + p, t))
            else:
                out.append(((f['n'],), f['t']))
        return out

    def variants_with_children(self, short):
        a = self.by_short[short]
        out = {}
        for v in a['variants']:
            ts = [f['t'] for f in v['f']]
            if any(self.contains_root(t) for t in ts):
                out[v['n']] = ts
        return out


def is_panicking(body):
    b = T.peel(body)
    ms = b.get('m') or []
    if ms and ms[0] in PANIC_MACROS:
        return ms[0]
    if b.get('k') == 'Block':
        ss = T.stmts_of(b)
        if len(ss) == 1:
            return is_panicking(T.unsemi(ss[0]))
    return None


def payload_bindings(pat):
    """{variant name: binding name or None}, catch_all?, catch-all binding name"""
    out = {}
    state = {'catch': False, 'bind': None}

    def go(p):
        k = p.get('k')
        if k == 'POr':
            for q in p['p']:
                go(q)
        elif k in ('PRef', 'PGuard'):
            go(p['p'])
        elif k == 'Bind':
            if 'sub' in p:
                go(p['sub'])
            else:
                state['catch'] = True
                state['bind'] = p['n']
        elif k == 'Wild':
            state['catch'] = True
        elif k in ('PTupleStruct', 'PStruct', 'PPath'):
            vn = p['d'].split('::')[-1]
            b = None
            if k == 'PTupleStruct' and p['p']:
                q = p['p'][0]
                while q.get('k') == 'PRef':
                    q = q['p']
                if q.get('k') == 'Bind':
                    b = q['n']
            out[vn] = b
    go(pat)
    return out, state['catch'], state['bind']


def nested_payloads(pat):
    """[(variant, sub-variant, binding)] for patterns Root::V(Sub::W(x)) (also inside or-patterns)"""
    out = []

    def go(p):
        k = p.get('k')
        if k == 'POr':
            for q in p['p']:
                go(q)
        elif k in ('PRef', 'PGuard'):
            go(p['p'])
        elif k == 'Bind' and 'sub' in p:
            go(p['sub'])
        elif k == 'PTupleStruct' and p['p']:
            vn = p['d'].split('::')[-1]
            q = p['p'][0]
            while q.get('k') == 'PRef':
                q = q['p']
            alts = q['p'] if q.get('k') == 'POr' else [q]
            for a in alts:
                if a.get('k') == 'PTupleStruct':
                    b = None
                    if a['p']:
                        r = a['p'][0]
                        while r.get('k') == 'PRef':
                            r = r['p']
                        if r.get('k') == 'Bind':
                            b = r['n']
                    out.append((vn, a['d'].split('::')[-1], b))
    go(pat)
    return out


def strip(n):
    while True:
        k = n.get('k')
        if k == 'Ref' or (k == 'Unary' and n.get('op') == '*'):
            n = n['x']
        elif k == 'Block' and not n.get('s') and 'e' in n and not n.get('m'):
            n = n['e']
        elif k == 'Cast':
            n = n['x']
        else:
            return n


class Origins:
    """flow-insensitive origin analysis inside one body: local name -> set of chains (tuples) rooted at `root_local`"""

    def __init__(self, root_local, body, tg=None, types=None):
        self.root = root_local
        self.tg = tg
        self.types = types
        self.env = {}
        for _ in range(4):
            before = {k: set(v) for k, v in self.env.items()}
            self._scan(body)
            if before == self.env:
                break

    def of(self, e):
        e = strip(e)
        k = e.get('k')
        if k == 'Local':
            if e['n'] == self.root:
                return {()}
            return set(self.env.get(e['n'], ()))
        if k == 'Field':
            base = self.of(e['x'])
            return {c + (e['n'],) for c in base}
        if k in ('MCall', 'Call') and self.tg is not None:
            # a call result carries syntax-tree children only if its type mentions a syntax-tree node type
            t = self.types[e['ty']] if isinstance(e.get('ty'), int) else ''
            if not self.tg.contains_root(t):
                return set()
        if k == 'MCall':
            s = self.of(e['r'])
            for a in e['a']:
                if strip(a).get('k') != 'Closure':
                    s |= self.of(a)
            return s
        if k == 'Call':
            s = set()
            for a in e['a']:
                if strip(a).get('k') != 'Closure':
                    s |= self.of(a)
            return s
        if k in ('Tup', 'Array'):
            s = set()
            for a in e['a']:
                s |= self.of(a)
            return s
        if k == 'Index':
            return self.of(e['x'])
        if k == 'Match' and e.get('src') == 'Try':
            return self.of(e['x'])
        if k == 'If':
            s = self.of(e['t'])
            if 'e' in e:
                s |= self.of(e['e'])
            return s
        if k == 'Block':
            if 'e' in e:
                return self.of(e['e'])
        return set()

    def _bind(self, pat, origin):
        if not origin:
            return
        for n in T.pat_bindings(pat):
            self.env.setdefault(n, set()).update(origin)

    def _scan(self, body):
        for n in T.walk(body):
            k = n.get('k')
            if k == 'Let' and 'init' in n:
                self._bind(n['pat'], self.of(n['init']))
            elif k == 'LetCond':
                self._bind(n['pat'], self.of(n['init']))
            elif k == 'Match':
                o = self.of(n['x'])
                if n.get('src') == 'ForLoopDesugar':
                    # match IntoIterator::into_iter(it) { mut iter => loop { match Iterator::next(&mut iter) { Some(pat) => .. } } }
                    for arm in n['arms']:
                        self._bind(arm['pat'], o)
                else:
                    for arm in n['arms']:
                        self._bind(arm['pat'], o)
            elif k == 'MCall':
                ro = self.of(n['r'])
                for a in n['a']:
                    a2 = strip(a)
                    if a2.get('k') == 'Closure':
                        oo = set(ro)
                        for b in n['a']:
                            if strip(b).get('k') != 'Closure':
                                oo |= self.of(b)
                        for p in a2['params']:
                            self._bind(p, oo)
            elif k == 'Call':
                for a in n['a']:
                    a2 = strip(a)
                    if a2.get('k') == 'Closure':
                        oo = set()
                        for b in n['a']:
                            if strip(b).get('k') != 'Closure':
                                oo |= self.of(b)
                        for p in a2['params']:
                            self._bind(p, oo)


class Traversal:
    def __init__(self, tg, fns_by_norm, traversal_fns, types):
        """fns_by_norm: {normalised path: fn fact} of the traversal's file(s); traversal_fns: set of normalised names that count as
        visiting (root traversal and its transitive callers in the file)"""
        self.tg = tg
        self.fns = fns_by_norm
        self.tfns = traversal_fns
        self.types = types
        self.problems = []
        self.covered = []
        self.delegated = []
        self._seen = set()

    # ---- visit sites
    def visits(self, binding, body):
        """set of chains (rooted at binding) that flow into traversal calls, plus recursive sub-analyses for whole-value delegation.
        returns (visited chains, list of (callee fn, param name, arg chain))"""
        org = Origins(binding, body, self.tg, self.types)
        visited = set()
        delegs = []
        for n in T.walk(body):
            k = n.get('k')
            if k not in ('Call', 'MCall'):
                continue
            cal = T.cq(n)
            args = list(n['a'])
            if k == 'MCall':
                args_all = [n['r']] + args
            else:
                args_all = args
            if cal in self.tfns:
                fn = self.fns.get(cal)
                for i, a in enumerate(args_all):
                    o = org.of(a)
                    if o:
                        visited |= o
                        if fn is not None:
                            pi = i if (k == 'MCall' or not fn['params'] or fn['params'][0].get('n') != 'self') else i + 1
                            # for `Self::f(x)` style calls of methods without self the indices coincide
                            if pi < len(fn['params']) and fn['params'][pi].get('k') == 'Bind':
                                at = self.types[a['ty']] if isinstance(a.get('ty'), int) else ''
                                acore = self.tg.core(at)[0]
                                for c in o:
                                    delegs.append((fn, fn['params'][pi]['n'], c, acore))
            else:
                # traversal function passed as a value: xs.iter().any(Self::is_impure)
                for a in args:
                    a2 = strip(a)
                    if a2.get('k') == 'Path' and T.norm(a2.get('d')) in self.tfns:
                        o = org.of(n['r']) if k == 'MCall' else set()
                        for b in args:
                            if b is not a:
                                o |= org.of(b)
                        visited |= o
        return visited, delegs

    def check_struct(self, binding, short, body, where, line, depth=0):
        leafs = self.tg.leaf_paths(short)
        if not leafs:
            return
        visited, delegs = self.visits(binding, body)
        # whole-value / sub-value delegation: analyse the callee for the part it received
        sub_ok = set()
        for (fn, pname, chain, acore) in delegs:
            t = self.type_at(short, chain)
            if t is None:
                continue
            core, wrapped = self.tg.core(t)
            if core is None or wrapped or acore != core:
                continue
            key = (fn['path'], pname, core)
            self.delegated.append('%s: %s%s -> %s' % (where, short.split('::')[-1], ''.join('.' + c for c in chain), T.norm(fn['path'])))
            if key in self._seen or depth > 3:
                continue
            self._seen.add(key)
            w2 = '%s>%s' % (where, T.norm(fn['path']))
            sub = self.tg.by_short[core]
            if core == self.tg.root:
                continue
            if sub['kind'] == 'enum':
                self.check_enum(pname, core, fn['body'], w2, fn['line'], self.neutral, depth + 1)
            else:
                self.check_struct(pname, core, fn['body'], w2, fn['line'], depth + 1)
        for (p, t) in leafs:
            ok = any(c == p[:len(c)] or p == c[:len(p)] for c in visited)
            if ok:
                self.covered.append('%s: %s%s' % (where, short.split('::')[-1], ''.join('.' + x for x in p)))
            else:
                self.problems.append(('unvisited-field', where, '%s%s' % (short.split('::')[-1], ''.join('.' + x for x in p)), line))

    def type_at(self, short, chain):
        t = short
        cur = short
        for f in chain:
            a = self.tg.by_short.get(cur)
            if not a or a['kind'] != 'struct':
                return None
            ft = [x['t'] for x in a['variants'][0]['f'] if x['n'] == f]
            if not ft:
                return None
            t = ft[0]
            core, wrapped = self.tg.core(t)
            if core is None:
                return t
            cur = core
            if wrapped:
                return t
        return t

    def check_enum(self, binding, short, body, where, line, neutral, depth=0):
        self.neutral = neutral
        need = self.tg.variants_with_children(short)
        if not need:
            return
        matches = [n for n in T.walk(body) if n.get('k') == 'Match' and n.get('src') == 'Normal' and is_local(n['x'], binding)]
        if not matches:
            iflets = [n for n in T.walk(body) if n.get('k') == 'If' and any(c.get('k') == 'LetCond' and is_local(c['init'], binding) for c in T.walk(n['c']))]
            if iflets:
                arms = []
                for n in iflets:
                    for c in T.walk(n['c']):
                        if c.get('k') == 'LetCond' and is_local(c['init'], binding):
                            arms.append({'pat': c['pat'], 'b': n['t'], 'l': n.get('l')})
                # variants not named by any `if let` are simply skipped: that is a do-nothing default
                arms.append({'pat': {'k': 'Wild'}, 'b': {'k': 'Block', 's': []}, 'l': line})
                self._match_arms(arms, short, need, where, neutral if neutral is not None else (lambda b: False), depth, line)
                return
            visited, delegs = self.visits(binding, body)
            if () in visited:
                for (fn, pname, chain, acore) in delegs:
                    if chain == () and acore == short:
                        key = (fn['path'], pname, short)
                        self.delegated.append('%s: %s -> %s' % (where, short.split('::')[-1], T.norm(fn['path'])))
                        if key not in self._seen and depth <= 3 and short != self.tg.root:
                            self._seen.add(key)
                            self.check_enum(pname, short, fn['body'], '%s>%s' % (where, T.norm(fn['path'])), fn['line'], neutral, depth + 1)
                return
            self.problems.append(('unvisited-value', where, '%s value `%s` is never matched or visited' % (short.split('::')[-1], binding), line))
            return
        m = matches[0]
        self._match_arms(m['arms'], short, need, where, neutral, depth, m['l'])

    def _match_arms(self, arms, short, need, where, neutral, depth, mline):
        handled = {}
        nested = {}
        default_arm = None
        for arm in arms:
            binds, catch_all, cb = payload_bindings(arm['pat'])
            for vn, b in binds.items():
                if vn not in handled:
                    handled[vn] = (arm, b)
            for (vn, subv, b) in nested_payloads(arm['pat']):
                nested.setdefault(vn, {}).setdefault(subv, (arm, b))
            if catch_all and default_arm is None:
                default_arm = (arm, cb)
        en = short.split('::')[-1]
        for vn, ts in need.items():
            w = '%s/%s::%s' % (where, en, vn)
            if vn in handled:
                arm, b = handled[vn]
                pk = is_panicking(arm['b'])
                if pk:
                    self.problems.append(('panicking-arm', where, '%s::%s => %s!()' % (en, vn, pk), arm['l']))
                    continue
                if neutral(arm['b']):
                    self.problems.append(('neutral-arm', where, '%s::%s' % (en, vn), arm['l']))
                    continue
                if b is None and vn in nested:
                    # arms of the form Root::V(Sub::W(x)): the sub-enum is matched in place
                    core, _ = self.tg.core(ts[0])
                    sub = self.tg.by_short.get(core) if core else None
                    if sub and sub['kind'] == 'enum':
                        sub_need = self.tg.variants_with_children(core)
                        for sv, sts in sub_need.items():
                            if sv in nested[vn]:
                                arm2, b2 = nested[vn][sv]
                                if neutral(arm2['b']):
                                    self.problems.append(('neutral-arm', w, '%s::%s' % (core.split('::')[-1], sv), arm2['l']))
                                elif b2 is not None:
                                    c2, _ = self.tg.core(sts[0])
                                    if c2 and self.tg.by_short[c2]['kind'] == 'struct':
                                        self.check_struct(b2, c2, arm2['b'], '%s/%s::%s' % (w, core.split('::')[-1], sv), arm2['l'], depth + 1)
                            elif default_arm is not None and neutral(default_arm[0]['b']):
                                self.problems.append(('neutral-default', w, '%s::%s' % (core.split('::')[-1], sv), default_arm[0]['l']))
                        continue
                if b is None:
                    # payload not bound but the arm answers something other than the neutral default (e.g. the conservative `true`)
                    self.delegated.append('%s: %s::%s payload ignored by a non-neutral arm (%s)' % (where, en, vn, T.show(arm['b'])[:40]))
                    continue
                core, _ = self.tg.core(ts[0])
                if core is None:
                    continue
                sub = self.tg.by_short[core]
                if sub['kind'] == 'enum':
                    self.check_enum(b, core, arm['b'], w, arm['l'], neutral, depth + 1)
                else:
                    self.check_struct(b, core, arm['b'], w, arm['l'], depth + 1)
            elif default_arm is not None:
                arm, cb = default_arm
                pk = is_panicking(arm['b'])
                if pk:
                    self.problems.append(('panicking-arm', where, '%s::%s => (catch-all) %s!()' % (en, vn, pk), arm['l']))
                elif neutral(arm['b']):
                    self.problems.append(('neutral-default', where, '%s::%s' % (en, vn), arm['l']))
                else:
                    self.delegated.append('%s: %s::%s handled by a non-neutral catch-all arm' % (where, en, vn))
            else:
                self.problems.append(('unknown-arm', where, '%s::%s' % (en, vn), m['l']))


def is_local(e, name):
    e = strip(e)
    return e.get('k') == 'Local' and e['n'] == name


def traversal_closure(fns, root_norm):
    """normalised names of functions (of the given fn facts) that transitively call root_norm, plus root_norm"""
    callers = {}
    for f in fns:
        me = T.norm(f['path'])
        for c in T.calls(f['body']):
            cq = T.cq(c)
            if cq:
                callers.setdefault(cq, set()).add(me)
        for n in T.walk(f['body']):
            if n.get('k') == 'Path' and n.get('dk') in ('AssocFn', 'Fn'):
                callers.setdefault(T.norm(n['d']), set()).add(me)
    out = {root_norm}
    work = [root_norm]
    while work:
        x = work.pop()
        for c in callers.get(x, ()):
            if c not in out:
                out.add(c)
                work.append(c)
    return out
