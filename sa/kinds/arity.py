"""Arity judgement of function subtyping: the initialiser of `len_judge` in the (Subr, Subr) arm of Context::structural_supertype_of is evaluated
as an integer / Boolean expression over every shape (numbers of non-default and default parameters 0..3, the variadic flags) of the expected function
type `ls` and the given one `rs`, and compared with what a call through the expected type needs."""
import itertools
from sa import tree as T

CMP = 'crates/erg_compiler/context/compare.rs'


class Unknown(Exception):
    pass


def ev(e, env):
    e = T.peel(e)
    k = e.get('k')
    if k == 'Block':
        if e.get('s'):
            raise Unknown('block with statements')
        return ev(e['e'], env)
    if k in ('Paren', 'DropTemps', 'Cast') and 'x' in e:
        return ev(e['x'], env)
    if k == 'If':
        return ev(e['t'], env) if ev(e['c'], env) else ev(e['e'], env)
    if k == 'Lit':
        v = e.get('v')
        if isinstance(v, dict):
            v = v.get('bool', v.get('int', v.get('str')))
        if isinstance(v, bool):
            return v
        if str(v) in ('true', 'false'):
            return str(v) == 'true'
        try:
            return int(str(v).rstrip('usize').rstrip('_') or 0) if not isinstance(v, int) else v
        except ValueError:
            raise Unknown('literal %r' % (v,))
    if k == 'Unary' and e.get('op') == '!':
        return not ev(e['x'], env)
    if k == 'Binary':
        op = e['op']
        if op == '&&':
            return bool(ev(e['x'], env)) and bool(ev(e['y'], env))
        if op == '||':
            return bool(ev(e['x'], env)) or bool(ev(e['y'], env))
        a, b = ev(e['x'], env), ev(e['y'], env)
        if op == '+':
            return a + b
        if op == '-':
            if a - b < 0:
                raise Unknown('usize underflow')
            return a - b
        if op in ('==', '!=', '<', '<=', '>', '>='):
            return {'==': a == b, '!=': a != b, '<': a < b, '<=': a <= b, '>': a > b, '>=': a >= b}[op]
        raise Unknown('operator ' + op)
    if k == 'MCall':
        recv = T.show(T.peel(e['r'])).replace(' ', '')
        for wrap in ('.as_ref()', '.as_deref()', '.iter()'):
            recv = recv.replace(wrap, '')
        if e['n'] in ('len', 'count') and recv in env:
            return env[recv]
        if e['n'] == 'is_empty' and recv in env:
            return env[recv] == 0
        if e['n'] in ('is_some', 'is_none') and recv in env:
            return bool(env[recv]) == (e['n'] == 'is_some')
        if e['n'] in ('min', 'max') and len(e['a']) == 1:
            a, b = ev(e['r'], env), ev(e['a'][0], env)
            return min(a, b) if e['n'] == 'min' else max(a, b)
        raise Unknown('call %s on %s' % (e['n'], recv))
    if k == 'Local' and e['n'] in env:
        return env[e['n']]
    raise Unknown('%s: %s' % (k, T.show(e)[:60]))


def shapes():
    rng = range(0, 4)
    for lnd, ld, rnd, rd in itertools.product(rng, rng, rng, rng):
        for lv, lk, rv, rk in itertools.product((0, 1), repeat=4):
            yield {'ls.non_default_params': lnd, 'ls.default_params': ld, 'rs.non_default_params': rnd, 'rs.default_params': rd,
                   'ls.var_params': lv, 'ls.kw_var_params': lk, 'rs.var_params': rv, 'rs.kw_var_params': rk}


def find_len_judge(fx):
    fn = fx.fn(CMP, 'Context::structural_supertype_of')
    for n in T.walk(fn['body']):
        if n.get('k') == 'Let' and n.get('init') is not None and 'len_judge' in T.pat_bindings(n['pat']):
            return fn, n
    return fn, None


def rule(chk, fx, rid, parts):
    """parts: 'need' (a call through the expected type fits the given function), 'refl' (a function type is a subtype of itself)"""
    chk.rule(rid, 'the arity judgement `len_judge` of function subtyping (Subr, Subr arm of Context::structural_supertype_of), evaluated for every shape of the expected type `ls` and '
                  'the given type `rs` (0..3 non-default and default parameters, the four variadic flags): '
                  + ('it holds only if rs.nd <= ls.nd, and when `rs` has neither `*args` nor `**kwargs` only if also ls.nd <= rs.nd + rs.defaults — a caller of `ls` passes ls.nd positional arguments; ' if 'need' in parts else '')
                  + ('it holds whenever the two shapes are equal (reflexivity of <: on function types)' if 'refl' in parts else ''))
    fn, let = find_len_judge(fx)
    if not chk.need(let is not None, 'structural_supertype_of: `let len_judge = ..` was not found'):
        return
    n = 0
    bad_need = bad_refl = None
    try:
        for env in shapes():
            v = bool(ev(let['init'], env))
            n += 1
            lnd, rnd, rd = env['ls.non_default_params'], env['rs.non_default_params'], env['rs.default_params']
            if 'need' in parts and v and bad_need is None and (lnd < rnd or (not env['rs.var_params'] and not env['rs.kw_var_params'] and lnd > rnd + rd)):
                bad_need = env
            same = all(env['ls.' + f] == env['rs.' + f] for f in ('non_default_params', 'default_params', 'var_params', 'kw_var_params'))
            if 'refl' in parts and same and not v and bad_refl is None:
                bad_refl = env
    except Unknown as u:
        chk.need(False, 'len_judge: cannot evaluate (%s)' % u)
        return
    chk.count('shapes of (ls, rs) evaluated', n)

    def sh(env, s):
        return '(%d positional, %d default%s%s)' % (env[s + '.non_default_params'], env[s + '.default_params'], ', *args' if env[s + '.var_params'] else '', ', **kwargs' if env[s + '.kw_var_params'] else '')
    if 'need' in parts:
        if bad_need:
            chk.bad(rid, 'Context::structural_supertype_of', 'arity-need', 'len_judge accepts a function %s where a function type %s is expected: a call through the expected type passes %d '
                    'positional arguments, which the function cannot take (TypeError at run time)' % (sh(bad_need, 'rs'), sh(bad_need, 'ls'), bad_need['ls.non_default_params']), CMP, let.get('l'))
        else:
            chk.ok(rid, 'arity-need', sample='%d shapes' % n)
    if 'refl' in parts:
        if bad_refl:
            chk.bad(rid, 'Context::structural_supertype_of', 'arity-refl', 'len_judge rejects a function type %s as a subtype of itself' % sh(bad_refl, 'ls'), CMP, let.get('l'))
        else:
            chk.ok(rid, 'arity-refl', sample='%d shapes' % n)
