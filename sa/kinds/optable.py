"""Declared operator table (Rust, context/initialize/classes.rs) and runtime dunder table (Python, lib/core/_erg_*.py)."""
import ast, os
from sa import tree as T
from sa.facts import REPO

CLASSES = 'crates/erg_compiler/context/initialize/classes.rs'
CORE = 'crates/erg_compiler/lib/core'
NUMERIC = ('Bool', 'Nat', 'Int', 'Ratio', 'Float')
# (trait, const) -> python operator
OPS = {('ADD', 'OUTPUT'): '+', ('SUB', 'OUTPUT'): '-', ('MUL', 'OUTPUT'): '*', ('MUL', 'POW_OUTPUT'): '**', ('FLOOR_DIV', 'OUTPUT'): '//',
       ('DIV', 'OUTPUT'): '/', ('DIV', 'MOD_OUTPUT'): '%', ('POS', 'OUTPUT'): 'pos', ('NEG', 'OUTPUT'): 'neg'}
DUNDER = {'+': '__add__', '-': '__sub__', '*': '__mul__', '**': '__pow__', '//': '__floordiv__', '/': '__truediv__', '%': '__mod__', 'pos': '__pos__', 'neg': '__neg__'}


def tyname(e):
    e = T.peel(e)
    if e.get('k') == 'Path':
        return T.last_seg(e['d'])
    return T.show(e)


def declared_table(fx):
    """[(self, trait, rhs, {const: out}, line)] from Context::init_builtin_classes"""
    f = fx.fn(CLASSES, 'Context::init_builtin_classes')
    env, rows = {}, []
    for st in T.stmts_of(f['body']):
        st = T.unsemi(st)
        if st.get('k') == 'Let' and 'init' in st and st['pat'].get('k') == 'Bind':
            init = T.peel(st['init'])
            if init.get('k') == 'Call' and (init.get('fn') or '').endswith('builtin_methods'):
                trait = rhs = None
                for c in T.walk(init):
                    if c.get('k') == 'Call' and T.last_seg(c.get('fn') or '') in ('poly', 'mono') and trait is None:
                        trait = T.show(T.peel(c['a'][0]))
                    if c.get('k') == 'Call' and T.last_seg(c.get('fn') or '') == 'ty_tp':
                        rhs = tyname(c['a'][0])
                env[st['pat']['n']] = {'trait': trait, 'rhs': rhs, 'consts': {}, 'l': st['l']}
        elif st.get('k') == 'MCall' and st['n'] == 'register_builtin_const' and T.show(st['r']) in env and len(st['a']) >= 4:
            name = T.show(T.peel(st['a'][0]))
            val = None
            for c in T.walk(st['a'][3]):
                if c.get('k') == 'Call' and T.last_seg(c.get('fn') or '') in ('builtin_class', 'builtin_trait', 'builtin_type'):
                    val = tyname(c['a'][0])
            env[T.show(st['r'])]['consts'][name] = val
        elif st.get('k') == 'MCall' and st['n'] == 'register_trait_methods' and len(st['a']) >= 2:
            x = T.show(T.peel(st['a'][1]))
            if x in env and env[x]['consts']:
                rows.append((tyname(st['a'][0]), env[x]['trait'], env[x]['rhs'], dict(env[x]['consts']), env[x]['l']))
    return rows


# ---- abstract semantics of Python arithmetic on the numeric classes
def dom(cls):
    """(integral?, lo, hi) with None = unbounded"""
    return {'Bool': (True, 0, 1), 'Nat': (True, 0, None), 'Int': (True, None, None), 'Ratio': (False, None, None), 'Float': (False, None, None)}[cls]


def result(op, a, b):
    """abstract result of `a op b` in Python for operands in classes a, b: (may_be_non_integral, may_be_negative)"""
    ia, la, ha = dom(a)
    if b is None:
        if op == 'pos':
            return (not ia, la is None or la < 0)
        if op == 'neg':
            return (not ia, ha is None or ha > 0)
    ib, lb, hb = dom(b)
    nonint = not (ia and ib)
    nega, negb = (la is None or la < 0), (lb is None or lb < 0)
    posa, posb = (ha is None or ha > 0), (hb is None or hb > 0)
    if op == '+':
        return (nonint, nega or negb)
    if op == '-':
        return (nonint, nega or posb)
    if op == '*':
        return (nonint, (nega and posb) or (negb and posa) or False if not (nega or negb) else True)
    if op == '//':
        return (nonint, nega or negb)
    if op == '/':
        return (True, nega or negb)
    if op == '%':
        return (nonint, negb)          # the result has the sign of the divisor
    if op == '**':
        return (nonint or negb, nega)  # a negative exponent gives a float; a negative base can give a negative power
    raise KeyError(op)


# ---- runtime side
def runtime_classes():
    """{class name: {'bases': [...], 'methods': {name: ast.FunctionDef}, 'file': rel, 'node': ClassDef}}"""
    out = {}
    base = os.path.join(REPO, CORE)
    for fn in sorted(os.listdir(base)):
        if not (fn.startswith('_erg_') and fn.endswith('.py')):
            continue
        tree = ast.parse(open(os.path.join(base, fn), encoding='utf-8').read())
        for n in tree.body:
            if isinstance(n, ast.ClassDef):
                out[n.name] = {'bases': [ast.unparse(b) for b in n.bases], 'methods': {m.name: m for m in n.body if isinstance(m, ast.FunctionDef)},
                               'file': CORE + '/' + fn, 'node': n}
    return out


def mro(classes, name):
    seen, order, work = set(), [], [name]
    while work:
        c = work.pop(0)
        if c in seen or c not in classes:
            continue
        seen.add(c)
        order.append(c)
        work.extend(classes[c]['bases'])
    return order


def constrained_classes(classes):
    """classes whose constructor raises on a value constraint: {name: description}"""
    out = {}
    for name, c in classes.items():
        for m in ('__init__', '__new__'):
            f = c['methods'].get(m)
            if f is None:
                continue
            for n in ast.walk(f):
                if isinstance(n, ast.If) and any(isinstance(x, ast.Raise) for x in ast.walk(n)) and isinstance(n.test, ast.Compare):
                    out[name] = ast.unparse(n.test)
    return out
