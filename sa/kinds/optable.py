"""Declared operator table (Rust, context/initialize/classes.rs) and runtime dunder table (Python, lib/core/_erg_*.py)."""
import ast, os
from sa import tree as T
from sa.facts import REPO

CLASSES = 'crates/erg_compiler/context/initialize/classes.rs'
CORE = 'crates/erg_compiler/lib/core'
NUMERIC = ('Bool', 'Nat', 'Int', 'Ratio', 'Float')
# (trait, const) -> python operator
OPS = {('ADD', 'OUTPUT'): '+', ('SUB', 'OUTPUT'): '-', ('MUL', 'OUTPUT'): '*', ('MUL', 'POW_OUTPUT'): '**', ('FLOOR_DIV', 'OUTPUT'): '//',
       ('DIV', 'OUTPUT'): '/', ('DIV', 'MOD_OUTPUT'): '%', ('POS', 'OUTPUT'): 'pos', ('NEG', 'OUTPUT'): 'neg'}
DUNDER = {'+': '__add__', '-': '__sub__', '*': '__mul__', '**': '__pow__', '//': '__floordiv__', '/': '__truediv__', '%': '__mod__', 'pos': '__pos__', 'neg': '__neg__'}


def tyname(e):
    e = T.peel(e)
    if e.get('k') == 'Path':
        return T.last_seg(e['d'])
    return T.show(e)


def declared_table(fx):
    """[(self, trait, rhs, {const: out}, line)] from Context::init_builtin_classes"""
    f = fx.fn(CLASSES, 'Context::init_builtin_classes')
    env, rows = {}, []
    for st in T.stmts_of(f['body']):
        st = T.unsemi(st)
        if st.get('k') == 'Let' and 'init' in st and st['pat'].get('k') == 'Bind':
            init = T.peel(st['init'])
            if init.get('k') == 'Call' and (init.get('fn') or '').endswith('builtin_methods'):
                trait = rhs = None
                for c in T.walk(init):
                    if c.get('k') == 'Call' and T.last_seg(c.get('fn') or '') in ('poly', 'mono') and trait is None:
                        trait = T.show(T.peel(c['a'][0]))
                    if c.get('k') == 'Call' and T.last_seg(c.get('fn') or '') == 'ty_tp':
                        rhs = tyname(c['a'][0])
                env[st['pat']['n']] = {'trait': trait, 'rhs': rhs, 'consts': {}, 'l': st['l']}
        elif st.get('k') == 'MCall' and st['n'] == 'register_builtin_const' and T.show(st['r']) in env and len(st['a']) >= 4:
            name = T.show(T.peel(st['a'][0]))
            val = None
            for c in T.walk(st['a'][3]):
                if c.get('k') == 'Call' and T.last_seg(c.get('fn') or '') in ('builtin_class', 'builtin_trait', 'builtin_type'):
                    val = tyname(c['a'][0])
            env[T.show(st['r'])]['consts'][name] = val
        elif st.get('k') == 'MCall' and st['n'] == 'register_trait_methods' and len(st['a']) >= 2:
            x = T.show(T.peel(st['a'][1]))
            if x in env and env[x]['consts']:
                rows.append((tyname(st['a'][0]), env[x]['trait'], env[x]['rhs'], dict(env[x]['consts']), env[x]['l']))
    return rows


# ---- abstract semantics of Python arithmetic on the numeric classes
def dom(cls):
    """(integral?, lo, hi) with None = unbounded"""
    return {'Bool': (True, 0, 1), 'Nat': (True, 0, None), 'Int': (True, None, None), 'Ratio': (False, None, None), 'Float': (False, None, None)}[cls]


def result(op, a, b):
    """abstract result of `a op b` in Python for operands in classes a, b: (may_be_non_integral, may_be_negative)"""
    ia, la, ha = dom(a)
    if b is None:
        if op == 'pos':
            return (not ia, la is None or la < 0)
        if op == 'neg':
            return (not ia, ha is None or ha > 0)
    ib, lb, hb = dom(b)
    nonint = not (ia and ib)
    nega, negb = (la is None or la < 0), (lb is None or lb < 0)
    posa, posb = (ha is None or ha > 0), (hb is None or hb > 0)
    if op == '+':
        return (nonint, nega or negb)
    if op == '-':
        return (nonint, nega or posb)
    if op == '*':
        return (nonint, (nega and posb) or (negb and posa) or False if not (nega or negb) else True)
    if op == '//':
        return (nonint, nega or negb)
    if op == '/':
        return (True, nega or negb)
    if op == '%':
        return (nonint, negb)          # the result has the sign of the divisor
    if op == '**':
        return (nonint or negb, nega)  # a negative exponent gives a float; a negative base can give a negative power
    raise KeyError(op)


# ---- runtime side
def runtime_classes():
    """{class name: {'bases': [...], 'methods': {name: ast.FunctionDef}, 'file': rel, 'node': ClassDef}}"""
    out = {}
    base = os.path.join(REPO, CORE)
    for fn in sorted(os.listdir(base)):
        if not (fn.startswith('_erg_') and fn.endswith('.py')):
            continue
        tree = ast.parse(open(os.path.join(base, fn), encoding='utf-8').read())
        for n in tree.body:
            if isinstance(n, ast.ClassDef):
                out[n.name] = {'bases': [ast.unparse(b) for b in n.bases], 'methods': {m.name: m for m in n.body if isinstance(m, ast.FunctionDef)},
                               'file': CORE + '/' + fn, 'node': n}
    return out


def mro(classes, name):
    seen, order, work = set(), [], [name]
    while work:
        c = work.pop(0)
        if c in seen or c not in classes:
            continue
        seen.add(c)
        order.append(c)
        work.extend(classes[c]['bases'])
    return order


def constrained_classes(classes):
    """classes whose constructor raises on a value constraint: {name: description}"""
    out = {}
    for name, c in classes.items():
        for m in ('__init__', '__new__'):
            f = c['methods'].get(m)
            if f is None:
                continue
            for n in ast.walk(f):
                if isinstance(n, ast.If) and any(isinstance(x, ast.Raise) for x in ast.walk(n)) and isinstance(n.test, ast.Compare):
                    out[name] = ast.unparse(n.test)
    return out


def const_strings(fx, files=('crates/erg_compiler/context/initialize/mod.rs',)):
    out = {}
    for file in files:
        for f in fx.fns(file):
            if f.get('dk') == 'Const':
                b = T.peel(f['body'])
                if b.get('k') == 'Lit' and 'str' in (b.get('v') or {}):
                    out[T.last_seg(f['path'])] = b['v']['str']
    return out


def declared_methods(fx, all_classes=False):
    """[(class, method python/erg name, return class, line)] for methods registered on the numeric class contexts in init_builtin_classes
    whose signature is built with fnN_met(Self, .., Ret)"""
    f = fx.fn(CLASSES, 'Context::init_builtin_classes')
    consts = const_strings(fx)
    cls_of = {}
    sig_of = {}
    rows = []
    for st in T.stmts_of(f['body']):
        st = T.unsemi(st)
        if st.get('k') == 'Let' and 'init' in st and st['pat'].get('k') == 'Bind':
            init = T.peel(st['init'])
            if init.get('k') == 'Call' and T.last_seg(init.get('fn') or '') in ('builtin_mono_class', 'builtin_poly_class') and init['a']:
                nm = T.show(T.peel(init['a'][0]))
                cls_of[st['pat']['n']] = consts.get(nm, nm)
            if init.get('k') == 'Call' and T.last_seg(init.get('fn') or '') in ('fn0_met', 'fn1_met', 'fn_met', 'fn1_kw_met'):
                sig_of[st['pat']['n']] = init
        elif st.get('k') == 'MCall' and st['n'] in ('register_py_builtin', 'register_builtin_erg_impl', 'register_builtin_py_impl', 'register_py_builtin_const') and len(st['a']) >= 2:
            recv = T.show(st['r'])
            cls = cls_of.get(recv)
            if cls not in NUMERIC and not (all_classes and cls):
                continue
            sig = T.peel(st['a'][2 if st['n'] == 'register_py_builtin_const' and len(st['a']) > 2 else 1])
            if sig.get('k') == 'Call' and (sig.get('fn') or '').endswith('::Some') and sig['a']:
                sig = T.peel(sig['a'][0])
            if sig.get('k') == 'MCall' and sig['n'] == 'clone':
                sig = T.peel(sig['r'])
            if sig.get('k') == 'Local' and sig['n'] in sig_of:
                sig = sig_of[sig['n']]
            if sig.get('k') == 'Call' and T.last_seg(sig.get('fn') or '') in ('fn0_met', 'fn1_met', 'fn_met', 'fn1_kw_met') and sig['a']:
                ret = tyname(sig['a'][-1])
                name_const = T.show(T.peel(st['a'][0]))
                name = consts.get(name_const, name_const)
                pyname = name
                for a in st['a'][2:]:
                    a2 = T.peel(a)
                    if a2.get('k') == 'Call' and (a2.get('fn') or '').endswith('::Some') and a2['a']:
                        pyname = consts.get(T.show(T.peel(a2['a'][0])), pyname)
                rows.append((cls, name, pyname, ret, st['l']))
    return rows


# sign intervals: (lo, hi) with None = unbounded; python ast expression evaluation for `self` in a class domain
def py_interval(e, self_dom):
    import ast
    if isinstance(e, ast.Name) and e.id == 'self':
        return self_dom
    if isinstance(e, ast.Constant) and isinstance(e.value, int) and not isinstance(e.value, bool):
        return (e.value, e.value)
    if isinstance(e, ast.Call) and isinstance(e.func, ast.Name) and len(e.args) >= 1:
        if e.func.id == 'then__':
            return py_interval(e.args[0], self_dom)
        if e.func.id in ('Int', 'Nat', 'int', 'IntMut', 'NatMut', 'Bool'):
            return py_interval(e.args[0], self_dom)
        if e.func.id == 'abs':
            return (0, None)
        if e.func.id == 'len':
            return (0, None)
    if isinstance(e, ast.Call) and isinstance(e.func, ast.Attribute) and isinstance(e.func.value, ast.Name) and e.func.value.id == 'int' and e.args:
        # int.__add__(self, other) etc.: not evaluated for unknown `other`
        return None
    if isinstance(e, ast.BinOp) and isinstance(e.op, (ast.Add, ast.Sub)):
        a, b = py_interval(e.left, self_dom), py_interval(e.right, self_dom)
        if a is None or b is None:
            return None
        if isinstance(e.op, ast.Add):
            lo = None if a[0] is None or b[0] is None else a[0] + b[0]
            hi = None if a[1] is None or b[1] is None else a[1] + b[1]
        else:
            lo = None if a[0] is None or b[1] is None else a[0] - b[1]
            hi = None if a[1] is None or b[0] is None else a[1] - b[0]
        return (lo, hi)
    if isinstance(e, ast.UnaryOp) and isinstance(e.op, ast.USub):
        a = py_interval(e.operand, self_dom)
        if a is None:
            return None
        return (None if a[1] is None else -a[1], None if a[0] is None else -a[0])
    return None
