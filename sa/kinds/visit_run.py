"""shared driver for K4 rules over a traversal function of hir::Expr"""
from sa import tree as T
from sa.kinds import visitor as V


def empty_block(b):
    b = T.peel(b)
    if b.get('k') == 'Block' and not b.get('s') and 'e' not in b and not b.get('m'):
        return True
    if b.get('k') == 'Tup' and not b['a']:
        return True
    return False


def lit_false(b):
    b = T.peel(b)
    if b.get('k') == 'Block':
        ss = T.stmts_of(b)
        if len(ss) == 1:
            return lit_false(ss[0])
    return b.get('k') == 'Lit' and isinstance(b.get('v'), dict) and b['v'].get('bool') is False


def run_traversal(fx, file, fn_name, param, neutral, root='hir::Expr', crate='erg_compiler', prefix='hir::', extra_files=()):
    fn = fx.fn(file, fn_name)
    tg = V.TypeGraph(fx.adts(crate)['adts'], crate, root, prefix)
    fns = list(fx.fns(file))
    for ef in extra_files:
        fns += fx.fns(ef)
    d = fx.file(file)
    for f in fns:
        f.setdefault('_types', d['types'])
    by_norm = {T.norm(f['path']): f for f in fns}
    tfns = V.traversal_closure(fx.fns(file), T.norm(fn['path']))
    tr = V.Traversal(tg, by_norm, tfns, d['types'])
    tr.check_enum(param, root, fn['body'], T.norm(fn['path']), fn['line'], neutral)
    return fn, tg, tr
