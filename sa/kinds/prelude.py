"""Order of the runtime modules in the prelude of a transpiled script.

`PyScriptGenerator::load_*_if_not` append the text of lib/core/_erg_*.py files (include_str!) with their `from _erg_x import y` lines deleted
(replace_import), so a name a module needs *while it is being defined* (a base class, a decorator, a default value, a module-level statement)
must have been defined by a module appended earlier — for every order in which a program can trigger the loaders."""
import ast, itertools, os
from sa import tree as T

CORE = 'crates/erg_compiler/lib/core'


def module_table(repo):
    """{module: (source text, defined top-level names, [(name, line)] used at definition time)}"""
    out = {}
    d = os.path.join(repo, CORE)
    for fn in sorted(os.listdir(d)):
        if not (fn.startswith('_erg_') and fn.endswith('.py')):
            continue
        src = open(os.path.join(d, fn), encoding='utf-8').read()
        tree = ast.parse(src)
        defs, uses, imported = set(), [], set()

        def deftime(node, local):
            """names evaluated when the statement `node` runs at module / class level"""
            if isinstance(node, (ast.FunctionDef, ast.AsyncFunctionDef)):
                for e in node.decorator_list + node.args.defaults + [x for x in node.args.kw_defaults if x is not None]:
                    expr_names(e, local)
                return
            if isinstance(node, ast.ClassDef):
                for e in node.bases + node.decorator_list + [k.value for k in node.keywords]:
                    expr_names(e, local)
                inner = set(local)
                for st in node.body:
                    deftime(st, inner)
                    inner |= bound(st)
                return
            if isinstance(node, (ast.Import, ast.ImportFrom)):
                return
            if isinstance(node, (ast.If, ast.Try, ast.With, ast.For, ast.While)):
                for ch in ast.iter_child_nodes(node):
                    if isinstance(ch, ast.stmt):
                        deftime(ch, local)
                    elif isinstance(ch, ast.expr):
                        expr_names(ch, local)
                    elif isinstance(ch, ast.ExceptHandler):
                        for st in ch.body:
                            deftime(st, local)
                return
            for ch in ast.walk(node):
                if isinstance(ch, ast.Lambda):
                    continue
            expr_names(node, local)

        def expr_names(e, local):
            skip = set()
            for ch in ast.walk(e):
                if isinstance(ch, ast.Lambda):
                    for x in ast.walk(ch.body):
                        skip.add(id(x))
            for ch in ast.walk(e):
                if isinstance(ch, ast.Name) and isinstance(ch.ctx, ast.Load) and id(ch) not in skip and ch.id not in local:
                    uses.append((ch.id, ch.lineno))

        def bound(st):
            b = set()
            if isinstance(st, (ast.FunctionDef, ast.AsyncFunctionDef, ast.ClassDef)):
                b.add(st.name)
            for ch in ast.walk(st) if not isinstance(st, (ast.FunctionDef, ast.AsyncFunctionDef, ast.ClassDef)) else []:
                if isinstance(ch, ast.Name) and isinstance(ch.ctx, ast.Store):
                    b.add(ch.id)
            if isinstance(st, (ast.Import, ast.ImportFrom)):
                for a in st.names:
                    b.add((a.asname or a.name).split('.')[0])
            return b
        local = set()
        for st in tree.body:
            if isinstance(st, ast.ImportFrom) and (st.module or '').startswith('_erg_'):
                for a in st.names:
                    imported.add(a.asname or a.name)
                continue
            deftime(st, local)
            nb = bound(st)
            local |= nb
            defs |= nb
        out[fn[:-3]] = (src, defs, [(n, l) for n, l in uses if n in imported])
    return out


def loaders(fx, TR, by_text):
    """{loader name: op list}; ops: ('append', module) | ('call', loader) | ('set', flag) | ('if', flag, negated, then_ops, else_ops)"""
    res = {}
    for f in fx.file(TR)['fns']:
        nm = T.norm(f['path'])
        if not (nm.startswith('PyScriptGenerator::load_') and nm.endswith('_if_not')):
            continue
        res[nm.split('::')[-1]] = ops_of(f['body'], by_text)
    return res


def ops_of(block, by_text):
    ops = []
    b = T.peel(block)
    sts = T.stmts_of(b) if b.get('k') == 'Block' else [b]
    for st in sts:
        st = T.unsemi(st)
        k = st.get('k')
        if k == 'If':
            c = T.peel(st['c'])
            neg = False
            if c.get('k') == 'Unary' and c.get('op') == '!':
                neg, c = True, T.peel(c['x'])
            flag = c.get('n') if c.get('k') == 'Field' else None
            if flag is None:
                ops.append(('unknown', T.show(st['c'])[:60]))
                continue
            ops.append(('if', flag, neg, ops_of(st['t'], by_text), ops_of(st['e'], by_text) if 'e' in st else []))
        elif k == 'AssignOp' and 'prelude' in T.show(st['x']):
            mods = []
            for n in T.walk(st['y']):
                if n.get('k') == 'Lit' and isinstance(n.get('v'), dict) and 'str' in n['v'] and 'include_str' in (n.get('m') or []):
                    mods.append(by_text.get(n['v']['str'], '?'))
            if mods:
                for m in mods:
                    ops.append(('append', m))
            else:
                ops.append(('text', T.show(st['y'])[:40]))
        elif k == 'Assign' and T.peel(st['x']).get('k') == 'Field' and T.peel(st['x'])['n'].endswith('_loaded'):
            ops.append(('set', T.peel(st['x'])['n']))
        elif k == 'MCall' and st['n'].startswith('load_') and st['n'].endswith('_if_not'):
            ops.append(('call', st['n']))
        elif k == 'Block':
            ops.extend(ops_of(st, by_text))
        else:
            ops.append(('unknown', T.show(st)[:60]))
    return ops


def simulate(order, lds, mods, stripped):
    """run the loaders in `order`; returns [(module, name, line, modules appended before)] of definition-time names not yet defined"""
    flags, seq, defined, bad = set(), [], set(), []

    def run(ops):
        for op in ops:
            if op[0] == 'append':
                m = op[1]
                if m in mods:
                    src, defs, uses = mods[m]
                    for name, line in uses:
                        if name not in defined and name in stripped:
                            bad.append((m, name, line, tuple(seq)))
                    defined.update(defs)
                seq.append(m)
            elif op[0] == 'call':
                run(lds.get(op[1], []))
            elif op[0] == 'set':
                flags.add(op[1])
            elif op[0] == 'if':
                cond = (op[1] in flags) != op[2]
                run(op[3] if cond else op[4])
    for l in order:
        run(lds[l])
    return bad, seq
