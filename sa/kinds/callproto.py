"""Load-form / call-form pairing of method calls in the code generator (C14-R5).
A tiny path enumerator over two functions (the one that loads the callable and the one that emits the call), with the branch conditions decided by
truth assignments to a handful of atoms."""
import itertools
from sa import tree as T

ATOMS = ('v11', 'is_method', 'kw_empty', 'var_args', 'kw_var', 'is_type')


class Unknown(Exception):
    pass


def atom_of(n, env):
    """(atom, polarity) for a recognised condition leaf, else None"""
    n = T.peel(n)
    k = n.get('k')
    s = T.show(n).replace(' ', '')
    if k == 'Binary' and n.get('op') == '>=' and 'py_version.minor' in s:
        v = None
        for x in T.walk(n['y']):
            iv = T.lit_int(x)
            if iv is not None:
                v = iv
        if v == 11:
            return ('v11', True)
        return None
    if k == 'Binary' and n.get('op') == '<' and 'py_version.minor' in s:
        for x in T.walk(n['y']):
            if T.lit_int(x) == 11:
                return ('v11', False)
        return None
    if k == 'MCall' and n['n'] == 'is_method':
        return ('is_method', True)
    if k == 'MCall' and n['n'] in ('is_empty', 'is_some', 'is_none'):
        r = T.show(T.peel(n['r'])).replace(' ', '')
        if n['n'] == 'is_empty' and (r.endswith('kw_args') or r in env.get('kw_lists', ())):
            return ('kw_empty', True)
        if r.endswith('var_args'):
            return ('var_args', n['n'] == 'is_some')
        if r.endswith('kw_var'):
            return ('kw_var', n['n'] == 'is_some')
        return None
    if k == 'Local' and n['n'] in env.get('bools', {}):
        return (env['bools'][n['n']], True)
    if k == 'LetCond':
        src = T.show(T.peel(n['init'])).replace(' ', '')
        some = any(v.endswith('::Some') for v in T.pat_variants(n['pat']))
        if some and src.endswith('var_args'):
            return ('var_args', True)
        if some and src.endswith('kw_var'):
            return ('kw_var', True)
    return None


def ev(n, asg, env):
    """three-valued: True / False / None"""
    n = T.peel(n)
    k = n.get('k')
    if k == 'Binary' and n.get('op') in ('&&', '||'):
        a, b = ev(n['x'], asg, env), ev(n['y'], asg, env)
        if n['op'] == '&&':
            if a is False or b is False:
                return False
            return True if (a is True and b is True) else None
        if a is True or b is True:
            return True
        return False if (a is False and b is False) else None
    if k == 'Unary' and n.get('op') == '!':
        a = ev(n['x'], asg, env)
        return None if a is None else (not a)
    at = atom_of(n, env)
    if at is None:
        return None
    return asg[at[0]] == at[1]


class Paths:
    """enumerates the event sequences of `entry` (inlining calls to the functions in `inline`) under one truth assignment"""

    def __init__(self, fns, inline, events):
        self.fns, self.inline, self.events = fns, inline, events
        self.unknown_kinds = []

    def run(self, fname, asg, params=None):
        f = self.fns[fname]
        env = {'vals': dict(params or {}), 'bools': {}, 'kw_lists': set()}
        # a Vec filled only by a loop over try_remove_kw is empty iff the call has no keyword arguments
        for n in T.walk(f['body']):
            if n.get('k') == 'MCall' and n['n'] == 'push' and T.peel(n['r']).get('k') == 'Local':
                pass
        kwpush = {}
        for n, ctx in T.walk_ctx(f['body']):
            if n.get('k') == 'MCall' and n['n'] == 'push' and T.peel(n['r']).get('k') == 'Local':
                nm = T.peel(n['r'])['n']
                inloop = any(c[0] == 'loop' and any(x.get('k') == 'MCall' and x['n'] == 'try_remove_kw' for x in T.walk(c[1])) for c in ctx)
                kwpush.setdefault(nm, []).append(inloop)
        env['kw_lists'] = {nm for nm, v in kwpush.items() if v and all(v)}
        out = []
        conts = self._block(f['body'], asg, env, [], out, fname)
        out.extend(t for t, _ in conts)
        return out

    def _value(self, e, asg, env):
        e = T.peel(e)
        if e.get('k') == 'Path':
            return T.last_seg(e['d'])
        if e.get('k') == 'Local':
            return env['vals'].get(e['n'])
        if e.get('k') == 'If' and e.get('e') is not None:
            c = ev(e['c'], asg, env)
            if c is None:
                return None
            br = e['t'] if c else e['e']
            br = T.peel(br)
            while br.get('k') == 'Block' and not br.get('s') and br.get('e') is not None:
                br = T.peel(br['e'])
            return self._value(br, asg, env)
        return None

    def _block(self, b, asg, env, trace, out, fname):
        """returns list of (trace, ended) continuations"""
        conts = [(list(trace), dict(env, vals=dict(env['vals']), bools=dict(env['bools'])))]
        stmts = T.stmts_of(b) if b.get('k') == 'Block' else [b]
        for st in stmts:
            st = T.unsemi(st)
            nxt = []
            for tr, e in conts:
                nxt.extend(self._stmt(st, asg, e, tr, out, fname))
            conts = nxt
            if not conts:
                break
        return conts

    def _call(self, n, asg, env, tr, out, fname):
        """events of one call expression; returns list of traces (inlined callees may fork)"""
        name = n.get('n') if n.get('k') == 'MCall' else T.last_seg(n.get('fn') or '')
        if name in self.inline and T.show(T.peel(n['r'])) == 'self' if n.get('k') == 'MCall' else False:
            callee = self.inline[name]
            cf = self.fns[callee]
            pnames = [p.get('n') for p in cf.get('params', [])] if cf.get('params') else None
            vals = {}
            # bind by position: parameter names come from the callee's signature when exported, else from the conventional `kind`
            for i, a in enumerate(n['a']):
                v = self._value(a, asg, env)
                if v is not None:
                    vals[pnames[i + 1] if pnames and len(pnames) > i + 1 else 'kind'] = v
            sub = Paths(self.fns, self.inline, self.events)
            res = sub.run(callee, asg, vals)
            self.unknown_kinds += sub.unknown_kinds
            return [tr + r for r in res] if res else [tr]
        if name in self.events:
            arg = None
            for a in n.get('a', []):
                v = self._value(a, asg, env)
                if v in ('BoundAttr', 'UnboundAttr'):
                    arg = v
                pa = T.peel(a)
                if pa.get('k') == 'Path' and T.last_seg(pa['d']).startswith('CALL_'):
                    arg = T.last_seg(pa['d'])
            if name in ('emit_load_method_instr', 'emit_call_instr') and arg is None:
                self.unknown_kinds.append((fname, n.get('l')))
            if name == 'write_instr' and not (arg or '').startswith('CALL_'):
                return [tr]
            return [tr + [(name, arg, n.get('l'))]]
        return [tr]

    def _expr_calls(self, e, asg, env, tr, out, fname):
        traces = [tr]
        for c in [x for x in T.walk(e) if x.get('k') in ('MCall', 'Call')][::-1]:
            pass
        # evaluation order: innermost first is irrelevant here: only self-calls at statement level matter
        for c in [x for x in T.walk(e) if x.get('k') == 'MCall' and T.show(T.peel(x['r'])) == 'self']:
            traces = [t2 for t in traces for t2 in self._call(c, asg, env, t, out, fname)]
        return traces

    def _stmt(self, st, asg, env, tr, out, fname):
        k = st.get('k')
        if k == 'Let':
            if st.get('init') is not None and st['pat'].get('k') == 'Bind':
                nm = st['pat']['n']
                v = self._value(st['init'], asg, env)
                if v is not None:
                    env['vals'][nm] = v
                init = T.peel(st['init'])
                if init.get('k') == 'MCall' and init['n'] == 'is_poly_meta_type':
                    env['bools'][nm] = 'is_type'
                if init.get('k') == 'If':
                    return self._stmt(init, asg, env, tr, out, fname)
                return [(t, env) for t in self._expr_calls(st['init'], asg, env, tr, out, fname)]
            return [(tr, env)]
        if k == 'Ret':
            traces = self._expr_calls(st['x'], asg, env, tr, out, fname) if st.get('x') else [tr]
            out.extend(traces)
            return []
        if k == 'If':
            c = ev(st['c'], asg, env)
            res = []
            if c is not False:
                res += self._block(st['t'], asg, env, tr, out, fname)
            if c is not True:
                if st.get('e') is not None:
                    res += self._block(st['e'], asg, env, tr, out, fname)
                else:
                    res.append((tr, env))
            return res
        if k == 'Match':
            res = []
            for arm in st['arms']:
                res += self._block(arm['b'], asg, env, tr, out, fname)
            return res
        if k == 'Loop':
            return [(tr, env)]           # argument evaluation: no load / call events of this protocol
        if k == 'Block':
            return self._block(st, asg, env, tr, out, fname)
        return [(t, env) for t in self._expr_calls(st, asg, env, tr, out, fname)]

    def finish(self, conts, out):
        out.extend(t for t, _ in conts)


def enumerate_paths(fns, entry, inline, events):
    """{assignment tuple: [event traces]}"""
    res = {}
    unknown = []
    for bits in itertools.product((False, True), repeat=len(ATOMS)):
        asg = dict(zip(ATOMS, bits))
        p = Paths(fns, inline, events)
        out = []
        f = fns[entry]
        env = {'vals': {}, 'bools': {}, 'kw_lists': set()}
        conts = p._block(f['body'], asg, env, [], out, entry)
        out.extend(t for t, _ in conts)
        res[bits] = out
        unknown += p.unknown_kinds
    return res, unknown
