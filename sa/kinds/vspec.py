"""Version-specialised abstract interpretation of the code generator (K3).

`PyCodeGenerator.py_version` is fixed after construction, so for each supported target minor v in 7..11 every version predicate of
codegen.rs is decidable.  `Spec(v)` evaluates those predicates (3-valued: other conjuncts stay unknown), `interp` threads an abstract
state through the structured HIR of a function taking only the branches feasible under v, and `reachable` computes which methods
can run at all under v (call sites in dead version branches do not count).
"""
from sa import tree as T

DIVERGING = {'crash', 'exit', 'abort'}
PANICS = {'todo', 'unimplemented', 'panic', 'unreachable'}


class Spec:
    def __init__(self, v):
        self.v = v
        self.unknown_forms = []

    # ---- version expressions
    def is_minor(self, e):
        e = T.peel(e)
        return e.get('k') == 'Field' and e['n'] == 'minor' and 'py_version' in T.show(e['x']) or \
            (e.get('k') == 'Field' and e['n'] == 'minor' and 'python_ver' in T.show(e['x']))

    def some_int(self, e):
        e = T.peel(e)
        if e.get('k') == 'Call' and (e.get('fn') or '').endswith('::Some') and e['a']:
            return T.lit_int(e['a'][0])
        return None

    def cond(self, e):
        """True / False / None (unknown)"""
        e = T.peel(e)
        k = e.get('k')
        if k == 'Binary':
            op = e['op']
            if op == '&&':
                a, b = self.cond(e['x']), self.cond(e['y'])
                if a is False or b is False:
                    return False
                if a is True and b is True:
                    return True
                return None
            if op == '||':
                a, b = self.cond(e['x']), self.cond(e['y'])
                if a is True or b is True:
                    return True
                if a is False and b is False:
                    return False
                return None
            if op in ('>=', '>', '<', '<=', '==', '!='):
                l, r = e['x'], e['y']
                flip = {'>=': '<=', '>': '<', '<': '>', '<=': '>=', '==': '==', '!=': '!='}
                if self.is_minor(r) and self.some_int(l) is not None:
                    l, r, op = r, l, flip[op]
                if self.is_minor(l):
                    kk = self.some_int(r)
                    if kk is None:
                        self.unknown_forms.append(T.show(e))
                        return None
                    v = self.v
                    return {'>=': v >= kk, '>': v > kk, '<': v < kk, '<=': v <= kk, '==': v == kk, '!=': v != kk}[op]
                return None
        if k == 'Unary' and e['op'] == '!':
            a = self.cond(e['x'])
            return None if a is None else (not a)
        if k == 'Lit' and isinstance(e.get('v'), dict) and 'bool' in e['v']:
            return e['v']['bool']
        if k == 'MCall' and 'py_version' in T.show(e):
            self.unknown_forms.append(T.show(e))
        return None

    def pat_matches_version(self, p):
        """does pattern p match Some(self.v)?  True/False/None"""
        k = p.get('k')
        if k == 'Wild' or (k == 'Bind' and 'sub' not in p):
            return True
        if k == 'POr':
            rs = [self.pat_matches_version(q) for q in p['p']]
            if any(r is True for r in rs):
                return True
            if all(r is False for r in rs):
                return False
            return None
        if k == 'PTupleStruct' and p['d'].endswith('::Some') and len(p['p']) == 1:
            return self.int_pat(p['p'][0])
        if k == 'PPath' and p['d'].endswith('::None'):
            return False
        return None

    def int_pat(self, q):
        k = q.get('k')
        if k == 'Wild' or (k == 'Bind' and 'sub' not in q):
            return True
        if k == 'PLit':
            return q['v'].get('int') == self.v
        if k == 'POr':
            rs = [self.int_pat(x) for x in q['p']]
            if any(r is True for r in rs):
                return True
            if all(r is False for r in rs):
                return False
            return None
        if k == 'PRange':
            lo = q.get('lo', {}).get('v', {}).get('int') if q.get('lo') else None
            hi = q.get('hi', {}).get('v', {}).get('int') if q.get('hi') else None
            if lo is not None and self.v < lo:
                return False
            if hi is not None:
                if q.get('end') == 'Included':
                    if self.v > hi:
                        return False
                elif self.v >= hi:
                    return False
            return True
        return None

    def feasible_arms(self, m):
        """arms of a Match that can be taken under v"""
        if self.is_minor(m['x']):
            out = []
            for arm in m['arms']:
                r = self.pat_matches_version(arm['pat'])
                if r is None:
                    self.unknown_forms.append('pattern ' + T.show(arm['pat']))
                    out.append(arm)
                    continue
                if r:
                    if 'g' in arm:
                        g = self.cond(arm['g'])
                        if g is False:
                            continue
                        out.append(arm)
                        if g is True:
                            return out
                        continue
                    out.append(arm)
                    return out
            return out
        return list(m['arms'])


class Interp:
    """structured abstract interpreter. Subclass and override call()/join()/diverges()."""

    def __init__(self, spec):
        self.spec = spec
        self.exits = []      # states at `return` / `?`-early-exit
        self.loops = []

    def join(self, a, b):
        if a is None:
            return b
        if b is None:
            return a
        return a if a == b else self.top(a, b)

    def top(self, a, b):
        raise NotImplementedError

    def call(self, n, st):
        """n: Call / MCall node whose receiver and arguments were already interpreted. returns new state (None = diverges)"""
        return st

    def other(self, n, st):
        return st

    def refine(self, cond, branch, st):
        """state on the `branch` (True/False) edge of condition `cond`"""
        return st

    def refine_arm(self, m, arm, st):
        return st

    def run_fn(self, fn, entry):
        self.exits = []
        out = self.ex(fn['body'], entry)
        res = out
        for e in self.exits:
            res = self.join(res, e)
        return res

    def ex_list(self, nodes, st):
        for x in nodes:
            if st is None:
                return None
            st = self.ex(x, st)
        return st

    def ex(self, n, st):
        if st is None or n is None:
            return st
        k = n.get('k')
        ms = n.get('m') or []
        if ms and ms[0] in PANICS and k in ('Block', 'Call', 'MCall', 'Match', 'If'):
            return None
        if k == 'Block':
            st = self.ex_list(n.get('s', []), st)
            if 'e' in n:
                st = self.ex(n['e'], st)
            return st
        if k == 'Semi':
            return self.ex(n['e'], st)
        if k == 'Let':
            if 'init' in n:
                st = self.ex(n['init'], st)
            if 'els' in n and st is not None:
                # let-else: the else block diverges (returns); interpret it for its exits
                self.ex(n['els'], st)
            return st
        if k == 'If':
            c = self.spec.cond(n['c'])
            st = self.ex(n['c'], st)
            if c is True:
                return self.ex(n['t'], self.refine(n['c'], True, st))
            if c is False:
                return self.ex(n['e'], self.refine(n['c'], False, st)) if 'e' in n else self.refine(n['c'], False, st)
            a = self.ex(n['t'], self.refine(n['c'], True, st))
            sf = self.refine(n['c'], False, st)
            b = self.ex(n['e'], sf) if 'e' in n else sf
            return self.join(a, b)
        if k == 'LetCond':
            return self.ex(n['init'], st)
        if k == 'Match':
            st = self.ex(n['x'], st)
            if st is None:
                return None
            src = n.get('src')
            if src == 'Try':
                # Continue(v) => v ; Break(r) => return
                self.exits.append(st)
                return self.other(n, st)
            if src == 'ForLoopDesugar' and len(n['arms']) == 1:
                # match into_iter(x) { mut iter => loop { match next(&mut iter) { None => break, Some(p) => body } } }
                return self.ex(n['arms'][0]['b'], st)
            res = None
            arms = self.spec.feasible_arms(n)
            for arm in arms:
                s2 = self.refine_arm(n, arm, st)
                if s2 is None:
                    continue
                if 'g' in arm:
                    s2 = self.ex(arm['g'], s2)
                res = self.join(res, self.ex(arm['b'], s2)) if res is not None or True else None
            if not arms:
                return st
            # join(None, x) == x: an arm that diverges does not contribute
            return res
        if k == 'Loop':
            # iterate to a fixpoint (finite domains); `break` states are collected
            self.loops.append([])
            cur = st
            for _ in range(6):
                body_out = self.ex(n['b'], cur)
                nxt = self.join(cur, body_out)
                if nxt == cur:
                    break
                cur = nxt
            brk = self.loops.pop()
            res = None
            for b in brk:
                res = self.join(res, b)
            if n.get('src') in ('While', 'ForLoop'):
                res = self.join(res, cur)
            return res
        if k == 'Break':
            if 'x' in n:
                st = self.ex(n['x'], st)
            if self.loops:
                self.loops[-1].append(st)
            return None
        if k == 'Continue':
            return None
        if k == 'Ret':
            if 'x' in n:
                st = self.ex(n['x'], st)
            if st is not None:
                self.exits.append(st)
            return None
        if k == 'Closure':
            # a closure value by itself executes nothing; its body is interpreted where it is passed to a call
            return st
        if k in ('Call', 'MCall'):
            if k == 'MCall':
                st = self.ex(n['r'], st)
            elif 'f' in n:
                st = self.ex(n['f'], st)
            closures = []
            for a in n['a']:
                a2 = T.peel(a)
                if a2.get('k') == 'Closure':
                    closures.append(a2)
                else:
                    st = self.ex(a, st)
            if st is None:
                return None
            name = n.get('n') or T.last_seg(n.get('fn') or '')
            for c in closures:
                # body runs 0..n times (iterator adaptors) or once (unwrap_or_else, map_err, ...)
                once = self.ex(c['b'], st)
                st = self.join(st, once)
                if st is not None and once is not None:
                    twice = self.ex(c['b'], once)
                    st = self.join(st, twice)
            if st is None:
                return None
            return self.call(n, st)
        if k == 'Struct':
            for f in n['f']:
                st = self.ex(f['x'], st)
            if 'base' in n:
                st = self.ex(n['base'], st)
            return st
        # generic: interpret children in order
        for c in T.children(n):
            if st is None:
                return None
            if 'k' in c:
                if c.get('k') in ('Bind', 'Wild', 'PTupleStruct', 'PStruct', 'PPath', 'POr', 'PTuple', 'PRef', 'PLit', 'PRange', 'PSlice', 'PGuard'):
                    continue
                st = self.ex(c, st)
        return self.other(n, st)


def walk_feasible(n, spec):
    """pre-order walk of the nodes reachable under spec.v (dead version branches pruned); yields nodes"""
    if n is None:
        return
    yield n
    k = n.get('k')
    if k == 'If':
        c = spec.cond(n['c'])
        yield from walk_feasible(n['c'], spec)
        if c is not False:
            yield from walk_feasible(n['t'], spec)
        if c is not True and 'e' in n:
            yield from walk_feasible(n['e'], spec)
        return
    if k == 'Match':
        yield from walk_feasible(n['x'], spec)
        for arm in spec.feasible_arms(n):
            if 'g' in arm:
                yield from walk_feasible(arm['g'], spec)
            yield from walk_feasible(arm['b'], spec)
        return
    for c in T.children(n):
        if 'k' in c:
            yield from walk_feasible(c, spec)
        else:
            for cc in T.children(c):
                yield from walk_feasible(cc, spec)


def reachable_methods(fns_by_norm, roots, spec):
    """normalised names of functions reachable from roots through calls in branches feasible under spec.v"""
    seen = set()
    work = [r for r in roots if r in fns_by_norm]
    while work:
        f = work.pop()
        if f in seen:
            continue
        seen.add(f)
        for n in walk_feasible(fns_by_norm[f]['body'], spec):
            if n.get('k') in ('Call', 'MCall'):
                q = T.cq(n)
                if q in fns_by_norm and q not in seen:
                    work.append(q)
            elif n.get('k') == 'Path' and n.get('dk') in ('AssocFn', 'Fn'):
                q = T.norm(n['d'])
                if q in fns_by_norm and q not in seen:
                    work.append(q)
    return seen


def const_values(e, spec, env, depth=0):
    """possible constant leaves (Path to enum variants / int literals) of expression e under spec.v.
    env: {local name: init expr}.  Returns (set of ('variant', def-path) | ('int', n), complete?)"""
    if depth > 8:
        return set(), False
    e = T.peel(e)
    k = e.get('k')
    if k == 'Cast':
        return const_values(e['x'], spec, env, depth + 1)
    if k == 'Path' and e.get('dk', '').startswith('CtorVariant'):
        return {('variant', e['d'])}, True
    if k == 'Lit' and isinstance(e.get('v'), dict) and 'int' in e['v']:
        return {('int', e['v']['int'])}, True
    if k == 'Local':
        if e['n'] in env:
            return const_values(env[e['n']], spec, env, depth + 1)
        return set(), False
    if k == 'Block':
        if 'e' in e:
            return const_values(e['e'], spec, env, depth + 1)
        return set(), False
    if k == 'If':
        c = spec.cond(e['c'])
        out, comp = set(), True
        if c is not False:
            s, cc = const_values(e['t'], spec, env, depth + 1)
            out |= s
            comp &= cc
        if c is not True:
            if 'e' in e:
                s, cc = const_values(e['e'], spec, env, depth + 1)
                out |= s
                comp &= cc
            else:
                comp = False
        return out, comp
    if k == 'Match':
        out, comp = set(), True
        for arm in spec.feasible_arms(e):
            if T.peel(arm['b']).get('k') in ('Ret', 'Break', 'Continue') or (T.peel(arm['b']).get('m') or [''])[0] in PANICS:
                continue
            if is_diverging_block(arm['b']):
                continue
            s, cc = const_values(arm['b'], spec, env, depth + 1)
            out |= s
            comp &= cc
        return out, comp
    if k in ('Call', 'MCall') and (T.callee(e) or '').endswith('::from') or (k == 'MCall' and e.get('n') == 'into'):
        inner = e['a'][0] if k == 'Call' else e['r']
        return const_values(inner, spec, env, depth + 1)
    return set(), False


def is_diverging_block(b):
    b = T.peel(b)
    if b.get('k') != 'Block':
        return False
    ss = T.stmts_of(b)
    if not ss:
        return False
    last = T.unsemi(ss[-1])
    if last.get('k') in ('Ret', 'Break', 'Continue'):
        return True
    if (last.get('m') or [''])[0] in PANICS:
        return True
    if last.get('k') == 'MCall' and last['n'] in DIVERGING:
        return True
    return False


def let_env(fn):
    """{local name: init expr} for simple `let x = init;` bindings of a function (last binding wins is avoided: first kept)"""
    env = {}
    for n in T.walk(fn['body']):
        if n.get('k') == 'Let' and 'init' in n and n['pat'].get('k') == 'Bind':
            env.setdefault(n['pat']['n'], n['init'])
    return env


class NoSpec(Spec):
    def __init__(self):
        super().__init__(-1)

    def cond(self, e):
        return None

    def feasible_arms(self, m):
        return list(m['arms'])


class MustPass(Interp):
    """state = True once a node satisfying `pred` has been executed on the path"""

    def __init__(self, pred):
        super().__init__(NoSpec())
        self.pred = pred

    def top(self, a, b):
        return a and b

    def join(self, a, b):
        if a is None:
            return b
        if b is None:
            return a
        return a and b

    def call(self, n, st):
        return True if self.pred(n) else st

    def other(self, n, st):
        return True if self.pred(n) else st

    def ex(self, n, st):
        # a loop whose body performs the action counts as performing it (zero iterations = nothing to do)
        if st is not None and n is not None and n.get('k') == 'Loop' and any(self.pred(x) for x in T.walk(n['b'])):
            super().ex(n, st)
            return True
        return super().ex(n, st)


def must_pass(fn, pred):
    """True iff every terminating path through fn executes a node for which pred holds"""
    ip = MustPass(pred)
    out = ip.run_fn(fn, False)
    return out is None or out is True


class Dominates(Interp):
    """collects, for every exit (return / tail) whose value satisfies `exit_pred`, whether a node satisfying `pred` was executed before it
    on every path. state: True (passed) / False."""

    def __init__(self, pred, exit_pred, refine_fn=None):
        super().__init__(NoSpec())
        self.pred, self.exit_pred, self.refine_fn = pred, exit_pred, refine_fn
        self.bad_exits = []
        self.good_exits = 0

    def top(self, a, b):
        return a and b

    def join(self, a, b):
        if a is None:
            return b
        if b is None:
            return a
        return a and b

    def call(self, n, st):
        if self.exit_pred(n):
            # a value of the guarded kind (e.g. `Ok(..)`) is constructed here
            if st is True:
                self.good_exits += 1
            else:
                self.bad_exits.append(n)
        return True if self.pred(n) else st

    def other(self, n, st):
        return True if self.pred(n) else st

    def refine(self, cond, branch, st):
        if self.refine_fn is not None:
            r = self.refine_fn(cond, branch, st)
            if r is not None:
                return r
        return st

    def run(self, fn):
        self.ex(fn['body'], False)
        return self.bad_exits
