"""Reasoned exceptions for K4 findings, with guards that keep the reason honest: when a guard stops holding the exception lapses
and the finding is reported."""
from sa import facts as F, tree as T

POST_CHECK_FILES = {'crates/erg_compiler/link_hir.rs', 'crates/erg_compiler/desugar_hir.rs', 'crates/erg_compiler/optimize.rs',
                    'crates/erg_compiler/codegen.rs', 'crates/erg_compiler/transpile.rs', 'crates/erg_compiler/hir.rs'}
_cache = {}


def sites(fx, crate, suffix):
    key = (id(fx), crate, suffix)
    if key not in _cache:
        out = []
        for (file, fn, line) in F.ctor_sites(fx, crate, suffix):
            last = fn.rsplit('::', 1)[-1]
            if last in ('clone', 'default') or (last == 'from' and file.endswith(('hir.rs', 'ast.rs'))):
                continue
            out.append((file, fn, line))
        _cache[key] = out
    return _cache[key]


def only_built_after_checks(variant):
    """hir variant is constructed only by passes that run after the effect / ownership checks"""
    def g(fx):
        s = sites(fx, 'erg_compiler', variant)
        bad = [x for x in s if x[0] not in POST_CHECK_FILES]
        return (not bad), 'constructed in %s' % sorted({(x[0].split('/')[-1], T.norm(x[1])) for x in bad})
    return g


def never_constructed(crate, variant):
    def g(fx):
        s = sites(fx, crate, variant)
        return (not s), 'constructed in %s' % sorted({(x[0].split('/')[-1], T.norm(x[1])) for x in s})
    return g


def rebuilt_only(crate, variant, also_front=None):
    """every construction of `variant` sits inside a match arm that matched the same variant (it is only ever re-built, never
    produced from other syntax) -> the front end cannot create it"""
    def g(fx):
        import json, os
        idx = json.load(open(os.path.join(fx.dir, crate, 'index.json')))
        bad = []
        for relfile in idx['files']:
            d = fx.file(relfile, crate)
            for f in d['fns']:
                last = f['path'].rsplit('::', 1)[-1]
                if last in ('clone', 'default') or (last == 'from' and relfile.endswith(('hir.rs', 'ast.rs'))):
                    continue
                for n, ctx in T.walk_ctx(f['body']):
                    k = n.get('k')
                    is_ctor = (k == 'Call' and (n.get('fn') or '').endswith(variant) and n.get('dk', '').startswith('Ctor')) or \
                              (k == 'Struct' and (n.get('d') or '').endswith(variant)) or \
                              (k == 'Path' and (n.get('d') or '').endswith(variant) and n.get('dk', '').startswith('Ctor'))
                    if not is_ctor:
                        continue
                    inside = any(c[0] == 'arm' and any(v.endswith(variant) for v in T.pat_variants(c[2]['pat'])) for c in ctx)
                    if not inside:
                        bad.append((relfile.split('/')[-1], T.norm(f['path'])))
        return (not bad), 'produced outside a re-building arm in %s' % sorted(set(bad))
    return g


def all_of(*gs):
    def g(fx):
        for x in gs:
            ok, why = x(fx)
            if not ok:
                return False, why
        return True, ''
    return g


def apply(chk, fx, tr, file, rule, exceptions, judged_kinds=None):
    """exceptions: {(kind, where-suffix or None, detail): (reason, guard or None)}"""
    chk.notes.append({'delegated (value handed to another traversal function, analysed there)': sorted(set(tr.delegated))[:40]})
    for s in tr.covered:
        chk.ok(rule, s, sample=s)
    for (kind, w, detail, line) in tr.problems:
        if judged_kinds is not None and kind not in judged_kinds:
            chk.notes.append({'seen, judged by another property': '%s %s %s' % (kind, w, detail)})
            continue
        exc = exceptions.get((kind, detail))
        if exc is not None:
            reason, guard = exc
            if guard is None:
                chk.ok(rule, ('exception', kind, detail))
                chk.notes.append({'exception': '%s %s — %s' % (kind, detail, reason)})
                continue
            ok, why = guard(fx)
            if ok:
                chk.ok(rule, ('exception', kind, detail))
                chk.notes.append({'exception (guard holds)': '%s %s — %s' % (kind, detail, reason)})
                continue
            detail_msg = ' (the exception "%s" no longer applies: %s)' % (reason, why)
        else:
            detail_msg = ''
        msg = {
            'unvisited-field': 'child expressions in %s are never visited' % detail,
            'neutral-arm': '%s has child expressions but its arm does nothing with them' % detail,
            'neutral-default': '%s has child expressions but falls into the neutral catch-all arm' % detail,
            'payload-ignored': 'the payload of %s is not bound, its children are never visited' % detail,
            'panicking-arm': 'arm %s panics' % detail,
            'unvisited-value': detail,
            'unknown-arm': 'no arm found for %s' % detail,
        }[kind]
        chk.bad(rule, w, '%s:%s' % (kind, detail), '%s: %s%s' % (w, msg, detail_msg), file, line)
