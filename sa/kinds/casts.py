"""K5: narrowing / sign-changing integer casts must be dominated by a range test on the same value."""
from sa import tree as T

INTS = {'i8', 'i16', 'i32', 'i64', 'i128', 'isize', 'u8', 'u16', 'u32', 'u64', 'u128', 'usize'}
WIDTH = {'i8': 8, 'i16': 16, 'i32': 32, 'i64': 64, 'i128': 128, 'isize': 64, 'u8': 8, 'u16': 16, 'u32': 32, 'u64': 64, 'u128': 128, 'usize': 64}


def lossy(frm, to):
    if frm not in INTS or to not in INTS:
        return False
    fs, ts = frm[0] == 'i', to[0] == 'i'
    fw, tw = WIDTH[frm], WIDTH[to]
    if fs == ts:
        return tw < fw
    if not fs and ts:
        return tw <= fw
    return True


CONSTS = {}     # def-path -> body expr of local consts (filled by audit callers through register_consts)


def register_consts(fx, files):
    for file in files:
        for f in fx.fns(file):
            if f.get('dk') in ('Const', 'AssocConst', 'Static'):
                CONSTS[f['path']] = f['body']


def const_eval(e, depth=0):
    """integer value of a constant expression (literals, T::MAX, T::BITS, + - * << >>, casts, named consts); None if unknown"""
    if depth > 6:
        return None
    e = T.peel(e)
    k = e.get('k')
    if k == 'Cast':
        return const_eval(e['x'], depth + 1)
    v = T.lit_int(e)
    if v is not None:
        return v
    if k == 'Path':
        d = e.get('d', '')
        for t in INTS:
            if ('<impl %s>' % t) in d or d.endswith('%s::MAX' % t) or d.endswith('%s::BITS' % t) or d.endswith('%s::MIN' % t):
                if d.endswith('::MAX'):
                    return limit_value(t)
                if d.endswith('::BITS'):
                    return WIDTH[t]
                if d.endswith('::MIN'):
                    return -(1 << (WIDTH[t] - 1)) if t[0] == 'i' else 0
        if d in CONSTS:
            return const_eval(CONSTS[d], depth + 1)
        return None
    if k == 'Binary':
        a, b = const_eval(e['x'], depth + 1), const_eval(e['y'], depth + 1)
        if a is None or b is None:
            return None
        try:
            return {'+': a + b, '-': a - b, '*': a * b, '<<': a << b, '>>': a >> b, '/': a // b if b else None, '|': a | b, '&': a & b}.get(e['op'])
        except Exception:
            return None
    if k == 'Block' and 'e' in e and not e.get('s'):
        return const_eval(e['e'], depth + 1)
    return None


def max_of(e):
    """'u8' for the expression u8::MAX (possibly `as usize`), or an int literal / constant value"""
    e = T.peel(e)
    if e.get('k') == 'Cast':
        return max_of(e['x'])
    cv = const_eval(e)
    if cv is not None and not (e.get('k') == 'Path' and e.get('d', '').endswith('::MAX')):
        return cv
    if e.get('k') == 'Path' and e.get('d', '').endswith('::MAX'):
        for t in INTS:
            if ('<impl %s>' % t) in e['d'] or ('::%s::MAX' % t) in e['d'] or e['d'].endswith(t + '::MAX'):
                return t
    v = T.lit_int(e)
    if v is not None:
        return v
    return None


def limit_value(m):
    if isinstance(m, int):
        return m
    w = WIDTH[m]
    return (1 << (w - 1)) - 1 if m[0] == 'i' else (1 << w) - 1


def cond_bounds(c, positive, want):
    """does condition c (taken as true if positive else false) imply show(x) == want  is <= some limit?  returns limit or None"""
    c = T.peel(c)
    if c.get('k') == 'Binary' and c['op'] == '&&' and positive:
        for side in (c['x'], c['y']):
            r = cond_bounds(side, True, want)
            if r is not None:
                return r
        return None
    if c.get('k') == 'Binary' and c['op'] == '||' and not positive:
        for side in (c['x'], c['y']):
            r = cond_bounds(side, False, want)
            if r is not None:
                return r
        return None
    if c.get('k') == 'Unary' and c['op'] == '!':
        return cond_bounds(c['x'], not positive, want)
    if c.get('k') == 'Binary' and c['op'] in ('<', '<=', '>', '>='):
        l, r, op = c['x'], c['y'], c['op']
        if T.show(T.peel(r)) == want and max_of(l) is not None:     # MAX op x  ->  x op' MAX
            l, r = r, l
            op = {'<': '>', '<=': '>=', '>': '<', '>=': '<='}[op]
        if T.show(T.peel(l)) != want:
            return None
        m = max_of(r)
        if m is None:
            return None
        lim = limit_value(m)
        if positive:
            if op == '<=':
                return lim
            if op == '<':
                return lim - 1
        else:
            if op == '>':
                return lim
            if op == '>=':
                return lim - 1
    return None


def audit(fn, types, len_exception=True):
    """yield (node, from, to, status, why) for every int->int cast in fn; status in ok/guarded/len32/masked/lossy"""
    for n, ctx in T.walk_ctx(fn['body']):
        if n.get('k') != 'Cast':
            continue
        frm, to = types[n['from']], types[n['ty']]
        if frm not in INTS or to not in INTS:
            continue
        if not lossy(frm, to):
            yield n, frm, to, 'ok', 'widening'
            continue
        x = T.peel(n['x'])
        want = T.show(x)
        tmax = limit_value(to)
        guarded = False
        for c in ctx:
            if c[0] == 'if':
                lim = cond_bounds(c[1], c[2], want)
                if lim is not None and lim <= tmax:
                    guarded = True
        if guarded:
            yield n, frm, to, 'guarded', 'range test on %s' % want
            continue
        if x.get('k') == 'Binary' and x['op'] == '&':
            m = T.lit_int(x['y']) if T.lit_int(x['y']) is not None else T.lit_int(x['x'])
            if m is not None and m <= tmax:
                yield n, frm, to, 'masked', 'masked with %#x' % m
                continue
        if len_exception and frm == 'usize' and to in ('u32', 'i32') and x.get('k') == 'MCall' and x['n'] == 'len':
            yield n, frm, to, 'len32', 'a length written to a 32-bit marshal length field (marshal itself cannot represent more)'
            continue
        yield n, frm, to, 'lossy', 'no range test on `%s` dominates the cast' % want
