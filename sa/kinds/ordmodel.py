"""Three-orderings model for integer comparison atoms: values are touched only through comparisons with a constant, so the set denoted by
an atom is a subset of {'<', '=', '>'} (position relative to its constant) and relations between two atoms depend only on the ordering of
their constants (decided by brute force over a window of integers)."""
from sa import tree as T

ATOMS = {'Equal': lambda x, c: x == c, 'NotEqual': lambda x, c: x != c, 'GreaterEqual': lambda x, c: x >= c, 'LessEqual': lambda x, c: x <= c}
WINDOW = range(-12, 13)
REP = {'<': [(0, 1), (0, 3)], '=': [(0, 0), (2, 2)], '>': [(1, 0), (3, 0)]}   # (c1, c2) with c1 o c2; two gaps each


def superset(a1, a2, o):
    """{x | a1(x, c1)} >= {x | a2(x, c2)} for every (c1, c2) with c1 o c2 — exact on the window because constants sit well inside it"""
    res = []
    for (c1, c2) in REP[o]:
        res.append(all(ATOMS[a1](x, c1) for x in WINDOW if ATOMS[a2](x, c2)) and
                   # unbounded sets: a bounded super set can never contain an unbounded one
                   not (a2 in ('GreaterEqual', 'LessEqual', 'NotEqual') and a1 == 'Equal'))
    return all(res), any(res)


def ordering_predicates(fx):
    """{method name: set of exact orderings ('<','=','>') for which TyParamOrdering::method is true}  (read from the source)"""
    out = {}
    name_of = {'Less': '<', 'Equal': '=', 'Greater': '>'}
    for f in fx.fns('crates/erg_compiler/ty/typaram.rs'):
        if (f.get('self_ty') or '').split('::')[-1] != 'TyParamOrdering':
            continue
        nm = f['path'].rsplit('::', 1)[-1]
        ms = [n for n in T.walk(f['body']) if n.get('k') == 'Match']
        if len(ms) != 1:
            continue
        s = set()
        ok = True
        for arm in ms[0]['arms']:
            b = T.peel(arm['b'])
            if b.get('k') == 'Lit' and b['v'].get('bool') is True:
                for v in T.pat_variants(arm['pat']):
                    k = T.last_seg(v)
                    if k in name_of:
                        s.add(name_of[k])
            elif not (b.get('k') == 'Lit' and b['v'].get('bool') is False):
                ok = False
        if ok:
            out[nm] = s
    return out
