"""Arithmetic discipline of a byte table whose entries are bounded deltas (the line table of a code object): every byte pushed is provably within
its bound, no trapping conversion, chunking loops subtract what they push, and the running total is advanced by the whole delta (C14-R6)."""
from sa import tree as T

INF = float('inf')


class Bounds:
    """upper bounds of unsigned locals along the statement order of one function (loops: `while v > K { .. v -= C }` leaves v <= K)"""

    def __init__(self, fn, table_field, limits):
        self.fn, self.table, self.limits = fn, table_field, limits
        self.findings = []      # (kind, instance, message, line)
        self.ok = []
        self.aliases = set()
        self.mutated = set()
        for n in T.walk(fn['body']):
            if n.get('k') == 'AssignOp' or n.get('k') == 'Assign':
                x = T.peel(n['x'])
                if x.get('k') == 'Local':
                    self.mutated.add(x['n'])

    # ---- expressions
    def is_table(self, e):
        e = T.peel(e)
        while e.get('k') in ('Ref', 'Deref', 'Unary') and 'x' in e:
            e = T.peel(e['x'])
        if e.get('k') == 'Field' and e.get('n') == self.table:
            return True
        if e.get('k') == 'Local' and e['n'] in self.aliases:
            return True
        return False

    def ub(self, e, env):
        e = T.peel(e)
        k = e.get('k')
        v = T.lit_int(e)
        if v is not None:
            return v
        if k == 'Cast':
            return self.ub(e['x'], env)
        if k == 'Local':
            b = env.get(e['n'], INF)
            return b[1] if isinstance(b, tuple) else b
        if k in ('Deref',) or (k == 'Unary' and e.get('op') == '*'):
            return 255
        if k == 'MCall' and e['n'] == 'min' and e['a']:
            return min(self.ub(e['r'], env), self.ub(e['a'][0], env))
        if k == 'MCall' and e['n'] in ('saturating_sub', 'wrapping_sub', 'checked_sub'):
            return self.ub(e['r'], env)
        if k == 'Binary' and e.get('op') == '-':
            return self.ub(e['x'], env)
        if k == 'Binary' and e.get('op') == '+':
            return self.ub(e['x'], env) + self.ub(e['y'], env)
        if k == 'Block' and 'e' in e and not e.get('s'):
            return self.ub(e['e'], env)
        return INF

    def room_of(self, e, env):
        """K if e is `K.saturating_sub(<table byte>)` possibly followed by .min(..) / casts: the head-room left under K in that byte"""
        e = T.peel(e)
        if e.get('k') == 'Cast':
            return self.room_of(e['x'], env)
        if e.get('k') == 'Local':
            b = env.get(e['n'])
            return b[1] if isinstance(b, tuple) and b[0] == 'room' else None
        if e.get('k') == 'MCall' and e['n'] == 'min':
            return self.room_of(e['r'], env)
        if e.get('k') == 'MCall' and e['n'] == 'saturating_sub' and e['a']:
            k = T.lit_int(T.peel(e['r']))
            a = T.peel(e['a'][0])
            while a.get('k') == 'Cast':
                a = T.peel(a['x'])
            if k is not None and (a.get('k') in ('Deref',) or (a.get('k') == 'Unary' and a.get('op') == '*') or a.get('k') == 'Local'):
                return k
        return None

    # ---- statements
    def block(self, b, env, pos):
        """pos: parity counter of pushes in this straight-line block"""
        stmts = T.stmts_of(b) if b.get('k') == 'Block' else [b]
        for st in stmts:
            pos = self.stmt(T.unsemi(st), env, pos)
        return pos

    def refine(self, cond, positive, env):
        c = T.peel(cond)
        if c.get('k') == 'Binary' and c['op'] in ('>', '>=', '<', '<='):
            x, y = T.peel(c['x']), T.peel(c['y'])
            if x.get('k') == 'Local' and T.lit_int(y) is not None:
                kk = T.lit_int(y)
                op = c['op']
                if not positive:
                    op = {'>': '<=', '>=': '<', '<': '>=', '<=': '>'}[op]
                if op == '<=':
                    env[x['n']] = min(self.ub(x, env), kk)
                elif op == '<':
                    env[x['n']] = min(self.ub(x, env), kk - 1)

    def stmt(self, st, env, pos):
        k = st.get('k')
        if k == 'Let' and st.get('init') is not None and st['pat'].get('k') == 'Bind':
            init = T.peel(st['init'])
            name = st['pat']['n']
            if self.is_table(init) or (init.get('k') == 'Ref' and self.is_table(init)):
                self.aliases.add(name)
                return pos
            room = self.room_of(init, env)
            if room is not None:
                env[name] = ('room', min(room, self.ub(init, env)))
            else:
                env[name] = self.ub(init, env)
            self.scan_traps(st['init'], env)
            return pos
        if k == 'If':
            lc = [x for x in T.walk(st['c']) if x.get('k') == 'LetCond']
            e1 = dict(env)
            self.refine(st['c'], True, e1)
            for l in lc:
                # `if let Some(last) = table.last_mut()`: last is a byte of the table
                if self.is_table(T.peel(l['init']).get('r', {})) if T.peel(l['init']).get('k') == 'MCall' else False:
                    for bnd in T.pat_bindings(l['pat']):
                        nm = bnd if isinstance(bnd, str) else bnd.get('n')
                        e1[nm] = 255
            self.block(st['t'], e1, 0)
            e2 = dict(env)
            self.refine(st['c'], False, e2)
            if st.get('e') is not None:
                self.block(st['e'], e2, 0)
            for v in set(e1) | set(e2):
                a, b = e1.get(v, INF), e2.get(v, INF)
                a = a[1] if isinstance(a, tuple) else a
                b = b[1] if isinstance(b, tuple) else b
                env[v] = max(a, b)
            return pos
        if k == 'Loop':
            # while v > K { body }
            body = st['b']
            cond = None
            inner = T.stmts_of(body)
            if inner and T.unsemi(inner[0]).get('k') == 'If':
                cond = T.unsemi(inner[0])
            if st.get('src') == 'While' and cond is not None:
                c = T.peel(cond['c'])
                e1 = dict(env)
                for v in self.mutated:
                    if v in e1:
                        e1[v] = INF if not isinstance(e1[v], tuple) else e1[v]
                self.refine(c, True, e1)
                self.chunk_loop(c, cond['t'], e1)
                self.block(cond['t'], e1, 0)
                for v in self.mutated:
                    env[v] = env.get(v, INF)
                self.refine(c, False, env)
                return pos
            e1 = {v: (INF if v in self.mutated else b) for v, b in env.items()}
            self.block(body, e1, 0)
            for v in self.mutated:
                env[v] = INF
            return pos
        if k == 'Match':
            for arm in st['arms']:
                self.block(arm['b'], dict(env), 0)
            return pos
        if k == 'Block':
            return self.block(st, env, pos)
        if k == 'AssignOp':
            raw = st['x']
            x = T.peel(raw)
            # (T.peel strips the dereference: look at the unpeeled target)
            is_byte = raw.get('k') == 'Deref' or (raw.get('k') == 'Unary' and raw.get('op') == '*')
            if is_byte and st.get('op') == '+=':
                room = self.room_of(st['y'], env)
                lim = self.limits[1]
                if room is not None and room <= lim:
                    self.ok.append(('byte+=', st.get('l')))
                else:
                    self.findings.append(('unchecked-add', 'byte+=', 'a byte of the table is increased by `%s` without proof that the sum stays <= %d (no `K.saturating_sub(byte)` head-room): '
                                          'a line increment above 127 reads as negative, above 255 the addition traps' % (T.show(st['y'])[:40], lim), st.get('l')))
            elif x.get('k') == 'Local' and st.get('op') == '-=':
                pass
            self.scan_traps(st['y'], env)
            return pos
        if k == 'MCall' and st['n'] == 'push' and self.is_table(st['r']):
            lim = self.limits[pos % 2]
            b = self.ub(st['a'][0], env)
            what = 'address' if pos % 2 == 0 else 'line'
            if b <= lim:
                self.ok.append(('push', st.get('l')))
            else:
                self.findings.append(('unbounded-push', 'push:%s:%s' % (what, T.show(st['a'][0])[:30]), 'the %s increment `%s` pushed into the table is not provably <= %d'
                                      % (what, T.show(st['a'][0])[:40], lim), st.get('l')))
            self.scan_traps(st['a'][0], env)
            return pos + 1
        self.scan_traps(st, env)
        return pos

    def scan_traps(self, e, env):
        for n in T.walk(e):
            if n.get('k') == 'MCall' and n['n'] in ('unwrap', 'expect'):
                r = T.peel(n['r'])
                if r.get('k') == 'Call' and (r.get('fn') or '').endswith('try_from') and r['a']:
                    b = self.ub(r['a'][0], env)
                    if b > 255:
                        self.findings.append(('trapping-conversion', 'try_from:%s' % T.show(r['a'][0])[:30], '`%s` panics when the delta does not fit a byte and nothing bounds it'
                                              % T.show(n)[:60], n.get('l')))
                    else:
                        self.ok.append(('try_from', n.get('l')))

    def chunk_loop(self, cond, body, env):
        c = T.peel(cond)
        if not (c.get('k') == 'Binary' and c['op'] in ('>', '>=')):
            return
        v = T.peel(c['x'])
        a = T.lit_int(T.peel(c['y']))
        if v.get('k') != 'Local' or a is None:
            return
        pushed = [T.lit_int(T.peel(n['a'][0])) for n in T.walk(body) if n.get('k') == 'MCall' and n['n'] == 'push' and self.is_table(n['r'])]
        subs = [T.lit_int(T.peel(n['y'])) for n in T.walk(body) if n.get('k') == 'AssignOp' and n.get('op') == '-=' and T.peel(n['x']).get('n') == v['n']]
        nz = [p for p in pushed if p]
        if len(nz) == 1 and len(subs) == 1 and subs[0] is not None:
            if nz[0] == subs[0] and subs[0] <= (a if c['op'] == '>' else a - 1) + 0:
                self.ok.append(('chunk', c.get('l')))
            else:
                self.findings.append(('chunk-mismatch', 'chunk:%s' % v['n'], 'the loop `while %s` pushes an increment of %d but subtracts %d from the remaining delta: the table and the '
                                      'running total drift apart' % (T.show(c), nz[0], subs[0]), c.get('l')))

    def run(self):
        env = {}
        for p in self.fn.get('params') or []:
            if p.get('k') == 'Bind':
                env[p['n']] = INF
        self.block(self.fn['body'], env, 0)
        return self
