"""A tiny interpreter for straight-line Rust helper functions over integers / floats (typed-HIR trees):
let bindings, if / else, early `return`, arithmetic and comparison operators with Rust's semantics (`/` truncates, `%` takes the sign of the dividend),
`Some(x)` / `None`.  Used to compare a helper with the Python operator it stands for on a grid of operands."""
import math
from sa import tree as T


class Unknown(Exception):
    pass


class _Return(Exception):
    def __init__(self, v):
        self.v = v


NONE = ('None',)


def _div(a, b, isf):
    if isf:
        return a / b if b != 0 else (math.copysign(math.inf, a) if a != 0 else math.nan)
    if b == 0:
        raise Unknown('division by zero reached')
    q = abs(a) // abs(b)
    return q if (a < 0) == (b < 0) else -q


def _rem(a, b, isf):
    if isf:
        return math.fmod(a, b) if b != 0 else math.nan
    if b == 0:
        raise Unknown('remainder by zero reached')
    return a - b * _div(a, b, False)


def ev(e, env):
    e = T.peel(e)
    k = e.get('k')
    if k == 'Block':
        env = dict(env)
        for st in e.get('s', []):
            st = T.unsemi(st)
            if st.get('k') == 'Let':
                bs = [b for b in T.walk(st['pat']) if b.get('k') == 'Bind']
                if len(bs) != 1 or st.get('init') is None:
                    raise Unknown('let pattern')
                env[bs[0]['n']] = ev(st['init'], env)
            else:
                ev(st, env)
        return ev(e['e'], env) if 'e' in e else None
    if k == 'If':
        if ev(e['c'], env):
            return ev(e['t'], env)
        return ev(e['e'], env) if 'e' in e else None
    if k == 'Ret':
        raise _Return(ev(e['x'], env) if e.get('x') is not None else None)
    if k == 'Lit':
        v = e.get('v') or {}
        for key in ('int', 'float', 'bool'):
            if key in v:
                if key == 'float' and isinstance(v[key], str):
                    return float(v[key].replace('_', '').rstrip('f3264'))
                return v[key]
        raise Unknown('literal %r' % (v,))
    if k == 'Local':
        if e['n'] in env:
            return env[e['n']]
        raise Unknown('local ' + e['n'])
    if k in ('Paren', 'DropTemps', 'Cast'):
        return ev(e['x'], env)
    if k == 'Unary':
        v = ev(e['x'], env)
        if e['op'] == '!':
            return not v
        if e['op'] == '-':
            return -v
        raise Unknown('unary ' + e['op'])
    if k == 'Binary':
        op = e['op']
        if op == '&&':
            return bool(ev(e['x'], env)) and bool(ev(e['y'], env))
        if op == '||':
            return bool(ev(e['x'], env)) or bool(ev(e['y'], env))
        a, b = ev(e['x'], env), ev(e['y'], env)
        isf = isinstance(a, float) or isinstance(b, float)
        if op == '+':
            return a + b
        if op == '-':
            return a - b
        if op == '*':
            return a * b
        if op == '/':
            return _div(a, b, isf)
        if op == '%':
            return _rem(a, b, isf)
        if op in ('==', '!=', '<', '<=', '>', '>='):
            return {'==': a == b, '!=': a != b, '<': a < b, '<=': a <= b, '>': a > b, '>=': a >= b}[op]
        raise Unknown('operator ' + op)
    if k == 'Call':
        fn = e.get('fn') or ''
        if fn.endswith('::Some') and len(e['a']) == 1:
            return ev(e['a'][0], env)
        raise Unknown('call ' + fn)
    if k == 'Path' and (e.get('d') or '').endswith('::None'):
        return NONE
    if k == 'MCall' and e['n'] in ('floor', 'ceil', 'trunc', 'abs', 'signum') and not e['a']:
        v = ev(e['r'], env)
        if e['n'] == 'abs':
            return abs(v)
        if e['n'] == 'signum':
            return (v > 0) - (v < 0) if not isinstance(v, float) else math.copysign(1.0, v)
        return float({'floor': math.floor, 'ceil': math.ceil, 'trunc': math.trunc}[e['n']](v))
    if k == 'MCall' and e['n'] in ('rem_euclid', 'div_euclid') and len(e['a']) == 1:
        a, b = ev(e['r'], env), ev(e['a'][0], env)
        isf = isinstance(a, float) or isinstance(b, float)
        r = _rem(a, b, isf)
        if r < 0:
            r = r + abs(b)
        if e['n'] == 'rem_euclid':
            return r
        q = (a - r) / b
        return q if isf else int(q)
    raise Unknown('%s: %s' % (k, T.show(e)[:50]))


def call(fn, args):
    params = [p.get('n') for p in fn.get('params', [])] if fn.get('params') else None
    if not params or len(params) != len(args) or any(p is None for p in params):
        # parameter names from the body: first bindings are not exported; fall back to the names used by the caller
        raise Unknown('parameters of %s' % fn.get('path'))
    try:
        return ev(fn['body'], dict(zip(params, args)))
    except _Return as r:
        return r.v
