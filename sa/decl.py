"""Line scanner for erg's bundled declaration files lib/pystd/**/*.d.er: top-level (column 0) declarations."""
import glob, os, re

DECL = re.compile(r"^\.(?P<name>[A-Za-z_][A-Za-z0-9_]*)(?P<bang>!)?\s*(?:=\s*'(?P<py>[^']+)'\s*)?:(?!:)")
IMPORT = re.compile(r"^\.(?P<name>[A-Za-z_][A-Za-z0-9_]*)\s*=\s*pyimport\s+\"(?P<mod>[^\"]+)\"")


def module_of(path, base):
    rel = os.path.relpath(path, base)
    parts = rel.split('/')
    parts[-1] = parts[-1][:-len('.d.er')]
    parts = [x[:-2] if x.endswith('.d') else x for x in parts]
    if parts[-1] == '__init__':
        parts = parts[:-1]
    return '.'.join(parts)


def scan_file(path):
    """[(lineno, erg name, python name, kind)]"""
    out = []
    in_doc = False
    for i, line in enumerate(open(path, encoding='utf-8'), 1):
        n = line.count("'''")
        if in_doc:
            if n % 2 == 1:
                in_doc = False
            continue
        if n % 2 == 1:
            in_doc = True
            # a declaration can precede an opening doc block on the same line only in theory; none does
            continue
        if not line.startswith('.'):
            continue
        m = IMPORT.match(line)
        if m:
            out.append((i, m.group('name'), m.group('name'), 'submodule'))
            continue
        m = DECL.match(line)
        if m:
            erg = m.group('name') + (m.group('bang') or '')
            py = m.group('py') or m.group('name')
            out.append((i, erg, py, 'attr'))
    return out


def scan_all(repo):
    base = os.path.join(repo, 'crates/erg_compiler/lib/pystd')
    res = {}
    for p in sorted(glob.glob(base + '/**/*.d.er', recursive=True)):
        res[os.path.relpath(p, repo)] = (module_of(p, base), scan_file(p))
    return res
