"""Fact store: (re-)extracts facts from /repo's current working tree with the ergfacts driver
and loads them.  Nothing in /repo is executed: `cargo +nightly check` type-checks only."""
import fcntl, hashlib, json, os, shutil, subprocess, sys, time

VERIF = os.path.dirname(os.path.dirname(os.path.abspath(__file__)))
REPO = os.environ.get('ERG_REPO', '/repo')
CACHE = os.path.join(VERIF, '.cache')
DRIVER_DIR = os.path.join(VERIF, 'driver')
DRIVER = os.path.join(DRIVER_DIR, 'target', 'debug', 'ergfacts')
MEMBERS = ['erg', 'erg_common', 'erg_parser', 'erg_compiler', 'erg_linter', 'els', 'erg_proc_macros']
EXPECTED_CRATES = ['erg_common', 'erg_parser', 'erg_compiler', 'erg_linter', 'els', 'erg', 'erg-bin']
# measured on the pinned tree: 10 140 body owners over the crates above; floor leaves room for edits
FN_FLOOR = 8000

CONFIGS = {
    'default': [],
    'nodefault': ['--no-default-features'],          # sequential analysis: no `parallel`
    'debug': ['--features', 'debug'],                 # DEBUG_MODE code paths
    'py_compat': ['--features', 'py_compat'],
}
EXTRA_CONFIGS = ['nodefault', 'debug', 'py_compat']


class FactsError(Exception):
    pass


def source_hash(repo=REPO):
    """hash of every tracked or untracked (non-ignored) source file the build reads"""
    out = subprocess.run(['git', '-C', repo, 'ls-files', '-co', '--exclude-standard', '--',
                          'Cargo.toml', 'Cargo.lock', 'build.rs', 'src', 'crates'],
                         capture_output=True, text=True, check=True).stdout.split('\n')
    h = hashlib.sha256()
    for f in sorted(set(x for x in out if x)):
        p = os.path.join(repo, f)
        if not os.path.isfile(p):
            h.update(('D ' + f + '\n').encode())
            continue
        h.update(('F ' + f + '\n').encode())
        with open(p, 'rb') as fh:
            h.update(hashlib.sha256(fh.read()).digest())
    return h.hexdigest()[:20]


def driver_hash():
    h = hashlib.sha256()
    for f in sorted(os.listdir(os.path.join(DRIVER_DIR, 'src'))):
        h.update(open(os.path.join(DRIVER_DIR, 'src', f), 'rb').read())
    return h.hexdigest()[:8]


def sysroot():
    return subprocess.run(['rustc', '+nightly', '--print', 'sysroot'], capture_output=True, text=True,
                          check=True, cwd=DRIVER_DIR).stdout.strip()


def build_driver():
    env = dict(os.environ, CARGO_NET_OFFLINE='true')
    r = subprocess.run(['cargo', 'build', '--offline'], cwd=DRIVER_DIR, env=env, capture_output=True, text=True)
    if r.returncode != 0 or not os.path.exists(DRIVER):
        raise FactsError('driver build failed:\n' + r.stderr[-3000:])


def _extract(outdir, config, repo):
    build_driver()   # no-op when up to date
    target = os.path.join(CACHE, 'target-' + config)
    os.makedirs(target, exist_ok=True)
    # cargo's freshness cache would skip the wrapper: drop the workspace members' fingerprints
    fp = os.path.join(target, 'debug', '.fingerprint')
    if os.path.isdir(fp):
        for d in os.listdir(fp):
            base = d.rsplit('-', 1)[0]
            if base in MEMBERS:
                shutil.rmtree(os.path.join(fp, d), ignore_errors=True)
    tmp = outdir + '.tmp%d' % os.getpid()
    shutil.rmtree(tmp, ignore_errors=True)
    os.makedirs(tmp)
    env = dict(os.environ)
    env.update({
        'LD_LIBRARY_PATH': os.path.join(sysroot(), 'lib') + ':' + env.get('LD_LIBRARY_PATH', ''),
        'RUSTFLAGS': '-Zmir-opt-level=0 -Awarnings',
        'RUSTC_WORKSPACE_WRAPPER': DRIVER,
        'ERGFACTS_OUT': tmp,
        'ERGFACTS_ROOT': os.path.realpath(repo),
        'CARGO_TARGET_DIR': target,
        'CARGO_NET_OFFLINE': 'true',
    })
    env.pop('RUSTC_WRAPPER', None)
    cmd = ['cargo', '+nightly', 'check', '--offline', '--workspace'] + CONFIGS[config]
    t0 = time.time()
    r = subprocess.run(cmd, cwd=repo, env=env, capture_output=True, text=True)
    if r.returncode != 0:
        shutil.rmtree(tmp, ignore_errors=True)
        raise FactsError('fact extraction failed (%s):\n%s' % (' '.join(cmd), r.stderr[-4000:]))
    nfn = 0
    for c in EXPECTED_CRATES:
        idx = os.path.join(tmp, c, 'index.json')
        if not os.path.exists(idx):
            shutil.rmtree(tmp, ignore_errors=True)
            raise FactsError('no facts for crate %s (driver skipped?)' % c)
        nfn += json.load(open(idx))['nfn']
    if nfn < FN_FLOOR:
        shutil.rmtree(tmp, ignore_errors=True)
        raise FactsError('only %d body owners exported (< floor %d)' % (nfn, FN_FLOOR))
    json.dump({'nfn': nfn, 'wall_s': round(time.time() - t0, 1), 'config': config, 'cmd': ' '.join(cmd)},
              open(os.path.join(tmp, 'meta.json'), 'w'))
    shutil.rmtree(outdir, ignore_errors=True)
    os.rename(tmp, outdir)


def ensure(config='default', repo=REPO, verbose=True):
    """returns the directory holding facts for the current working tree of `repo`"""
    os.makedirs(os.path.join(CACHE, 'facts'), exist_ok=True)
    h = source_hash(repo) + '-' + driver_hash()
    outdir = os.path.join(CACHE, 'facts', '%s-%s' % (config, h))
    if os.path.exists(os.path.join(outdir, 'meta.json')):
        return outdir
    with open(os.path.join(CACHE, 'lock-' + config), 'w') as lk:
        fcntl.flock(lk, fcntl.LOCK_EX)
        if os.path.exists(os.path.join(outdir, 'meta.json')):
            return outdir
        if verbose:
            print('[facts] extracting (%s) for source hash %s ...' % (config, h), file=sys.stderr, flush=True)
        _extract(outdir, config, repo)
        # keep at most 14 fact sets per config
        fdir = os.path.join(CACHE, 'facts')
        olds = sorted((d for d in os.listdir(fdir) if d.startswith(config + '-') and '.tmp' not in d),
                      key=lambda d: os.path.getmtime(os.path.join(fdir, d)))
        for d in olds[:-14]:
            shutil.rmtree(os.path.join(fdir, d), ignore_errors=True)
    return outdir


class Facts:
    def __init__(self, config=None, repo=REPO):
        config = config or os.environ.get('ERGFACTS_CONFIG', 'default')
        self.repo = repo
        self.config = config
        self.dir = ensure(config, repo)
        self.meta = json.load(open(os.path.join(self.dir, 'meta.json')))
        self._files = {}
        self._adts = {}
        self._calls = {}
        self.loaded_files = []

    def crate_of(self, relfile):
        if relfile.startswith('crates/'):
            c = relfile.split('/')[1]
            return c
        if relfile.startswith('src/'):
            return 'erg-bin' if relfile == 'src/main.rs' else 'erg'
        raise FactsError('unknown crate for ' + relfile)

    def file(self, relfile, crate=None):
        """-> dict with 'types' and 'fns' for one source file; raises if the file has no facts"""
        crate = crate or self.crate_of(relfile)
        key = (crate, relfile)
        if key not in self._files:
            p = os.path.join(self.dir, crate, 'fns', relfile.replace('/', '__') + '.json')
            if not os.path.exists(p):
                raise FactsError('ANCHOR-LOST: no function facts for %s in crate %s' % (relfile, crate))
            self._files[key] = json.load(open(p))
            self.loaded_files.append(relfile)
        return self._files[key]

    def fns(self, relfile, crate=None):
        return self.file(relfile, crate)['fns']

    def fn(self, relfile, suffix, crate=None):
        """the unique function in `relfile` whose def-path ends with `suffix`"""
        from sa.tree import norm
        d = self.file(relfile, crate)
        m = [f for f in d['fns'] if norm(f['path']) == suffix or (f['path'].endswith('::' + suffix))]
        if len(m) != 1:
            raise FactsError('ANCHOR-LOST: expected exactly one function %s in %s, found %d' % (suffix, relfile, len(m)))
        f = m[0]
        f['_types'] = d['types']
        f['_file'] = relfile
        return f

    def fns_matching(self, relfile, pred, crate=None):
        d = self.file(relfile, crate)
        out = []
        for f in d['fns']:
            if pred(f):
                f['_types'] = d['types']
                f['_file'] = relfile
                out.append(f)
        return out

    def adts(self, crate):
        if crate not in self._adts:
            self._adts[crate] = json.load(open(os.path.join(self.dir, crate, 'adt.json')))
        return self._adts[crate]

    def adt(self, crate, path_suffix):
        m = [a for a in self.adts(crate)['adts'] if a['path'].endswith(path_suffix)]
        if len(m) != 1:
            raise FactsError('ANCHOR-LOST: expected exactly one ADT %s in %s, found %d' % (path_suffix, crate, len(m)))
        return m[0]

    def impls(self, crate):
        return self.adts(crate)['impls']

    def calls(self, crate):
        if crate not in self._calls:
            self._calls[crate] = json.load(open(os.path.join(self.dir, crate, 'calls.json')))
        return self._calls[crate]

    def crates(self):
        return [d for d in sorted(os.listdir(self.dir)) if os.path.isdir(os.path.join(self.dir, d))]


def ctor_sites(fx, crate, variant_suffix):
    """[(file, fn def-path, line)] where the enum variant / struct whose path ends with `variant_suffix` is constructed
    (tuple-constructor call, struct literal or unit path in expression position)"""
    import os, json
    from sa import tree as T
    out = []
    idx = json.load(open(os.path.join(fx.dir, crate, 'index.json')))
    for relfile in idx['files']:
        try:
            d = fx.file(relfile, crate)
        except FactsError:
            continue
        for f in d['fns']:
            for n in T.walk(f['body']):
                k = n.get('k')
                if k == 'Call' and (n.get('fn') or '').endswith(variant_suffix) and n.get('dk', '').startswith('Ctor'):
                    out.append((relfile, f['path'], n.get('l')))
                elif k == 'Struct' and (n.get('d') or '').endswith(variant_suffix):
                    out.append((relfile, f['path'], n.get('l')))
                elif k == 'Path' and (n.get('d') or '').endswith(variant_suffix) and n.get('dk', '').startswith('Ctor'):
                    out.append((relfile, f['path'], n.get('l')))
    return out
