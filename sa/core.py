"""Check bookkeeping: obligations, findings, known-finding subtraction, evidence, exit code."""
import json, os, sys, time

VERIF = os.path.dirname(os.path.dirname(os.path.abspath(__file__)))


class AnchorLost(Exception):
    pass


class Check:
    def __init__(self, pid, tier, seed=0):
        self.pid = pid
        self.tier = tier
        self.seed = seed
        self.t0 = time.time()
        self.findings = []       # dicts: key, rule, msg, file, line, detail
        self.obligations = 0
        self.discharged = 0
        self.analysed = {}       # free-form counters
        self.samples = []
        self.assumptions = []
        self.lost = []
        self.rules = []          # (rule id, text)
        self.undecided = []
        self.notes = []
        self._keys = set()
        self.distinct = set()

    # ---- recording
    def rule(self, rid, text):
        self.rules.append((rid, text))

    def ok(self, rule, instance, sample=None):
        self.obligations += 1
        self.discharged += 1
        self.distinct.add((rule, instance))
        if sample is not None and len(self.samples) < 12:
            self.samples.append(sample)

    def bad(self, rule, where, instance, msg, file=None, line=None, detail=None):
        """a violated obligation. key = rule|where|instance (no line numbers)"""
        self.obligations += 1
        key = '%s|%s|%s' % (rule, where, instance)
        n = 1
        base = key
        while key in self._keys:   # same instance twice in one function: number them
            n += 1
            key = '%s#%d' % (base, n)
        self._keys.add(key)
        self.distinct.add((rule, key))
        self.findings.append({'key': key, 'rule': rule, 'where': where, 'msg': msg, 'file': file, 'line': line,
                              'detail': detail})

    def count(self, name, n=1):
        self.analysed[name] = self.analysed.get(name, 0) + n

    def need(self, cond, msg):
        """anchor / floor assertion: failing means the rule no longer sees the code"""
        if not cond:
            self.lost.append(msg)
        return cond

    def floor(self, name, n, minimum):
        self.analysed[name] = n
        if n < minimum:
            self.lost.append('count %s = %d below the confirmed floor %d' % (name, n, minimum))

    def undecide(self, what):
        self.undecided.append(what)

    # ---- finishing
    def finish(self, explanation, level='other', exhaustive=False):
        kf_path = os.path.join(VERIF, 'known_findings.json')
        known = {}
        if os.path.exists(kf_path):
            for e in json.load(open(kf_path)).get('findings', []):
                if e['property'] == self.pid:
                    known[e['key']] = e
        new, old = [], []
        for f in self.findings:
            (old if f['key'] in known else new).append(f)
        # discharged counts obligations that hold; known findings stay undischarged
        # development runs against a patched tree (tools/run_seed.sh) write their evidence elsewhere: evidence/ always describes /repo itself
        EVID = os.environ.get('VERIF_EVIDENCE_DIR') or os.path.join(VERIF, 'evidence')
        os.makedirs(os.path.join(EVID, 'replay'), exist_ok=True)
        lines = []
        for f in old:
            lines.append('KNOWN-FINDING: property=%s %s [%s] %s:%s' % (self.pid, f['msg'], f['key'], f['file'], f['line']))
        stale = [k for k in known if k not in {f['key'] for f in old}]
        for i, f in enumerate(new):
            rp = os.path.join(EVID, 'replay', '%s-%d.json' % (self.pid, i))
            json.dump({'property': self.pid, 'finding': f, 'rules': dict(self.rules),
                       'rerun': './check %s --tier %s' % (self.pid, self.tier)}, open(rp, 'w'), indent=1)
            lines.append('FINDING %s: %s  at %s:%s  key=%s' % (f['rule'], f['msg'], f['file'], f['line'], f['key']))
            lines.append('VIOLATION property=%s replay=%s' % (self.pid, rp))
        for m in self.lost:
            lines.append('ANCHOR-LOST property=%s %s' % (self.pid, m))
        ev = {
            'property_id': self.pid,
            'tier': self.tier,
            'seed': self.seed,
            'level': level,
            'coverage': {
                'explanation': explanation,
                'rule': ' || '.join('%s: %s' % r for r in self.rules),
                'evaluations': max(self.obligations, 1),
                'distinct_nontrivial': len(self.distinct),
                'obligations': self.obligations,
                'discharged': self.discharged,
                'exhaustive': bool(exhaustive and not self.lost),
                'analysed': self.analysed,
                'samples': self.samples[:12] or ['(no sample recorded)'],
                'known_findings_reported': [f['key'] for f in old],
                'known_findings_not_reproduced': stale,
                'new_violations': [f['key'] for f in new],
                'undecided': self.undecided,
                'anchors_lost': self.lost,
                'checker_cmd': './check %s --tier %s' % (self.pid, self.tier),
                'trusted_base': ['rustc nightly front end (HIR/typeck/MIR as exported by /verif/driver)',
                                 'the rule tables in /verif/sa/props', 'frozen reference tables in /verif/ref'],
                'notes': self.notes,
            },
            'assumptions': self.assumptions,
            'wall_s': round(time.time() - self.t0, 2),
            'violations': len(new),
        }
        json.dump(ev, open(os.path.join(EVID, self.pid + '.json'), 'w'), indent=1)
        print('== %s (%s): %d obligations, %d discharged, %d known finding(s), %d new violation(s), %d anchor(s) lost; %s'
              % (self.pid, self.tier, self.obligations, self.discharged, len(old), len(new), len(self.lost),
                 ', '.join('%s=%s' % kv for kv in sorted(self.analysed.items()))))
        for l in lines:
            print(l)
        if new:
            return 1
        if self.lost:
            return 2
        return 0
