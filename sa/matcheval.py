"""Evaluate Rust `match` arms on abstract values that are unit enum variants (named by their variant name)."""
from sa import tree as T


class Unknown(Exception):
    pass


def pat_matches(p, val):
    """val: a variant name (str) for an enum value, or a tuple of vals. Returns True/False; raises Unknown."""
    k = p.get('k')
    if k in ('Wild',):
        return True
    if k == 'Bind':
        return pat_matches(p['sub'], val) if 'sub' in p else True
    if k == 'PRef':
        return pat_matches(p['p'], val)
    if k == 'POr':
        return any(pat_matches(q, val) for q in p['p'])
    if k == 'PTuple':
        if not isinstance(val, tuple) or len(val) != len(p['p']) or 'dd' in p:
            raise Unknown('tuple arity')
        return all(pat_matches(q, v) for q, v in zip(p['p'], val))
    if k in ('PPath', 'PTupleStruct', 'PStruct'):
        if isinstance(val, tuple):
            raise Unknown('variant vs tuple')
        return T.last_seg(p['d']) == val
    raise Unknown('pattern kind %s' % k)


def variant_predicate(fn):
    """for `fn p(&self) -> bool { match self { A | B => true, ... _ => false } }` return
    (set of variants mapped to true, set mapped to false explicitly, default bool or None)"""
    ms = [n for n in T.walk(fn['body']) if n.get('k') == 'Match']
    if len(ms) != 1:
        raise Unknown('predicate %s: expected one match' % fn['path'])
    true_set, false_set, default = set(), set(), None
    for arm in ms[0]['arms']:
        b = T.peel(arm['b'])
        vs = T.pat_variants(arm['pat'])
        if b.get('k') == 'Lit' and 'bool' in (b.get('v') or {}) and 'g' not in arm:
            val = b['v']['bool']
            if vs == {'_'}:
                default = val
            else:
                names = {T.last_seg(v) for v in vs if not v.startswith('?') and v != '_'}
                (true_set if val else false_set).update(names - true_set - false_set)
        # guarded / recursive arms (e.g. FreeVar if linked) concern non-unit variants: ignored for unit values
    return true_set, false_set, default
