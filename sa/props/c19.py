"""C19  diagnostics collected after join; no randomly seeded hash order; no named lock guard held across a scheduling point  (K2 + K9 + K8)"""
import json, os
from sa import facts as F, tree as T
from sa.kinds import vspec as VS

LOWER = 'crates/erg_compiler/lower.rs'
SCHED = ('safe_yield', 'thread::functions::sleep', 'thread::sleep', 'JoinHandle::join', 'SharedPromises::join', 'SharedPromises::join_all', 'SharedPromises::join_children',
         'SharedPromises::wait_until_finished', 'spawn::spawn_new_thread', 'thread::yield_now', 'park')
GUARDS = ('RwLockReadGuard', 'RwLockWriteGuard', 'MappedRwLockReadGuard', 'MappedRwLockWriteGuard', 'MutexGuard', 'cell::Ref<', 'cell::RefMut<')
ITER = {'iter', 'iter_mut', 'keys', 'values', 'values_mut', 'into_iter', 'drain', 'into_keys', 'into_values'}
GUARD_EXCEPTIONS = {
    ('Shared::wait_until_unlocked', 'lock_thread'): 'read guard on the lock-owner bookkeeping vector, held across a 1 ms sleep of a polling loop: it can delay a writer by one tick, it cannot change any result',
}


def is_random_state(rt):
    return ('std::collections::hash::map::HashMap<' in rt or 'std::collections::hash::set::HashSet<' in rt or 'std::collections::HashMap<' in rt or 'std::collections::HashSet<' in rt) \
        and 'Fx' not in rt and 'BuildHasherDefault' not in rt


def is_sched(n):
    q = T.callee(n) or ''
    return any(s in q for s in SCHED)


def run(chk):
    fx = F.Facts()
    chk.rule('C19-R1', 'in GenericASTLowerer::lower the diagnostics of the analysis threads (shared().errors.take() / warns.take()) are collected only after promises.join_all / join_children')
    chk.rule('C19-R2', 'no collection with a randomly seeded hasher (std HashMap / HashSet with the default RandomState) is iterated anywhere in erg_common, erg_parser, erg_compiler')
    chk.rule('C19-R3', 'no named lock guard (a `let` binding of RwLock/Mutex/RefCell guard type) is in scope at a call to safe_yield / sleep / join / wait_until_finished / spawn')
    # ---- R1
    f = fx.fn(LOWER, 'GenericASTLowerer::lower')

    def joined(n):
        return n.get('k') == 'MCall' and n['n'] in ('join_all', 'join_children', 'join') and 'promises' in T.show(n['r'])

    def takes(n):
        return n.get('k') == 'MCall' and n['n'] == 'take' and ('shared().errors' in T.show(n['r']) or 'shared().warns' in T.show(n['r']))
    dom = VS.Dominates(joined, takes)
    bad = dom.run(f)
    chk.floor('shared diagnostics collection sites', dom.good_exits + len(bad), 2)
    for b in bad:
        chk.bad('C19-R1', 'GenericASTLowerer::lower', 'take-before-join:%s' % T.show(b['r']), 'lower() takes `%s` on a path that has not joined the analysis threads: diagnostics of a still-running '
                'thread are lost or appear depending on timing' % T.show(b), LOWER, b['l'])
    if not bad:
        chk.ok('C19-R1', 'lower', sample='%d take() site(s), all after join_all / join_children' % dom.good_exits)
    # ---- R1b: join() really waits, except for the recognised reasons
    chk.rule('C19-R1b', 'SharedPromises::join returns without waiting only for a recognised reason: the target is the current thread or one of its ancestors (cycle), the current '
                        'module does not *transitively* depend on the target (deep_depends_on), the build is sequential, or the promise is already joined')
    PROM = 'crates/erg_compiler/module/promise.rs'
    j = fx.fn(PROM, 'SharedPromises::join')
    nret = 0
    for n, ctx in T.walk_ctx(j['body']):
        if n.get('k') != 'Ret':
            continue
        conds = [T.show(c[1]).replace(' ', '') for c in ctx if c[0] == 'if' and c[2] is True]
        if any('DEBUG_MODE' in c for c in conds) and len(conds) > 1:
            conds = [c for c in conds if 'DEBUG_MODE' not in c]
        nret += 1
        cs = ' && '.join(conds)
        if 'ancestors(' in cs or 'deep_depends_on(' in cs and '!self.graph.deep_depends_on' in cs or '!PARALLEL' in cs or 'is_joined(' in cs or 'entries().contains' in cs:
            chk.ok('C19-R1b', cs[:60], sample='join: early return under `%s`' % cs[:80])
        elif '.depends_on(' in cs:
            chk.bad('C19-R1b', 'SharedPromises::join', 'skip:direct-dependency', 'join() skips waiting when the current module does not *directly* depend on the target (`%s`): '
                    'threads of transitively imported modules are not joined and their diagnostics can be lost' % cs[:90], PROM, n['l'])
        else:
            chk.lost.append('SharedPromises::join: unrecognised reason for returning without waiting: %s' % cs[:100])
    chk.floor('early returns of join()', nret, 3)
    waits = [c for c in T.calls(j['body']) if (T.callee(c) or '').endswith('safe_yield')]
    chk.need(len(waits) >= 1, 'SharedPromises::join no longer waits (no safe_yield loop)')
    # ---- R2 / R3 over all functions
    n_iter = n_lets = 0
    for crate in ('erg_common', 'erg_parser', 'erg_compiler'):
        idx = json.load(open(os.path.join(fx.dir, crate, 'index.json')))
        for relfile in idx['files']:
            d = fx.file(relfile, crate)
            types = d['types']
            for fn in d['fns']:
                where = T.norm(fn['path'])
                for n in T.walk(fn['body']):
                    if n.get('k') == 'MCall' and n['n'] in ITER:
                        rt = types[n['rt']] or ''
                        if is_random_state(rt):
                            n_iter += 1
                            chk.bad('C19-R2', where, 'iter:%s' % T.show(n['r']), '%s iterates `%s` of type %s: the order depends on the per-process random hash seed' % (where, T.show(n['r']), rt[:80]),
                                    relfile, n['l'])
                    if n.get('k') == 'Block':
                        ss = n.get('s', []) + ([n['e']] if 'e' in n else [])
                        for i, st in enumerate(ss):
                            if st.get('k') == 'Let' and st['pat'].get('k') == 'Bind' and any(g in (types[st.get('t', 0)] or '') for g in GUARDS) \
                                    and not (types[st.get('t', 0)] or '').startswith('&'):
                                n_lets += 1
                                name = st['pat']['n']
                                rest = ss[i + 1:]
                                hit = None
                                for later in rest:
                                    # an explicit drop(name) ends the scope
                                    if any(c.get('k') == 'Call' and (c.get('fn') or '').endswith('mem::drop') and T.show(c['a'][0]) == name for c in T.calls(later)):
                                        break
                                    for c in T.calls(later):
                                        if is_sched(c):
                                            hit = c
                                            break
                                    if hit:
                                        break
                                if hit:
                                    if (where, name) in GUARD_EXCEPTIONS:
                                        chk.ok('C19-R3', (where, name, 'reviewed'))
                                        chk.notes.append({'reviewed guard across a scheduling point': '%s `%s`: %s' % (where, name, GUARD_EXCEPTIONS[(where, name)])})
                                    else:
                                        chk.bad('C19-R3', where, 'guard:%s@%s' % (name, T.last_seg(T.callee(hit) or '?')),
                                                '%s keeps the lock guard `%s` (%s) in scope across `%s`: another thread needing the lock waits for the scheduler' %
                                                (where, name, (types[st['t']] or '')[:60], T.show(hit)[:50]), relfile, hit['l'])
                                else:
                                    chk.ok('C19-R3', (where, name, st['l']))
    # positive control for the zero-expected rule R2: the type predicate must recognise a RandomState map
    ctl = ['std::collections::HashMap<alloc::string::String, usize>', 'std::collections::hash::map::HashMap<u8, u8>']
    neg = ['std::collections::HashMap<Str, usize, core::hash::BuildHasherDefault<rustc_hash::FxHasher>>', 'erg_common::dict::Dict<Str, usize>']
    chk.need(all(is_random_state(t) for t in ctl) and not any(is_random_state(t) for t in neg), 'C19-R2 positive control failed: the RandomState predicate no longer separates std maps from Fx maps')
    if n_iter == 0:
        chk.ok('C19-R2', 'none', sample='no iteration over a RandomState-hashed std collection in erg_common / erg_parser / erg_compiler')
    chk.floor('named lock-guard bindings examined', n_lets, 12)
    chk.undecide('whether the process-global FRESH_GEN counter reaches names in bytecode or messages (byte-identical output) is not judged')
    # ---- the process-global fresh-name generator
    chk.rule('C19-fresh', 'a fresh name is taken atomically: in erg_common::fresh::FreshNameGenerator the number that goes into the name is the value returned by the atomic increment '
                          '— no separate `load` of the counter after `fetch_add` (between the two another analysis thread can increment, and both threads get the same name)')
    chk.rule('C19-global', 'no number taken from a process-global counter that several analysis threads advance is printed in a diagnostic: the static FRESH_GEN names refinement '
                           'variables (`%v_global_N`), and the Display of a refinement type prints that name — N depends on how the threads interleave')
    FR = 'crates/erg_common/fresh.rs'
    gens = [f_ for f_ in fx.fns(FR, 'erg_common') if T.norm(f_['path']).startswith('FreshNameGenerator::fresh_')]
    chk.floor('fresh-name methods', len(gens), 2)
    for g in gens:
        adds = [c for c in T.calls(g['body']) if c.get('k') == 'MCall' and c['n'] in ('fetch_add', 'fetch_update')]
        loads = [c for c in T.calls(g['body']) if c.get('k') == 'MCall' and c['n'] == 'load']
        nm = T.norm(g['path'])
        if adds and not loads:
            chk.ok('C19-fresh', nm, sample='%s: the name uses the value returned by fetch_add' % nm)
        elif adds and loads:
            chk.bad('C19-fresh', nm, 'add-then-load', '%s increments the counter with fetch_add and reads it back with a separate load: under the schedule T1 add, T2 add, T1 load, T2 load both '
                    'threads build the same "fresh" name' % nm, FR, loads[0].get('l'))
        else:
            chk.need(False, '%s: no atomic increment found' % nm)
    statics = [f_ for f_ in fx.fns(FR, 'erg_common') if f_.get('dk') == 'Static' and f_['path'].endswith('FRESH_GEN')]
    if chk.need(len(statics) == 1, 'erg_common::fresh::FRESH_GEN not found'):
        users = 0
        import json as _j, os as _o
        idx = _j.load(open(_o.path.join(fx.dir, 'erg_compiler', 'index.json')))
        for rel in idx['files']:
            for f_ in fx.file(rel, 'erg_compiler')['fns']:
                if any(x.get('k') == 'Path' and x.get('dk') == 'Static' and (x.get('d') or '').endswith('FRESH_GEN') for x in T.walk(f_['body'])):
                    users += 1
        chk.analysed['functions of erg_compiler that take names from FRESH_GEN'] = users
        # does the Display of a refinement type print the variable name?
        TY = 'crates/erg_compiler/ty/mod.rs'
        prints = False
        for f_ in fx.fns(TY):
            if 'RefinementType' in (f_.get('self_ty') or '') and T.norm(f_['path']).split('::')[-1] in ('fmt', 'limited_fmt'):
                if any(x.get('k') == 'Field' and x.get('n') == 'var' for x in T.walk(f_['body'])):
                    prints = True
        if users and prints:
            chk.bad('C19-global', 'erg_common::fresh::FRESH_GEN', 'printed-counter', 'refinement variables are named from the process-global FRESH_GEN in %d functions of the checker and '
                    'RefinementType prints the name: the `N` of `%%v_global_N` in a diagnostic differs from run to run when modules are analysed in parallel' % users, FR, statics[0]['line'])
        else:
            chk.ok('C19-global', 'FRESH_GEN')
    from sa.props.c20 import edge_rule_as
    edge_rule_as(chk, fx, 'C19-edge')      # an importer without its own dependency edge is neither ordered after the module nor joined with it
    modid_rule(chk, fx)
    return ('Dominance rule in lower(), type-based scan for RandomState iteration (receiver types from rustc typeck), and a scope rule for named lock guards. '
            'Byte-identical output across schedules is not decided.'), {}


def modid_rule(chk, fx):
    """ModId is a registration counter: with parallel analysis its values follow the order in which the threads finish"""
    CACHE = 'crates/erg_compiler/module/cache.rs'
    chk.rule('C19-modid', 'a module id is taken from a counter when the analysis of the module registers its result (ModuleCache::register: `last_id += 1`), so with parallel analysis it '
                          'depends on the schedule: ModId carries no order (no PartialOrd / Ord impl), hence nothing emitted can be sorted by it — sorting the hoisted module declarations '
                          'of the linker by ModId gives a different byte sequence from run to run')
    reg = [f for f in fx.file(CACHE)['fns'] if T.last_seg(T.norm(f['path'])) == 'register' and 'ModuleCache' in f['path']]
    counter = any(n.get('k') == 'AssignOp' and 'last_id' in T.show(n['x']) for f in reg for n in T.walk(f['body']))
    if not chk.need(counter, 'ModuleCache::register no longer numbers modules from the `last_id` counter'):
        return
    ords = [i for i in fx.impls('erg_compiler') if i.get('self') == 'module::cache::ModId' and (i.get('trait') or '') in ('core::cmp::Ord', 'core::cmp::PartialOrd')]
    if ords:
        chk.bad('C19-modid', 'module::cache::ModId', 'ordered', 'ModId implements %s: a registration counter that follows the thread schedule can now serve as a sort key (the linker sorting its '
                'module declarations by it makes the .pyc differ between two compilations of the same sources)' % ' / '.join(sorted(i['trait'].split('::')[-1] for i in ords)),
                CACHE, ords[0].get('line'))
    else:
        chk.ok('C19-modid', 'unordered', sample='ModId: Debug, Clone, Copy, PartialEq, Eq, Hash — no order')
