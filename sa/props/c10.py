"""C10  parsing reads no global mutable state / clock / RNG; AST equality ignores source positions  (K9 + ADT rule)"""
import re
from sa import facts as F, tree as T
from sa.kinds import callgraph as CG

FORBIDDEN = [('SystemTime::now', 'wall clock'), ('Instant::now', 'monotonic clock'), ('random::random', 'random number'), ('rand::', 'random number'),
             ('RandomState::new', 'randomly seeded hasher'), ('thread_rng', 'random number'), ('env::var', 'process environment'), ('env::vars', 'process environment')]
ROOTS = ['Parser::parse', 'Lexer::lex', 'Lexer::next', 'Desugarer::desugar', 'Desugarer::desugar_simple_expr']
POS_FIELDS = ('lineno', 'col_begin', 'col_end', 'ln_begin', 'ln_end')


def run(chk):
    fx = F.Facts()
    chk.rule('C10-R1', 'nothing reachable from Parser::parse / Lexer / Desugarer (resolved call graph over erg_parser and erg_common) calls a clock, an RNG, a randomly seeded '
                       'hasher or reads the process environment, and no reachable function touches a mutable / interior-mutable static')
    chk.rule('C10-R2', 'the equality the property is observed through ignores positions: a syntax-tree type of erg_parser::ast whose PartialEq is automatically derived does not '
                       'own a field of type Location or a line / column field; Token::eq compares kind and content only')
    gp, mp = CG.graph(fx, 'erg_parser')
    gc, mc = CG.graph(fx, 'erg_common')
    g = dict(gc)
    for k, v in gp.items():
        g.setdefault(k, set()).update(v)
    reach = CG.reachable(g, ROOTS)
    chk.floor('functions reachable from the parser entry points', len(reach), 500)
    hits = 0
    for fn in sorted(reach):
        for callee in sorted(g.get(fn, ())):
            for pat, what in FORBIDDEN:
                if pat in callee:
                    hits += 1
                    file, line = (mp.get(fn) or mc.get(fn) or (None, None))
                    chk.bad('C10-R1', fn, 'calls:%s' % callee, '%s (reachable from the parser) calls %s: a %s makes parsing depend on more than the source text' % (fn, callee, what), file, line)
    # statics
    nstat = 0
    for crate, files in (('erg_parser', None), ('erg_common', None)):
        import json, os
        idx = json.load(open(os.path.join(fx.dir, crate, 'index.json')))
        for relfile in idx['files']:
            d = fx.file(relfile, crate)
            for f in d['fns']:
                nm = T.norm(f['path'])
                if nm not in reach:
                    continue
                for n in T.walk(f['body']):
                    if n.get('k') == 'Path' and n.get('dk') == 'Static':
                        t = d['types'][n['ty']] if isinstance(n.get('ty'), int) else ''
                        nstat += 1
                        mutable = any(w in (t or '') for w in ('Mutex', 'RwLock', 'Atomic', 'Cell', 'Shared', 'Lazy', 'OnceLock', 'FreshNameGenerator'))
                        if mutable:
                            chk.bad('C10-R1', nm, 'static:%s' % T.last_seg(n['d']), '%s (reachable from the parser) uses the interior-mutable static %s: %s' % (nm, n['d'], t), relfile, n['l'])
                        else:
                            chk.ok('C10-R1', (nm, n['d']))
    # positive control for the zero-expected rule: the patterns must match the def-paths rustc prints for these functions
    ctl = ['std::time::SystemTime::now', 'std::time::Instant::now', 'erg_common::random::random', 'std::hash::random::RandomState::new', 'std::env::var']
    chk.need(all(any(pat in c for pat, _ in FORBIDDEN) for c in ctl), 'C10-R1 positive control failed: a forbidden-effect pattern no longer matches its def-path')
    # and the call graph must actually see such calls where they exist: erg_common::serialize::get_timestamp_bytes calls SystemTime::now
    chk.need(any('SystemTime::now' in c for c in g.get('serialize::get_timestamp_bytes', ())), 'C10-R1 positive control failed: the call graph does not show '
             'serialize::get_timestamp_bytes -> SystemTime::now')
    if hits == 0:
        chk.ok('C10-R1', 'no-forbidden-callee', sample='%d reachable functions, none calls a clock / RNG / RandomState / env' % len(reach))
    chk.analysed['static uses in reachable functions'] = nstat
    # ---- R2
    adts = {a['path'].split('::', 1)[1]: a for a in fx.adts('erg_parser')['adts']}
    impls = fx.impls('erg_parser')
    derived = {i['self'] for i in impls if i.get('trait', '').endswith('cmp::PartialEq') and i['derived']}
    chk.floor('ast types with derived PartialEq', len([d for d in derived if d.startswith('ast::')]), 80)
    for short, a in sorted(adts.items()):
        if not short.startswith('ast::') or short not in derived:
            continue
        bad_fields = []
        for v in a['variants']:
            for f in v['f']:
                if re.search(r'\bLocation\b', f['t']) or f['n'] in POS_FIELDS:
                    bad_fields.append('%s%s: %s' % ((v['n'] + '.') if a['kind'] == 'enum' else '', f['n'], f['t'].replace('erg_common::error::', '')))
        if bad_fields:
            chk.bad('C10-R2', short, 'derived-eq-over-position', '%s derives PartialEq and owns %s: the same program shifted by a blank line or a space yields an unequal syntax tree'
                    % (short, ', '.join(bad_fields)), a['file'], a['line'])
        else:
            chk.ok('C10-R2', short)
    tok = [f for f in fx.fns('crates/erg_parser/token.rs') if T.norm(f['path']) == 'Token::eq']
    if chk.need(len(tok) == 1, 'Token::eq (manual PartialEq) not found'):
        fields = {n['n'] for n in T.walk(tok[0]['body']) if n.get('k') == 'Field'}
        if fields <= {'kind', 'content'} and fields:
            chk.ok('C10-R2', 'Token::eq', sample='Token::eq compares %s' % sorted(fields))
        else:
            chk.bad('C10-R2', 'Token::eq', 'fields', 'Token::eq reads %s: token equality depends on positions' % sorted(fields), 'crates/erg_parser/token.rs', tok[0]['line'])
    return ('Effect reachability over the resolved call graph (erg_parser + erg_common) from the parser entry points, and an ADT rule on derived equality of the syntax tree. '
            'That the layout rewrites of the property yield the same tree is behaviour of the lexer/parser and is not decided.'), {}
