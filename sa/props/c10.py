"""C10  parsing reads no global mutable state / clock / RNG; AST equality ignores source positions  (K9 + ADT rule)"""
import re
from sa import facts as F, tree as T
from sa.kinds import callgraph as CG

FORBIDDEN = [('SystemTime::now', 'wall clock'), ('Instant::now', 'monotonic clock'), ('random::random', 'random number'), ('rand::', 'random number'),
             ('RandomState::new', 'randomly seeded hasher'), ('thread_rng', 'random number'), ('env::var', 'process environment'), ('env::vars', 'process environment')]
ROOTS = ['Parser::parse', 'Lexer::lex', 'Lexer::next', 'Desugarer::desugar', 'Desugarer::desugar_simple_expr']
POS_FIELDS = ('lineno', 'col_begin', 'col_end', 'ln_begin', 'ln_end')


LEX = 'crates/erg_parser/lex.rs'


def _chars(n):
    return {x['v']['char'] for x in T.walk(n) if isinstance(x.get('v'), dict) and 'char' in x['v']}


def _touches_indent(n):
    """sites that decide block structure: indent_stack.push/pop, or building an Indent / Dedent token"""
    out = []
    for x in T.walk(n):
        if x.get('k') == 'MCall' and x.get('n') in ('push', 'pop', 'clear', 'truncate'):
            r = T.peel(x['r'])
            if r.get('k') == 'Field' and r.get('n') == 'indent_stack':
                out.append((x.get('l'), 'indent_stack.%s' % x['n']))
        if x.get('k') in ('Call', 'MCall') and T.norm(T.callee(x) or '').split('::')[-1] in ('emit_singleline_token', 'accept', 'emit_token'):
            for a in x['a']:
                a = T.peel(a)
                if a.get('k') == 'Path' and (a.get('d') or '').split('::')[-1] in ('Indent', 'Dedent'):
                    out.append((x.get('l'), 'emit %s' % a['d'].split('::')[-1]))
    return out


def layout_rules2(chk, fx):
    PARSE = 'crates/erg_parser/parse.rs'
    chk.rule('C10-R6', 'bracket depth is counted in pairs: in Lexer::next the `}` arm lowers enclosure_level only on the path that emits RBrace — the `}` that closes a string '
                       'interpolation (`\\{` raises nothing) leaves it alone, otherwise a line break after an interpolated string inside parentheses becomes a Newline token')
    chk.rule('C10-R7', 'what follows an operator decides prefix / infix (Lexer::op_fix): a line continuation `\\` and a comment `#` there are classified exactly like a space, so '
                       '`a -\\` + line break + `b` and `a -#[c]# b` are the subtraction `a - b`')
    chk.rule('C10-R8', 'adjacency is decided on one line: wherever the parser compares `x.col_end() == t.col_begin()` to glue a `[`, `.`, `::` or `(` to the expression before it, the '
                       'lines are compared too — a continuation line indented to that column must not turn a call into a subscript')
    fns = {T.norm(f['path']): f for f in fx.fns(LEX)}
    nxt = fns.get('Lexer::next')
    if chk.need(nxt is not None, 'Lexer::next not found'):
        arm = None
        for m in T.walk(nxt['body']):
            if m.get('k') == 'Match':
                for a in m['arms']:
                    if any((x.get('v') or {}).get('char') == '}' for x in T.walk(a['pat']) if x.get('k') == 'PLit'):
                        arm = a
        if chk.need(arm is not None, "Lexer::next: the arm for '}' was not found"):
            decs = []
            for n, ctx in T.walk_ctx(arm['b']):
                if n.get('k') in ('Assign', 'AssignOp') and T.show(T.peel(n['x'])).endswith('enclosure_level'):
                    decs.append((n, ctx))
            okk = bool(decs)
            for n, ctx in decs:
                # the decrement must sit in the branch that accepts RBrace, not before the interpolation test
                in_branch = [c for c in ctx if c[0] == 'if' and 'interpol' in T.show(c[1])]
                if not in_branch or in_branch[-1][2] is not False:
                    okk = False
            if okk:
                chk.ok('C10-R6', 'rbrace', sample="'}': enclosure_level is lowered only when RBrace is emitted")
            else:
                chk.bad('C10-R6', 'Lexer::next', 'rbrace-decrement', "the '}' arm lowers enclosure_level before (or without) knowing whether the brace closes a string interpolation: after "
                        '`"\\{x}"` inside parentheses the depth is one too low and the next line break ends the statement', LEX, arm['l'])
    chk.rule('C10-R9', 'a `#[ ]#` comment inside a line is followed by the ordinary skipping of spaces: in Lexer::next the branch that skips the comment continues the scanning loop '
                       '(it does not fall into the token match, which has no arm for a space)')
    if nxt is not None:
        found = False
        for n, ctx in T.walk_ctx(nxt['body']):
            if n.get('k') == 'If' and any(c.get('k') == 'MCall' and c['n'] == 'lex_multi_line_comment' for c in T.calls(n['c']) ) or \
               (n.get('k') == 'If' and any(c.get('k') == 'MCall' and c['n'] == 'lex_multi_line_comment' for c in T.calls(n['t'])) and not any(c.get('k') == 'MCall' and c['n'] == 'lex_comment' for c in T.calls(n['t']))):
                found = True
                in_loop = any(c[0] == 'loop' for c in ctx)
                conts = [x for x in T.walk(n['t']) if x.get('k') in ('Continue', 'Cont')]
                if in_loop and conts:
                    chk.ok('C10-R9', 'continue', sample='after lex_multi_line_comment: continue')
                else:
                    chk.bad('C10-R9', 'Lexer::next', 'no-rescan', 'after a `#[ ]#` comment Lexer::next goes on to the token match: a space after the comment (`a + #[c]# b`) is an '
                            '"invalid character"', LEX, n.get('l'))
                break
        chk.need(found, 'Lexer::next: the branch that skips a multi-line comment was not found')
    chk.rule('C10-R10', 'blank lines are invisible where a block is about to open: every place of the parser that expects an Indent token (block body, `:`-style arguments, the '
                        'definitions after `C.` / `C::`) first skips any run of Newline tokens, and the Newline after a decorator is followed by the same skipping (sibling rule: all '
                        'sites agree)')
    nind = 0
    for f in fx.fns(PARSE, 'erg_parser'):
        for blk in T.walk(f['body']):
            if blk.get('k') != 'Block':
                continue
            stmts = [T.unsemi(x) for x in T.stmts_of(blk)]
            for i, st in enumerate(stmts):
                m = st.get('m') or []
                txt = T.show(st)
                is_expect_indent = bool(m) and m[0] == 'expect_pop' and any(x.get('k') == 'Path' and (x.get('d') or '').endswith('TokenKind::Indent') for x in T.walk(st))
                is_deco_newline = T.norm(f['path']) == 'Parser::opt_reduce_decorators' and bool(m) and m[0] == 'expect_pop' and \
                    any(x.get('k') == 'Path' and (x.get('d') or '').endswith('TokenKind::Newline') for x in T.walk(st))
                if not (is_expect_indent or is_deco_newline):
                    continue

                def skips_newlines(x):
                    return x is not None and x.get('k') == 'Loop' and any(c.get('k') == 'MCall' and c['n'] == 'cur_is' and 'Newline' in T.show(c) for c in T.calls(x)) \
                        and any(c.get('k') == 'MCall' and c['n'] in ('skip', 'lpop') for c in T.calls(x))
                nind += 1
                where = T.norm(f['path'])
                if is_expect_indent:
                    prev = stmts[i - 1] if i > 0 else None
                    if skips_newlines(prev):
                        chk.ok('C10-R10', (where, 'indent', st.get('l')))
                    else:
                        chk.bad('C10-R10', where, 'indent-without-newline-skip', '%s expects an Indent token without first skipping Newline tokens: a blank line before the indented block '
                                '(e.g. directly after `C.`) is a syntax error' % where, PARSE, st.get('l'))
                else:
                    nxt_ = stmts[i + 1] if i + 1 < len(stmts) else None
                    if skips_newlines(nxt_):
                        chk.ok('C10-R10', (where, 'decorator', st.get('l')))
                    else:
                        chk.bad('C10-R10', where, 'decorator-newline', 'after a decorator exactly one Newline is consumed: a blank line between the decorator and the definition is a '
                                'syntax error', PARSE, st.get('l'))
    chk.floor('Indent expectations / decorator line ends in the parser', nind, 4)
    of = fns.get('Lexer::op_fix')
    if chk.need(of is not None, 'Lexer::op_fix not found'):
        inner = [m for m in T.walk(of['body']) if m.get('k') == 'Match' and T.peel(m['x']).get('k') == 'Tup']
        if chk.need(len(inner) == 1, 'op_fix: the (prev_prev, cur) match was not found'):
            def matches(p, ch):
                k = p.get('k')
                if k in ('Wild', 'Bind'):
                    return True
                if k == 'POr':
                    return any(matches(q, ch) for q in p['p'])
                if k == 'PLit':
                    return (p.get('v') or {}).get('char') == ch
                if k in ('PTupleStruct', 'PStruct') and p['d'].endswith('::Some'):
                    sub = (p.get('p') or [f_['p'] for f_ in p.get('f', [])])
                    return matches(sub[0], ch) if sub else True
                return False

            def classify(pp, cur):
                for a in inner[0]['arms']:
                    pt = a['pat']
                    if pt.get('k') == 'PTuple' and len(pt['p']) == 2 and matches(pt['p'][0], pp) and matches(pt['p'][1], cur):
                        return T.show(a['b'])
                    if pt.get('k') in ('Wild', 'Bind'):
                        return T.show(a['b'])
                return None
            for pp in (' ', 'x'):
                base = classify(pp, ' ')
                for cur, what in (('\\', 'a line continuation'), ('#', 'a comment')):
                    got = classify(pp, cur)
                    inst = 'after-op:%r:%r' % (pp, cur)
                    if got == base:
                        chk.ok('C10-R7', inst)
                    else:
                        chk.bad('C10-R7', 'Lexer::op_fix', inst, 'an operator followed by %s is classified %s, followed by a space %s: replacing the space after a binary operator '
                                'by %s changes the tree (`a -\\` + line break + `b` becomes the call `a(-b)`)' % (what, got, base, what), LEX, of['line'])
    nadj = 0
    for f in fx.fns(PARSE, 'erg_parser'):
        for n in T.walk(f['body']):
            if n.get('k') == 'Binary' and n.get('op') == '==':
                l, r = T.peel(n['x']), T.peel(n['y'])
                names = {x.get('n') for x in (l, r) if x.get('k') == 'MCall'}
                if names == {'col_end', 'col_begin'}:
                    nadj += 1
                    where = T.norm(f['path'])
                    # the same condition (or the helper it lives in) must also compare lines
                    holder = f['body']
                    lines_too = any(x.get('k') == 'Binary' and x.get('op') == '==' and {y.get('n') for y in (T.peel(x['x']), T.peel(x['y'])) if y.get('k') == 'MCall'} == {'ln_end', 'ln_begin'}
                                    for x in T.walk(holder))
                    if lines_too:
                        chk.ok('C10-R8', (where, n.get('l')))
                    else:
                        chk.bad('C10-R8', where, 'column-only', '%s glues a token to the expression before it when `col_end() == col_begin()` without comparing lines: `f ab \\` followed by a '
                                'line indented to that column parses `[1]` as a subscript of `ab`' % where, PARSE, n.get('l'))
    chk.floor('column adjacency tests in the parser', nadj, 1)


def hash_rule(chk, fx):
    chk.rule('C10-R5', 'hashing a syntax-tree value does not look at positions: a hand-written `impl Hash` of erg_parser::ast / token reads no field of type Location (nor a line / '
                       'column field) and only fields its PartialEq compares — the parser keeps decorators in a hash set and wraps the definition in iteration order, so a position in '
                       'the hash makes the tree depend on the line a decorator stands on')
    adts = {a['path'].split('::', 1)[1]: a for a in fx.adts('erg_parser')['adts']}
    n = 0
    for file in ('crates/erg_parser/ast.rs', 'crates/erg_parser/token.rs'):
        fns = {T.norm(f['path']): f for f in fx.fns(file, 'erg_parser')}
        for nm, f in sorted(fns.items()):
            if not nm.endswith('::hash') or f.get('from_macro'):
                continue
            n += 1
            ty = f.get('self_ty') or ''
            a = adts.get(ty)
            read = sorted({x['n'] for x in T.walk(f['body']) if x.get('k') == 'Field' and T.peel(x['x']).get('k') == 'Local' and T.peel(x['x'])['n'] == 'self'})
            ftypes = {}
            if a:
                for v in a['variants']:
                    for fl in v['f']:
                        ftypes[fl['n']] = fl['t']
            pos = [r for r in read if re.search(r'\bLocation\b', ftypes.get(r, '')) or r in POS_FIELDS]
            eqf = fns.get(nm[:-len('hash')] + 'eq')
            eq_read = None
            if eqf is not None and not eqf.get('from_macro'):
                eq_read = {x['n'] for x in T.walk(eqf['body']) if x.get('k') == 'Field'}
            extra = [r for r in read if eq_read is not None and r not in eq_read]
            if pos:
                chk.bad('C10-R5', nm, 'hashes-position:%s' % ','.join(pos), '%s hashes %s (%s): equal trees at different positions hash differently, and every hash-ordered collection of '
                        'them (the decorator set) is laid out by line numbers' % (nm, ', '.join(pos), ', '.join(ftypes.get(r, '?').replace('erg_common::error::', '') for r in pos)),
                        file, f['line'])
            elif extra:
                chk.bad('C10-R5', nm, 'hash-not-eq:%s' % ','.join(extra), '%s hashes %s, which the type\'s PartialEq does not compare' % (nm, ', '.join(extra)), file, f['line'])
            else:
                chk.ok('C10-R5', nm, sample='%s hashes %s' % (nm, ', '.join(read) or '(nothing)'))
    chk.floor('hand-written Hash impls of syntax-tree types', n, 12)


R4_EXCEPTIONS = {'Lexer::op_fix': 'after an operator both comment forms stand for a space: the decision does not depend on which one follows'}


def layout_rules(chk, fx):
    chk.rule('C10-R3', 'a line that holds only spaces and/or a line comment takes no part in block structure: every site of the lexer that pushes / pops indent_stack or builds an '
                       'Indent / Dedent token lies behind the line-holds-no-code filter at the head of Lexer::lex_space_indent_dedent (an `if` on a Lexer method that inspects '
                       "'#', '\\n' and ' ', whose branch returns None without touching the indentation state), except the end-of-input flush in Lexer::next")
    chk.rule('C10-R4', "a `#[ .. ]#` comment can be followed by code on the same line, so wherever the lexer decides on the character '#' it also looks for the '[' that follows; "
                       "a test of '#' alone treats such a line as holding no code")
    fns = {T.norm(f['path']): f for f in fx.fns(LEX)}
    head = fns.get('Lexer::lex_space_indent_dedent')
    if not chk.need(head is not None and 'Lexer::next' in fns, 'Lexer::lex_space_indent_dedent / Lexer::next not found'):
        return
    # --- R3: sites
    sites = {nm: _touches_indent(f['body']) for nm, f in fns.items()}
    sites = {k: v for k, v in sites.items() if v}
    chk.floor('lexer sites that decide block structure', sum(len(v) for v in sites.values()), 8)
    g, _ = CG.graph(fx, 'erg_parser')
    callers = {}
    for a, bs in g.items():
        for b in bs:
            callers.setdefault(b, set()).add(a)
    # the filter: first statement of lex_space_indent_dedent
    body = head['body']
    stmts = T.stmts_of(body) if hasattr(T, 'stmts_of') else []
    first = T.unsemi(stmts[0]) if stmts else None
    filt, filt_ok, why = None, False, 'the function does not start with an `if`'
    if first is not None and first.get('k') == 'If':
        cs = [c for c in T.calls(first['c']) if c.get('k') == 'MCall' and T.norm(T.callee(c) or '').startswith('Lexer::')]
        for c in cs:
            fn_ = fns.get(T.norm(T.callee(c)))
            if fn_ and {'#', '\n', ' '} <= _chars(fn_['body']) and not _touches_indent(fn_['body']):
                filt = T.norm(T.callee(c))
        if filt is None:
            why = 'its leading `if` does not call a Lexer method that inspects \'#\', \'\\n\' and \' \''
        else:
            rets = [r for r in T.walk(first['t']) if r.get('k') == 'Ret']
            tail_none = False
            tl = first['t'].get('e') if first['t'].get('k') == 'Block' else None
            none_ret = [r for r in rets if r.get('x') is not None and T.show(T.peel(r['x'])).endswith('None')]
            if _touches_indent(first['t']):
                why = 'the branch taken for a line without code touches the indentation state'
            elif not none_ret or len(none_ret) != len(rets) or tl is not None:
                why = 'the branch taken for a line without code does not simply `return None`'
            elif first.get('e'):
                why = 'the filter has an else branch'
            else:
                filt_ok = True
    if filt_ok:
        chk.ok('C10-R3', 'filter', sample='lex_space_indent_dedent starts with `if let Some(..) = self.%s() { ..; return None }`' % filt.split('::')[-1])
    else:
        chk.bad('C10-R3', 'Lexer::lex_space_indent_dedent', 'filter', 'Lexer::lex_space_indent_dedent decides Indent / Dedent without first setting aside lines that hold only spaces '
                'or a line comment (%s): adding a comment or a whitespace-only line with another indentation changes the block structure' % why, LEX, head['line'])
    for nm, ss in sorted(sites.items()):
        for line, what in ss:
            if nm == 'Lexer::lex_space_indent_dedent':
                if first is not None and any(x.get('l') == line for x in T.walk(first)) and filt_ok:
                    chk.bad('C10-R3', nm, 'in-filter:%s' % what, '%s inside the no-code filter' % what, LEX, line)
                else:
                    chk.ok('C10-R3', (nm, what, line))
            elif nm == 'Lexer::next':
                chk.ok('C10-R3', (nm, what, line))       # end-of-input flush, checked below
            elif callers.get(nm, set()) <= {'Lexer::lex_space_indent_dedent'} and callers.get(nm):
                chk.ok('C10-R3', (nm, what, line))
            else:
                chk.bad('C10-R3', nm, 'outside:%s' % what, '%s (%s) is reachable without passing the no-code filter of lex_space_indent_dedent: callers %s'
                        % (nm, what, sorted(callers.get(nm, ()))), LEX, line)
    # Lexer::next: its indentation sites must be in the arm taken at end of input (consume() == None)
    nxt = fns['Lexer::next']
    for line, what in sites.get('Lexer::next', []):
        okk = False
        for n, ctx in T.walk_ctx(nxt['body']):
            if n.get('l') == line and n.get('k') in ('Call', 'MCall'):
                for c in ctx:
                    if c[0] == 'arm' and 'None' in [v.split('::')[-1] for v in T.pat_variants(c[2]['pat'])]:
                        okk = True
        if not okk:
            chk.bad('C10-R3', 'Lexer::next', 'not-eof:%s' % what, 'Lexer::next: %s outside the end-of-input arm' % what, LEX, line)
    # the filter must run before anything else in next(): lex_space_indent_dedent is the first call
    # --- R4
    n4 = 0
    for nm, f in sorted(fns.items()):
        if not nm.startswith('Lexer::'):
            continue
        if nm == 'Lexer::next':
            for n, ctx in T.walk_ctx(f['body']):
                if isinstance(n.get('v'), dict) and n['v'].get('char') == '#':
                    n4 += 1
                    scope = None
                    for c in reversed(ctx):
                        if c[0] == 'if':
                            scope = c[1] if False else None
                    # nearest enclosing `if` / arm holding the literal
                    enc = [x for x in T.walk(f['body']) if x.get('k') == 'If' and any(y is n for y in T.walk(x['c']))]
                    arms = [a for m in T.walk(f['body']) if m.get('k') == 'Match' for a in m['arms'] if any(y is n for y in T.walk(a['pat']))]
                    holder = (enc[-1] if enc else None) or (arms[-1] if arms else None)
                    if holder is not None and '[' in _chars(holder):
                        chk.ok('C10-R4', (nm, n.get('l')))
                    else:
                        chk.bad('C10-R4', nm, 'hash-alone', "%s tests the character '#' without looking for a following '['" % nm, LEX, n.get('l'))
            continue
        cs = _chars(f['body'])
        if '#' in cs and nm in R4_EXCEPTIONS:
            n4 += 1
            chk.ok('C10-R4', ('exception', nm))
            chk.notes.append({'exception': '%s: %s' % (nm, R4_EXCEPTIONS[nm])})
        elif '#' in cs:
            n4 += 1
            if '[' in cs:
                chk.ok('C10-R4', nm, sample="%s: '#' and '[' are inspected together" % nm)
            else:
                chk.bad('C10-R4', nm, 'hash-alone', "%s tests the character '#' but never the '[' that may follow: a line starting with `#[ .. ]#` and continuing with code is treated "
                        'as a comment line' % nm, LEX, f['line'])
    chk.floor("lexer functions deciding on '#'", n4, 3)


def run(chk):
    fx = F.Facts()
    chk.rule('C10-R1', 'nothing reachable from Parser::parse / Lexer / Desugarer (resolved call graph over erg_parser and erg_common) calls a clock, an RNG, a randomly seeded '
                       'hasher or reads the process environment, and no reachable function touches a mutable / interior-mutable static')
    chk.rule('C10-R2', 'the equality the property is observed through ignores positions: a syntax-tree type of erg_parser::ast whose PartialEq is automatically derived does not '
                       'own a field of type Location or a line / column field; Token::eq compares kind and content only')
    gp, mp = CG.graph(fx, 'erg_parser')
    gc, mc = CG.graph(fx, 'erg_common')
    g = dict(gc)
    for k, v in gp.items():
        g.setdefault(k, set()).update(v)
    reach = CG.reachable(g, ROOTS)
    chk.floor('functions reachable from the parser entry points', len(reach), 500)
    hits = 0
    for fn in sorted(reach):
        for callee in sorted(g.get(fn, ())):
            for pat, what in FORBIDDEN:
                if pat in callee:
                    hits += 1
                    file, line = (mp.get(fn) or mc.get(fn) or (None, None))
                    chk.bad('C10-R1', fn, 'calls:%s' % callee, '%s (reachable from the parser) calls %s: a %s makes parsing depend on more than the source text' % (fn, callee, what), file, line)
    # statics
    nstat = 0
    for crate, files in (('erg_parser', None), ('erg_common', None)):
        import json, os
        idx = json.load(open(os.path.join(fx.dir, crate, 'index.json')))
        for relfile in idx['files']:
            d = fx.file(relfile, crate)
            for f in d['fns']:
                nm = T.norm(f['path'])
                if nm not in reach:
                    continue
                for n in T.walk(f['body']):
                    if n.get('k') == 'Path' and n.get('dk') == 'Static':
                        t = d['types'][n['ty']] if isinstance(n.get('ty'), int) else ''
                        nstat += 1
                        mutable = any(w in (t or '') for w in ('Mutex', 'RwLock', 'Atomic', 'Cell', 'Shared', 'Lazy', 'OnceLock', 'FreshNameGenerator'))
                        if mutable:
                            chk.bad('C10-R1', nm, 'static:%s' % T.last_seg(n['d']), '%s (reachable from the parser) uses the interior-mutable static %s: %s' % (nm, n['d'], t), relfile, n['l'])
                        else:
                            chk.ok('C10-R1', (nm, n['d']))
    # positive control for the zero-expected rule: the patterns must match the def-paths rustc prints for these functions
    ctl = ['std::time::SystemTime::now', 'std::time::Instant::now', 'erg_common::random::random', 'std::hash::random::RandomState::new', 'std::env::var']
    chk.need(all(any(pat in c for pat, _ in FORBIDDEN) for c in ctl), 'C10-R1 positive control failed: a forbidden-effect pattern no longer matches its def-path')
    # and the call graph must actually see such calls where they exist: erg_common::serialize::get_timestamp_bytes calls SystemTime::now
    chk.need(any('SystemTime::now' in c for c in g.get('serialize::get_timestamp_bytes', ())), 'C10-R1 positive control failed: the call graph does not show '
             'serialize::get_timestamp_bytes -> SystemTime::now')
    if hits == 0:
        chk.ok('C10-R1', 'no-forbidden-callee', sample='%d reachable functions, none calls a clock / RNG / RandomState / env' % len(reach))
    chk.analysed['static uses in reachable functions'] = nstat
    # ---- R2
    adts = {a['path'].split('::', 1)[1]: a for a in fx.adts('erg_parser')['adts']}
    impls = fx.impls('erg_parser')
    derived = {i['self'] for i in impls if i.get('trait', '').endswith('cmp::PartialEq') and i['derived']}
    chk.floor('ast types with derived PartialEq', len([d for d in derived if d.startswith('ast::')]), 80)
    for short, a in sorted(adts.items()):
        if not short.startswith('ast::') or short not in derived:
            continue
        bad_fields = []
        for v in a['variants']:
            for f in v['f']:
                if re.search(r'\bLocation\b', f['t']) or f['n'] in POS_FIELDS:
                    bad_fields.append('%s%s: %s' % ((v['n'] + '.') if a['kind'] == 'enum' else '', f['n'], f['t'].replace('erg_common::error::', '')))
        if bad_fields:
            chk.bad('C10-R2', short, 'derived-eq-over-position', '%s derives PartialEq and owns %s: the same program shifted by a blank line or a space yields an unequal syntax tree'
                    % (short, ', '.join(bad_fields)), a['file'], a['line'])
        else:
            chk.ok('C10-R2', short)
    tok = [f for f in fx.fns('crates/erg_parser/token.rs') if T.norm(f['path']) == 'Token::eq']
    if chk.need(len(tok) == 1, 'Token::eq (manual PartialEq) not found'):
        fields = {n['n'] for n in T.walk(tok[0]['body']) if n.get('k') == 'Field'}
        if fields <= {'kind', 'content'} and fields:
            chk.ok('C10-R2', 'Token::eq', sample='Token::eq compares %s' % sorted(fields))
        else:
            chk.bad('C10-R2', 'Token::eq', 'fields', 'Token::eq reads %s: token equality depends on positions' % sorted(fields), 'crates/erg_parser/token.rs', tok[0]['line'])
    layout_rules(chk, fx)
    hash_rule(chk, fx)
    layout_rules2(chk, fx)
    return ('Effect reachability over the resolved call graph (erg_parser + erg_common) from the parser entry points, an ADT rule on derived equality of the syntax tree, '
            'and two structural rules on the lexer\'s indentation machinery (comment-only / blank lines are filtered before any Indent/Dedent decision; every `#` decision '
            'separates `#[`). That the other layout rewrites of the property (line continuations, redundant parentheses) yield the same tree is not decided.'), {}
