"""C15  marshal writer / .pyc reader: layout agreement, type codes, lossless widths, reader totality  (K1 + K5)"""
import json, os
from sa import facts as F, tree as T
from sa.props import c01

CODEOBJ = 'crates/erg_compiler/ty/codeobj.rs'
DESER = 'crates/erg_compiler/ty/deserialize.rs'
SER = 'crates/erg_common/serialize.rs'

ENC2DEC = {'to_le_bytes': 'deserialize_u32', 'raw_string_into_bytes': 'deserialize_bytes', 'consts_into_bytes': 'deserialize_const_vec',
           'strs_into_bytes': 'deserialize_str_vec', 'dump_locals': 'deserialize_locals', 'str_into_bytes': 'deserialize_str'}
DECODERS = set(ENC2DEC.values()) | {'deserialize_const_array'}
# CPython's marshal.c type codes (frozen; cross-checked against marshal.dumps of sample values in the thorough tier)
MARSHAL = {'NULL': '0', 'NONE': 'N', 'FALSE': 'F', 'TRUE': 'T', 'STOPITER': 'S', 'ELLIPSIS': '.', 'INT': 'i', 'INT64': 'I', 'FLOAT': 'f',
           'BINARY_FLOAT': 'g', 'COMPLEX': 'x', 'BINARY_COMPLEX': 'y', 'LONG': 'l', 'STRING': 's', 'INTERNED': 't', 'REF': 'r', 'TUPLE': '(',
           'LIST': '[', 'DICT': '{', 'CODE': 'c', 'UNICODE': 'u', 'UNKNOWN': '?', 'SET': '<', 'FROZENSET': '>', 'ASCII': 'a',
           'ASCII_INTERNED': 'A', 'SMALL_TUPLE': ')', 'SHORT_ASCII': 'z', 'SHORT_ASCII_INTERNED': 'Z'}
ERG2MARSHAL = {'Int32': 'INT', 'Int64': 'INT64', 'Float': 'FLOAT', 'BinFloat': 'BINARY_FLOAT', 'Complex': 'COMPLEX', 'BinComplex': 'BINARY_COMPLEX',
               'True': 'TRUE', 'False': 'FALSE', 'None': 'NONE', 'StopIter': 'STOPITER', 'Ref': 'REF', 'Long': 'LONG', 'Str': 'STRING',
               'ShortAscii': 'SHORT_ASCII', 'ShortAsciiInterned': 'SHORT_ASCII_INTERNED', 'Unicode': 'UNICODE', 'Interned': 'INTERNED',
               'SmallTuple': 'SMALL_TUPLE', 'Tuple': 'TUPLE', 'Code': 'CODE'}
ERG_ONLY = {'Illegal', 'Builtin', 'Nat'}
MINORS = list(range(7, 14))


def version_set(cond, positive=True):
    """minors (7..13) for which `python_ver.minor <op> Some(k)` holds; None if not such a test"""
    c = T.peel(cond)
    if c.get('k') == 'Binary' and c['op'] in ('>=', '>', '<', '<=', '==', '!='):
        l, r = T.peel(c['x']), T.peel(c['y'])
        if 'minor' in T.show(l) and r.get('k') == 'Call' and (r.get('fn') or '').endswith('::Some'):
            k = T.lit_int(r['a'][0])
            if k is None:
                return None
            f = {'>=': lambda m: m >= k, '>': lambda m: m > k, '<': lambda m: m < k, '<=': lambda m: m <= k, '==': lambda m: m == k, '!=': lambda m: m != k}[c['op']]
            s = {m for m in MINORS if f(m)}
            return s if positive else set(MINORS) - s
    return None


def ctx_versions(ctx):
    s = set(MINORS)
    for c in ctx:
        if c[0] == 'if':
            v = version_set(c[1], c[2])
            if v is None:
                return None
            s &= v
    return s


def self_field_of(e):
    ch = T.field_chain(e)
    if ch and ch[0] == 'self' and len(ch) >= 2:
        return ch[1]
    return None


def writer_layout(chk, fn):
    """[(field(s), versions, encoder)] in statement order"""
    out = []
    for n, ctx in T.walk_ctx(fn['body']):
        if n.get('k') not in ('Call', 'MCall'):
            continue
        name = T.last_seg(T.callee(n) or '')
        if name not in ENC2DEC:
            continue
        if name == 'to_le_bytes':
            fld = self_field_of(n['r'])
            if fld is None:
                continue
            fields = (fld,)
        else:
            args = n['a'] if n['k'] == 'Call' else n['a']
            fields = tuple(f for f in (self_field_of(a) for a in args) if f)
            if not fields:
                # a local derived from exactly one field of self (e.g. the line table converted to the format of the target version)
                lets = {}
                for l_ in T.walk(fn['body']):
                    if l_.get('k') == 'Let' and l_.get('init') is not None:
                        for b_ in T.walk(l_['pat']):
                            if b_.get('k') == 'Bind':
                                lets[b_['id']] = l_['init']
                derived = set()
                for a in args:
                    a = T.peel(a)
                    if a.get('k') == 'Local' and a.get('id') in lets:
                        for x in T.walk(lets[a['id']]):
                            f_ = self_field_of(x) if x.get('k') == 'Field' else None
                            if f_ and f_ not in ('code',):
                                derived.add(f_)
                if len(derived) == 1:
                    fields = (derived.pop(),)
            if not fields:
                continue
        vs = ctx_versions(ctx)
        if vs is None:
            chk.lost.append('%s: unrecognised version condition around the write of %s' % (T.norm(fn['path']), fields))
            continue
        out.append((fields, frozenset(vs), ENC2DEC[name], n['l']))
    return out


def reader_layout(chk, fn):
    """[(bound name(s), versions, decoder)] in statement order; `if cond {read} else {default}` gives the versions of the read"""
    out = []
    for st in T.stmts_of(fn['body']):
        st = T.unsemi(st)
        if st.get('k') != 'Let' or 'init' not in st:
            continue
        names = tuple(T.pat_bindings(st['pat']))
        for n, ctx in T.walk_ctx(st['init']):
            if n.get('k') in ('Call', 'MCall'):
                name = T.last_seg(T.callee(n) or '')
                if name in DECODERS:
                    vs = ctx_versions(ctx)
                    if vs is None:
                        chk.lost.append('%s: unrecognised version condition around the read of %s' % (T.norm(fn['path']), names))
                        continue
                    out.append((names, frozenset(vs), 'deserialize_const_vec' if name == 'deserialize_const_array' else name, n['l']))
    return out


def long_rule(chk, fx):
    VALUE = 'crates/erg_compiler/ty/value.rs'
    chk.rule('C15-R6', 'a Nat written as marshal TYPE_LONG is normalized: the digit count in the header equals the number of 15-bit digits of the value (no leading zero digit, '
                       'which CPython rejects as "unnormalized long data") — either it is the length of the vector filled by `while rest > 0 { push(rest & 0x7fff); rest >>= 15 }`, '
                       'or an arithmetic expression over the bit length that equals ceil(bits / 15) for every bit length from 32 to 64')
    f = fx.fn(VALUE, 'ValueObj::into_bytes')
    if not chk.need(f is not None, 'ValueObj::into_bytes not found'):
        return
    # the block that writes the TYPE_LONG prefix
    blocks = [b for b in T.walk(f['body']) if b.get('k') == 'Block' and any(x.get('k') == 'Path' and (x.get('d') or '').endswith('DataTypePrefix::Long') for x in T.walk(b))]
    if not chk.need(blocks, 'into_bytes: no block writes DataTypePrefix::Long'):
        return
    def has_count(b):
        return any(c.get('k') == 'MCall' and c['n'] == 'to_le_bytes' and T.peel(c['r']).get('k') == 'Cast' for c in T.calls(b))
    blocks = [b for b in blocks if has_count(b) and b.get('s')] or blocks
    blk = min(blocks, key=lambda b: len(T.show(b)))
    env = {}
    for n in T.walk(blk):
        if n.get('k') == 'Let' and n.get('init') is not None and n['pat'].get('k') == 'Bind':
            env[n['pat']['n']] = n['init']
    counts = []
    for c in T.calls(blk):
        if c.get('k') == 'MCall' and c['n'] == 'to_le_bytes':
            r = T.peel(c['r'])
            if r.get('k') == 'Cast':
                inner = T.peel(r['x'])
                tyname = (fx.file(VALUE)['types'][r['ty']] if isinstance(r.get('ty'), int) else '')
                if tyname == 'i32':
                    counts.append(inner)
    if not chk.need(len(counts) == 1, 'into_bytes: the digit count `(.. as i32).to_le_bytes()` of the TYPE_LONG header was not found (%d)' % len(counts)):
        return
    cnt = counts[0]
    where = 'ValueObj::into_bytes'

    def normalizing_loop(vec):
        for lp in T.walk(blk):
            if lp.get('k') != 'Loop' or lp.get('src') != 'While':
                continue
            inner = T.stmts_of(lp['b'])
            if not inner or T.unsemi(inner[0]).get('k') != 'If':
                continue
            cond = T.peel(T.unsemi(inner[0])['c'])
            if not (cond.get('k') == 'Binary' and cond['op'] in ('>', '!=') and T.lit_int(T.peel(cond['y'])) == 0 and T.peel(cond['x']).get('k') == 'Local'):
                continue
            var = T.peel(cond['x'])['n']
            body = T.unsemi(inner[0])['t']
            pushes = [p for p in T.calls(body) if p.get('k') == 'MCall' and p['n'] == 'push' and T.peel(p['r']).get('n') == vec]
            masks = [b for p in pushes for b in T.walk(p) if b.get('k') == 'Binary' and b['op'] == '&' and 0x7fff in (T.lit_int(T.peel(b['x'])), T.lit_int(T.peel(b['y'])))]
            shifts = [a for a in T.walk(body) if a.get('k') == 'AssignOp' and a.get('op') == '>>=' and T.peel(a['x']).get('n') == var and T.lit_int(T.peel(a['y'])) == 15]
            if len(pushes) == 1 and masks and shifts:
                return True
        return False

    def eval_bits(e, bl):
        e = T.peel(e)
        v = T.lit_int(e)
        if v is not None:
            return v
        k = e.get('k')
        if k == 'Cast':
            return eval_bits(e['x'], bl)
        if k == 'Local' and e['n'] in env:
            return eval_bits(env[e['n']], bl)
        if k == 'Path' and (e.get('d') or '').endswith('::BITS'):
            return 64 if 'u64' in e['d'] or 'i64' in e['d'] else (32 if '32' in e['d'] else None)
        if k == 'MCall' and e['n'] == 'leading_zeros':
            return 64 - bl
        if k == 'MCall' and e['n'] == 'div_ceil' and e['a']:
            a, b = eval_bits(e['r'], bl), eval_bits(e['a'][0], bl)
            return None if a is None or not b else -(-a // b)
        if k == 'Binary':
            a, b = eval_bits(e['x'], bl), eval_bits(e['y'], bl)
            if a is None or b is None:
                return None
            op = e['op']
            if op in ('/', '%') and b == 0:
                return None
            return {'+': lambda: a + b, '-': lambda: a - b, '*': lambda: a * b, '/': lambda: a // b, '%': lambda: a % b}.get(op, lambda: None)()
        return None
    if cnt.get('k') == 'MCall' and cnt['n'] == 'len' and T.peel(cnt['r']).get('k') == 'Local':
        vec = T.peel(cnt['r'])['n']
        if normalizing_loop(vec):
            chk.ok('C15-R6', 'count=len(digits)', sample='digit count = %s.len(), filled while rest > 0 { push(rest & 0x7fff); rest >>= 15 }' % vec)
        else:
            chk.bad('C15-R6', where, 'loop', 'the TYPE_LONG digit vector `%s` is not filled by a loop that stops when the remaining value is 0: a leading zero digit can be written' % vec,
                    VALUE, cnt.get('l'))
    else:
        wrong = []
        unknown = False
        for bl in range(32, 65):
            got = eval_bits(cnt, bl)
            if got is None:
                unknown = True
                break
            if got != -(-bl // 15):
                wrong.append((bl, got, -(-bl // 15)))
        if unknown:
            chk.bad('C15-R6', where, 'count', 'the digit count `%s` of the TYPE_LONG header is neither the length of the normalizing loop\'s vector nor an evaluable function of the '
                    'bit length: a leading zero digit (rejected by CPython as unnormalized) cannot be excluded' % T.show(cnt)[:60], VALUE, cnt.get('l'))
        elif wrong:
            bl, got, want = wrong[0]
            chk.bad('C15-R6', where, 'count', 'the digit count `%s` gives %d digits for a %d-bit value (and for %d other bit lengths) where the value has %d: CPython rejects the constant '
                    'as "bad marshal data (unnormalized long data)"' % (T.show(env.get(cnt.get('n'), cnt))[:70], got, bl, len(wrong) - 1, want), VALUE, cnt.get('l'))
        else:
            chk.ok('C15-R6', 'count=ceil(bits/15)', sample='digit count `%s` equals ceil(bits / 15) for bits 32..64' % T.show(cnt)[:60])


def run(chk):
    fx = F.Facts()
    chk.rule('C15-R1', 'CodeObj::into_bytes/dump_locals (writer) and CodeObj::from_bytes/deserialize_locals (reader) list the same fields, in the same order, under the same '
                       'version conditions, with matching encodings; every fast-local kind byte the writer can emit is accepted by the reader')
    chk.rule('C15-R2', 'DataTypePrefix discriminants equal CPython marshal.c type codes (optionally | FLAG_REF 0x80); From<u8> decodes each code to its own variant')
    chk.rule('C15-R3', 'the reader performs no panicking operation on input-derived data: Vec::remove/drain/indexing, assert!, unreachable!, panic!, unwrap on decoded values '
                       'must be dominated by a length / validity test')
    chk.rule('C15-R4', 'no lossy width change in the marshalling writers (shared with C01-R1)')
    # ---------- R1
    w = writer_layout(chk, fx.fn(CODEOBJ, 'CodeObj::into_bytes'))
    r = reader_layout(chk, fx.fn(CODEOBJ, 'CodeObj::from_bytes'))
    chk.floor('writer fields', len(w), 15)
    chk.floor('reader fields', len(r), 15)
    # align: writer fields (varnames, freevars, cellvars) via dump_locals <-> reader (varnames, freevars, cellvars) via deserialize_locals
    for i in range(max(len(w), len(r))):
        wi = w[i] if i < len(w) else None
        ri = r[i] if i < len(r) else None
        if wi is None or ri is None:
            x = wi or ri
            chk.bad('C15-R1', 'CodeObj', 'field#%d:%s' % (i, '/'.join(x[0])), 'field %s is %s but has no counterpart on the other side' %
                    ('/'.join(x[0]), 'written' if wi else 'read'), CODEOBJ, x[3])
            continue
        same_names = set(wi[0]) == set(ri[0]) or (wi[0][0] in ri[0]) or (ri[0][0] in wi[0])
        if same_names and wi[1] == ri[1] and wi[2] == ri[2]:
            chk.ok('C15-R1', ('field', i, wi[0]), sample='#%d %s: versions 3.%s, %s' % (i, '/'.join(wi[0]), sorted(wi[1]), wi[2]))
        else:
            chk.bad('C15-R1', 'CodeObj', 'field#%d:%s' % (i, '/'.join(wi[0])),
                    'position %d: writer emits %s for 3.%s as %s, reader reads %s for 3.%s with %s' %
                    (i, '/'.join(wi[0]), sorted(wi[1]), wi[2], '/'.join(ri[0]), sorted(ri[1]), ri[2]), CODEOBJ, wi[3])
    # locals: version split and kinds
    dl = fx.fn(CODEOBJ, 'CodeObj::dump_locals')
    rl = fx.fn(DESER, 'Deserializer::deserialize_locals')
    wv = [version_set(n['c']) for n in T.walk(dl['body']) if n.get('k') == 'If' and version_set(n['c']) is not None]
    rv = [version_set(n['c']) for n in T.walk(rl['body']) if n.get('k') == 'If' and version_set(n['c']) is not None]
    if wv and rv and wv[0] == rv[0]:
        chk.ok('C15-R1', 'locals-version-split', sample='localsplus layout used for 3.%s on both sides' % sorted(wv[0]))
    else:
        chk.bad('C15-R1', 'CodeObj::dump_locals', 'locals-version-split', 'writer uses the localsplus layout for 3.%s, reader for 3.%s' %
                (sorted(wv[0]) if wv else '?', sorted(rv[0]) if rv else '?'), CODEOBJ, dl['line'])
    fk = {v['n']: v['discr'] for v in fx.adt('erg_compiler', 'codeobj::FastKind')['variants']}
    written = set()
    for n in T.walk(dl['body']):
        elem = None
        if n.get('k') == 'Repeat':
            elem = n['x']
        elif n.get('k') == 'Call' and (n.get('fn') or '').endswith('from_elem') and n['a']:
            elem = n['a'][0]
        if elem is not None:
            n = {'x': elem}
            v = eval_kind(n['x'], fk)
            if v is None:
                chk.lost.append('dump_locals: cannot evaluate kind expression %s' % T.show(n['x']))
            else:
                written.add(v)
    chk.floor('fast-local kinds written', len(written), 3)
    accepted, how = reader_kinds(fx, rl, fk)
    for v in sorted(written):
        if v in accepted:
            chk.ok('C15-R1', ('kind', v), sample='kind %#x written and accepted (%s)' % (v, how))
        else:
            chk.bad('C15-R1', 'Deserializer::deserialize_locals', 'kind:%#x' % v,
                    'the writer emits fast-local kind %#x but the reader (%s) does not accept it' % (v, how), DESER, rl['line'])
    # ---------- R2
    adt = fx.adt('erg_common', 'serialize::DataTypePrefix')
    rows = 0
    for v in adt['variants']:
        if v['n'] in ERG_ONLY:
            continue
        rows += 1
        m = ERG2MARSHAL.get(v['n'])
        if m is None:
            chk.undecide('DataTypePrefix::%s: no marshal counterpart known' % v['n'])
            continue
        code = ord(MARSHAL[m])
        if v['discr'] in (code, code | 0x80):
            chk.ok('C15-R2', v['n'], sample='DataTypePrefix::%s = %#x == TYPE_%s%s' % (v['n'], v['discr'], m, ' | FLAG_REF' if v['discr'] & 0x80 else ''))
        else:
            chk.bad('C15-R2', 'serialize::DataTypePrefix', v['n'], 'DataTypePrefix::%s = %#x but marshal TYPE_%s is %r (%#x)' % (v['n'], v['discr'], m, MARSHAL[m], code), SER, adt['line'])
    chk.floor('type-code rows', rows, 18)
    frm = fx.fns_matching(SER, lambda f: f['path'].endswith('::from') and 'DataTypePrefix' in (f.get('self_ty') or ''))
    if chk.need(len(frm) == 1, 'From<u8> for DataTypePrefix not found'):
        discr = {v['n']: v['discr'] for v in adt['variants']}
        ms = [n for n in T.walk(frm[0]['body']) if n.get('k') == 'Match']
        nrow = 0
        for arm in ms[0]['arms'] if ms else []:
            b = T.peel(arm['b'])
            if b.get('k') != 'Path':
                continue
            vn = T.last_seg(b['d'])
            for p in ([arm['pat']] if arm['pat'].get('k') != 'POr' else arm['pat']['p']):
                if p.get('k') == 'PLit' and 'char' in (p.get('v') or {}):
                    nrow += 1
                    code = ord(p['v']['char'])
                    if discr.get(vn) is not None and code | 0x80 == discr[vn] | 0x80:
                        chk.ok('C15-R2', ('from', vn, code))
                    else:
                        chk.bad('C15-R2', 'DataTypePrefix::from', '%#x->%s' % (code, vn), 'byte %#x decodes to DataTypePrefix::%s (= %#x)' % (code, vn, discr.get(vn, -1)), SER, arm['l'])
        chk.floor('From<u8> rows', nrow, 20)
    # ---------- R3
    n3 = reader_audit(chk, fx)
    chk.floor('reader operations audited', n3, 20)
    # ---------- R4
    c01.writer_casts(chk, fx, 'C15-R4')
    if chk.tier == 'thorough':
        cross_check_marshal(chk)
    long_rule(chk, fx)
    return ('Sibling cross-check of the code-object writer and reader (ordered field / version / encoding lists from typed HIR), marshal type-code table, '
            'panicking-operation audit of the reader, cast audit of the writers. Value equality after marshal.loads for strings/tuples is a run-time fact and is not decided.'), {}


def eval_kind(e, fk):
    e = T.peel(e)
    if e.get('k') == 'Cast':
        return eval_kind(e['x'], fk)
    if e.get('k') == 'Path' and e.get('d', '').split('::')[-2:][0] == 'FastKind':
        return fk.get(T.last_seg(e['d']))
    if e.get('k') == 'Binary' and e['op'] in ('+', '|'):
        a, b = eval_kind(e['x'], fk), eval_kind(e['y'], fk)
        if a is None or b is None:
            return None
        return a + b if e['op'] == '+' else a | b
    v = T.lit_int(e)
    return v


def reader_kinds(fx, rl, fk):
    """set of kind bytes (0..255) for which deserialize_locals reaches a push (not an error / unreachable)"""
    # form A: match FastKind::try_from(kind) { Ok(V) => push, _ => unreachable }
    for m in [n for n in T.walk(rl['body']) if n.get('k') == 'Match']:
        x = T.peel(m['x'])
        if x.get('k') == 'Call' and (T.cq(x) or '').endswith('FastKind::try_from'):
            acc = set()
            tf = fx.fns_matching('crates/erg_compiler/ty/codeobj.rs', lambda f: f['path'].endswith('::try_from') and 'FastKind' in (f.get('self_ty') or ''))
            table = {}
            if tf:
                for mm in [n for n in T.walk(tf[0]['body']) if n.get('k') == 'Match']:
                    for arm in mm['arms']:
                        if arm['pat'].get('k') == 'PLit':
                            for c in T.walk(arm['b']):
                                if c.get('k') == 'Path' and 'FastKind::' in c.get('d', ''):
                                    table[arm['pat']['v']['int']] = T.last_seg(c['d'])
            for arm in m['arms']:
                for vn in [T.last_seg(v) for v in T.pat_variants(arm['pat'])]:
                    pushes = [c for c in T.calls(arm['b']) if c.get('k') == 'MCall' and c['n'] == 'push']
                    if pushes:
                        for q in T.walk(arm['pat']):
                            if q.get('k') == 'PPath' and 'FastKind::' in q.get('d', ''):
                                acc |= {b for b, nm in table.items() if nm == T.last_seg(q['d'])}
            return acc, 'match FastKind::try_from(kind)'
    # form B: if kind & MASK != 0 {push} else if ... else {Err}
    masks = []
    for n in T.walk(rl['body']):
        if n.get('k') == 'If':
            c = T.peel(n['c'])
            if c.get('k') == 'Binary' and c['op'] == '!=' and T.lit_int(c['y']) == 0:
                l = T.peel(c['x'])
                if l.get('k') == 'Binary' and l['op'] == '&':
                    mv = eval_kind(l['y'], fk) if eval_kind(l['y'], fk) is not None else eval_kind(l['x'], fk)
                    pushes = [q for q in T.calls(n['t']) if q.get('k') == 'MCall' and q['n'] == 'push']
                    if mv is not None and pushes:
                        masks.append(mv)
    if masks:
        return {b for b in range(256) if any(b & m for m in masks)}, 'bit masks %s' % [hex(m) for m in masks]
    return set(), 'unrecognised'


PANIC_M = {'assert', 'assert_eq', 'assert_ne', 'unreachable', 'panic', 'todo', 'unimplemented'}


def reader_audit(chk, fx):
    """panicking operations in the reader functions"""
    targets = []
    for f in fx.fns(DESER):
        if (f.get('self_ty') or '').endswith('Deserializer') and f['path'].rsplit('::', 1)[-1] not in ('new', 'run', 'get_cached_str', 'get_cached_arr', 'array_into_const'):
            targets.append((DESER, f))
    for name in ('CodeObj::from_pyc', 'CodeObj::from_bytes'):
        targets.append((CODEOBJ, fx.fn(CODEOBJ, name)))
    # the magic-number look-up(s) the reader itself calls (the panicking get_ver_from_magic_num serves callers that pass a number the compiler chose)
    fp = fx.fn(CODEOBJ, 'CodeObj::from_pyc')
    magic_fns = sorted({T.last_seg(T.callee(c) or '') for c in T.calls(fp['body']) if 'ver_from_magic' in (T.callee(c) or '')})
    chk.need(bool(magic_fns), 'CodeObj::from_pyc no longer maps the magic number to a version')
    for mf in magic_fns:
        targets.append((SER, fx.fn(SER, 'serialize::' + mf)))
    n = 0
    for file, f in targets:
        types = fx.file(file)['types']
        where = T.norm(f['path'])
        seen_macros = set()
        for node, ctx in T.walk_ctx(f['body']):
            k = node.get('k')
            inst = None
            if k == 'MCall' and node['n'] in ('remove', 'drain', 'swap_remove', 'split_off') and 'Vec<u8>' in (types[node['rt']] or ''):
                inst = 'Vec::%s(%s)' % (node['n'], ', '.join(T.show(a) for a in node['a']))
                why = 'panics when the input is shorter than the bytes requested'
            elif k == 'Index' and not node.get('m') and T.peel(node['i']).get('k') != 'Struct':
                inst = 'index %s' % T.show(node)
                why = 'unchecked indexing'
            elif k == 'MCall' and node['n'] in ('unwrap', 'expect') and not node.get('m'):
                inst = '%s.%s()' % (T.show(node['r']), node['n'])
                why = 'unwrap on a value decoded from the input'
            else:
                ms = node.get('m') or []
                if ms and ms[0] in PANIC_M and (ms[0], node.get('l')) not in seen_macros:
                    seen_macros.add((ms[0], node.get('l')))
                    inst = '%s!' % ms[0]
                    why = 'panics instead of reporting a broken file'
            if inst is None:
                if k in ('MCall', 'Call'):
                    n += 1
                continue
            n += 1
            guarded = any(c[0] == 'if' and ('len()' in T.show(c[1])) for c in ctx)
            if not guarded and k == 'MCall' and node['n'] in ('remove', 'drain'):
                # an earlier statement of the function body leaves with an error when the vector is too short for this very request
                body = T.peel(f['body'])
                recv = T.show(T.peel(node['r'])).replace(' ', '')
                need = None
                if node['n'] == 'remove' and T.lit_int(T.peel(node['a'][0])) == 0:
                    need = ('%s.is_empty()' % recv, '%s.len()<1' % recv, '%s.len()==0' % recv)
                elif node['n'] == 'drain':
                    rng = T.peel(node['a'][0])
                    flds = {x['n']: T.show(T.peel(x['x'])).replace(' ', '') for x in rng.get('f', [])} if rng.get('k') == 'Struct' else {}
                    if 'end' in flds and flds.get('start', '0') == '0':
                        need = ('%s.len()<%s' % (recv, flds['end']), '%s>%s.len()' % (flds['end'], recv))
                if need and body.get('k') == 'Block':
                    for st in T.stmts_of(body):
                        st = T.unsemi(st)
                        if st.get('l', 0) >= node.get('l', 0):
                            break
                        if st.get('k') == 'If' and any(x.get('k') == 'Ret' for x in T.walk(st['t'])) and any(nd in T.show(st['c']).replace(' ', '') for nd in need):
                            guarded = True
            if guarded:
                chk.ok('C15-R3', (where, inst))
            else:
                chk.bad('C15-R3', where, inst, '%s: `%s` %s' % (where, inst, why), file, node.get('l'))
    return n


def cross_check_marshal(chk):
    import subprocess
    code = r'''
import marshal, json
s = {"INT": marshal.dumps(5)[0], "BINARY_FLOAT": marshal.dumps(1.5)[0], "TRUE": marshal.dumps(True)[0], "FALSE": marshal.dumps(False)[0],
     "NONE": marshal.dumps(None)[0], "LONG": marshal.dumps(2**40)[0], "SMALL_TUPLE": marshal.dumps((1,))[0], "STRING": marshal.dumps(b"x")[0],
     "CODE": marshal.dumps(compile("1","f","eval"))[0], "ELLIPSIS": marshal.dumps(...)[0], "TUPLE": marshal.dumps(tuple(range(300)))[0],
     "UNICODE": marshal.dumps("あ" * 3)[0], "SHORT_ASCII": marshal.dumps("".join(["a ", "b!"]))[0] }
print(json.dumps(s))
'''
    for exe in ['/root/.pyenv/versions/3.11.7/bin/python3', '/root/.pyenv/versions/3.8.18/bin/python3']:
        if not os.path.exists(exe):
            continue
        d = json.loads(subprocess.run([exe, '-c', code], capture_output=True, text=True, check=True).stdout)
        for k, v in d.items():
            chk.need((v & 0x7f) == ord(MARSHAL[k]), 'frozen marshal code of %s disagrees with %s: %#x' % (k, exe, v))
        chk.count('marshal codes cross-checked live', len(d))
