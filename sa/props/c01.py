"""C01  constants keep their value through marshalling and constant-pool de-duplication  (K5)"""
from sa import facts as F, tree as T
from sa.kinds import casts

VALUE = 'crates/erg_compiler/ty/value.rs'
CODEOBJ = 'crates/erg_compiler/ty/codeobj.rs'
SER = 'crates/erg_common/serialize.rs'
CODEGEN = 'crates/erg_compiler/codegen.rs'
WRITERS = [(VALUE, 'ValueObj::into_bytes'), (CODEOBJ, 'codeobj::consts_into_bytes'), (CODEOBJ, 'codeobj::tuple_into_bytes'),
           (CODEOBJ, 'CodeObj::into_bytes'), (CODEOBJ, 'CodeObj::dump_locals'), (SER, 'serialize::str_into_bytes'),
           (SER, 'serialize::strs_into_bytes'), (SER, 'serialize::raw_string_into_bytes')]


def writer_casts(chk, fx, rule):
    casts.register_consts(fx, [VALUE, CODEOBJ, SER])
    n_casts = 0
    for file, name in WRITERS:
        fn = fx.fn(file, name)
        types = fx.file(file)['types']
        for (n, frm, to, status, why) in casts.audit(fn, types):
            n_casts += 1
            where = T.norm(fn['path'])
            if status == 'lossy':
                chk.bad(rule, where, '%s:%s->%s' % (T.show(n), frm, to),
                        '%s narrows `%s` (%s -> %s) and %s: the marshalled constant differs from the value' % (where, T.show(n), frm, to, why), file, n['l'])
            else:
                chk.ok(rule, (where, T.show(n)), sample='%s: `%s` %s->%s %s' % (where, T.show(n), frm, to, why))
    return n_casts


def run(chk):
    fx = F.Facts()
    chk.rule('C01-R1', 'constant marshalling is width-preserving: in ValueObj::into_bytes, consts/tuple/str(s)/raw_string_into_bytes, CodeObj::into_bytes and dump_locals every '
                       'narrowing or sign-changing integer cast is dominated by a range test on the same value (or masked, or a length going to a 32-bit marshal length field)')
    chk.rule('C01-R2', 'the predicate that de-duplicates the constant pool (argument of `position` in emit_load_const / register_const) never identifies two float constants '
                       'by IEEE equality: it must compare floats by bits before falling back to ValueObj::eq')
    n = writer_casts(chk, fx, 'C01-R1')
    chk.floor('casts in marshalling writers', n, 8)
    # ---- R2
    impls = [i for i in fx.impls('erg_compiler') if i.get('trait', '').endswith('cmp::PartialEq') and i['self'].endswith('value::Float')]
    float_eq_derived = bool(impls) and impls[0]['derived']
    chk.need(bool(impls), 'impl PartialEq for ty::value::Float not found')
    sites = 0
    for fname in ('PyCodeGenerator::emit_load_const', 'PyCodeGenerator::register_const'):
        fn = fx.fn(CODEGEN, fname)
        for c in T.calls(fn['body']):
            if c.get('k') == 'MCall' and c['n'] == 'position' and c['a'] and T.peel(c['a'][0]).get('k') == 'Closure':
                recv = T.show(c['r'])
                if 'consts' not in recv:
                    continue
                sites += 1
                clo = T.peel(c['a'][0])
                verdict, why = pool_predicate(fx, clo['b'], float_eq_derived)
                where = T.norm(fn['path'])
                if verdict:
                    chk.ok('C01-R2', where, sample='%s: pool lookup %s — %s' % (where, T.show(clo['b']), why))
                else:
                    chk.bad('C01-R2', where, 'pool-predicate', '%s de-duplicates constants with `%s`: %s, so -0.0 after 0.0 reuses the pooled 0.0' % (where, T.show(clo['b']), why),
                            CODEGEN, c['l'])
    chk.floor('constant pool look-ups', sites, 2)
    # ---- R3: results of binary operators are wrapped in the constructor of their static (declared) class by the generator
    from sa.props import c26
    chk.rule('C01-R3', 'the class in which the generated code wraps an arithmetic result (the declared operator Output) can hold every Python result of that operator for operands '
                       'of the declared classes: Output = Nat only if the result is never negative (sign abstraction; shared with C02/C26)')
    n3 = c26.sign_rules(chk, fx, 'C01-R3')
    chk.floor('declared numeric operator rows', n3, 20)
    # ---- R5: the delimiters of a string literal
    chk.rule('C01-R5', 'a string literal loses exactly its own delimiters: in ValueObj::from_str the delimiter stripped at the end is decided by what the caller knows about the token '
                       '(a flag / the token kind), not read again from the text: the lexer has already unescaped the escaped quotes, so a single-quoted literal ending in two of them looks '
                       'like a closing triple quote. (The two ends cannot simply be paired inside from_str: the parser closes the pieces of an interpolated triple-quoted string with a '
                       'single quote.)')
    VALF = 'crates/erg_compiler/ty/value.rs'
    fs = [f_ for f_ in fx.fns(VALF) if T.norm(f_['path']) == 'ValueObj::from_str']
    if chk.need(len(fs) == 1, 'ValueObj::from_str not found'):
        tests = []
        for n, ctx in T.walk_ctx(fs[0]['body']):
            if n.get('k') == 'If':
                cs = T.show(n['c'])
                lits = [x['v']['str'] for x in T.walk(n['c']) if x.get('k') == 'Lit' and isinstance(x.get('v'), dict) and 'str' in x['v']]
                if '"""' in lits:
                    where_ = 'start' if '..3' in cs.replace(' ', '') or 'starts_with' in cs else ('end' if 'len()' in cs or 'ends_with' in cs else '?')
                    locs = {x['n'] for x in T.walk(n['c']) if x.get('k') == 'Local'}
                    tests.append((where_, locs, n))
        starts = [t for t in tests if t[0] == 'start']
        ends = [t for t in tests if t[0] == 'end']
        if chk.need(starts or ends, 'from_str: the `"""` delimiter tests were not found'):
            paired = True
            for _, locs, n in ends:
                # an end test is paired if it consults a flag (a bool local) rather than only the text
                flags = [l_ for l_ in locs if l_ not in ('content', 'self', 's')]
                if not flags:
                    paired = False
                    chk.bad('C01-R5', 'ValueObj::from_str', 'unpaired-delimiter', 'from_str strips a closing `"""` whenever the text ends with three quotes, whatever was stripped at the start: '
                            '`print! "a\\"\\""` prints `a` (the two escaped quotes and the closing quote are taken for a closing `"""`)', VALF, n['l'])
            if paired:
                chk.ok('C01-R5', 'paired', sample='the closing delimiter follows the opening one')
    # ---- R4: the equality that decides whether two constants share a slot
    from sa.kinds import casts as K4
    chk.rule('C01-R4', 'two constants share a slot of the constant pool only if they are the same value: the equality used by the pool look-ups (PyCodeGenerator::same_const -> '
                       '<ValueObj as PartialEq>::eq) compares numbers without a sign-changing or narrowing cast (-1 as u64 equals 2**64-1, 2**32-1 as i32 equals -1)')
    VAL = 'crates/erg_compiler/ty/value.rs'
    eqs = [f for f in fx.fns(VAL) if T.norm(f['path']) == 'ValueObj::eq']
    sc = fx.fn('crates/erg_compiler/codegen.rs', 'PyCodeGenerator::same_const')
    if chk.need(len(eqs) == 1 and sc is not None, 'ValueObj::eq / PyCodeGenerator::same_const not found'):
        uses_eq = any(n.get('k') == 'Binary' and n.get('op') == '==' for n in T.walk(sc['body']))
        chk.need(uses_eq, 'same_const no longer falls back to ValueObj equality')
        ncast = 0
        for fn_, types_, file_ in ((eqs[0], fx.file(VAL)['types'], VAL), (sc, fx.file('crates/erg_compiler/codegen.rs')['types'], 'crates/erg_compiler/codegen.rs')):
            for n, frm, to, st, why in K4.audit(fn_, types_):
                ncast += 1
                if st == 'lossy':
                    chk.bad('C01-R4', T.norm(fn_['path']), 'cast:%s' % T.show(n)[:24], '%s compares constants through `%s` (%s -> %s): two different numbers compare equal and share one '
                            'constant-pool slot, so one of them is loaded as the other' % (T.norm(fn_['path']), T.show(n)[:40], frm, to), file_, n.get('l'))
                else:
                    chk.ok('C01-R4', (T.norm(fn_['path']), n.get('l')))
        arms = [a for m in T.walk(eqs[0]['body']) if m.get('k') == 'Match' for a in m['arms']]
        chk.floor('arms of ValueObj::eq', len(arms), 15)
        if ncast == 0:
            chk.ok('C01-R4', 'no-cast', sample='ValueObj::eq / same_const: no integer cast at all')
    # ---- default parameter values reach the function object: the MAKE_FUNCTION flag word (shared with C14-R13)
    from sa.props import c14
    cg = fx.file('crates/erg_compiler/codegen.rs')
    c14.flag_rule(chk, {T.norm(f['path']): f for f in cg['fns'] if (f.get('self_ty') or '').split('::')[-1] == 'PyCodeGenerator'}, 'C01-flags')
    return ('Integer-cast audit (typed HIR: source and target types of every `as`) over the marshalling writers, and a structural rule on the constant-pool predicate. '
            'Decides the clause "for every literal value, including naturals >= 2**31 and signed zeros"; operator/loop/function semantics of emitted code are run-time facts and are not decided.'), {}


def pool_predicate(fx, body, float_eq_derived):
    b = T.peel(body)
    # direct `c == &value`
    if b.get('k') == 'Binary' and b['op'] == '==':
        if float_eq_derived:
            return False, 'ValueObj::eq compares Float payloads with the derived (IEEE) equality, for which 0.0 == -0.0'
        return True, 'Float equality is hand-written (not IEEE-derived)'
    if b.get('k') in ('Call', 'MCall'):
        q = T.cq(b)
        try:
            helper = fx.fn(CODEGEN, q)
        except Exception:
            return False, 'calls %s, which could not be analysed' % q
        ms = [n for n in T.walk(helper['body']) if n.get('k') == 'Match']
        for m in ms:
            for arm in m['arms']:
                pv = [v for v in T.pat_variants(arm['pat'])]
                pat = arm['pat']
                if pat.get('k') == 'PTuple' and len(pat['p']) == 2 and all(q_.get('k') == 'PTupleStruct' and q_['d'].endswith('ValueObj::Float') for q_ in pat['p']):
                    bits = [c for c in T.calls(arm['b']) if c.get('k') == 'MCall' and c['n'] == 'to_bits']
                    if len(bits) >= 2:
                        return True, '%s compares Float constants by to_bits() before falling back to ==' % q
                    return False, '%s has a Float arm that does not compare bits' % q
                if T.pat_variants(pat) == {'_'}:
                    break
        return False, '%s has no (Float, Float) arm comparing bits before its fallback' % q
    return False, 'unrecognised predicate'
