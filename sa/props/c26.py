"""C26  declared operator result classes are sound for Python's arithmetic and agree with the runtime wrappers  (K1 Rust<->Python + sign abstraction)"""
import ast
from sa import facts as F, tree as T
from sa.kinds import optable as OT


def sign_rules(chk, fx, rule_sign, rule_kind=None):
    rows = OT.declared_table(fx)
    nrows = 0
    for (selft, trait, rhs, consts, line) in rows:
        if selft not in OT.NUMERIC or (rhs is not None and rhs not in OT.NUMERIC):
            continue
        for cname, out in consts.items():
            op = OT.OPS.get((trait, cname))
            if op is None or out not in OT.NUMERIC:
                continue
            nrows += 1
            nonint, neg = OT.result(op, selft, rhs)
            oi, olo, ohi = OT.dom(out)
            inst = '%s %s %s -> %s' % (selft, op, rhs or '', out)
            if oi and olo == 0 and neg:
                chk.bad(rule_sign, 'Context::init_builtin_classes', inst,
                        'declared `%s`: the result can be negative for operands of these classes, but the compiled code wraps it in %s, whose constructor raises ValueError' % (inst, out),
                        OT.CLASSES, line)
            else:
                chk.ok(rule_sign, inst, sample='declared %s: sign-sound' % inst)
            if rule_kind is not None:
                # Python: a negative base raised to a non-integral power is a complex number
                complex_possible = op == '**' and rhs == 'Float' and (OT.dom(selft)[1] is None or OT.dom(selft)[1] < 0)      # (a Ratio value is an integer at run time today)
                if complex_possible:
                    chk.bad(rule_kind, 'Context::init_builtin_classes', inst + ' (complex)',
                            'declared `%s`: for a negative base and a non-integral exponent Python yields a complex number ((-8.0) ** 0.5), which the wrapper %s cannot hold: the '
                            'type-checked program raises TypeError' % (inst, out), OT.CLASSES, line)
                if oi and nonint:
                    chk.bad(rule_kind, 'Context::init_builtin_classes', inst,
                            'declared `%s`: Python yields a non-integral value for some operands of these classes, but the result is wrapped in %s (silently truncated)' % (inst, out),
                            OT.CLASSES, line)
                else:
                    chk.ok(rule_kind, inst)
    return nrows


PYOP = {'__add__': ast.Add, '__sub__': ast.Sub, '__mul__': ast.Mult, '__truediv__': ast.Div, '__floordiv__': ast.FloorDiv, '__mod__': ast.Mod, '__pow__': ast.Pow,
        '__lshift__': ast.LShift, '__rshift__': ast.RShift, '__and__': ast.BitAnd, '__or__': ast.BitOr, '__xor__': ast.BitXor, '__matmul__': ast.MatMult}
PYCMP = {'__eq__': ast.Eq, '__ne__': ast.NotEq, '__lt__': ast.Lt, '__le__': ast.LtE, '__gt__': ast.Gt, '__ge__': ast.GtE}


def operator_rule(chk):
    """sibling rule over the runtime wrapper classes: __op__ applies op"""
    chk.rule('C26-op', 'every arithmetic / comparison dunder of the runtime classes (Int, Nat, Float, Bool, Str, List and their mutable variants) applies its own Python operator to the '
                       'wrapped values in every branch: a BinOp / Compare on `self` or `self.value`, or an explicit `int.__x__(self, ..)` / `super().__x__(..)`, inside `__op__` (also '
                       '`__rop__`, `__iop__`) uses `op` — e.g. `__floordiv__` never computes `/`')
    classes = OT.runtime_classes()
    n = 0
    for cname, c in sorted(classes.items()):
        for mname, m in sorted(c['methods'].items()):
            base = mname
            if mname.startswith('__r') and '__' + mname[3:] in PYOP:
                base = '__' + mname[3:]
            elif mname.startswith('__i') and '__' + mname[3:] in PYOP:
                base = '__' + mname[3:]
            if base not in PYOP and base not in PYCMP:
                continue

            def on_self(e):
                return any(isinstance(x, ast.Name) and x.id == 'self' for x in ast.walk(e))
            for node in ast.walk(m):
                got = None
                if base in PYOP and isinstance(node, ast.BinOp) and (on_self(node.left) or on_self(node.right)):
                    # string formatting / concatenation inside error messages is not the operation
                    if isinstance(node.left, ast.Constant) and isinstance(node.left.value, str):
                        continue
                    got = type(node.op)
                    want = PYOP[base]
                elif base in PYCMP and isinstance(node, ast.Compare) and len(node.ops) == 1 and (on_self(node.left) or on_self(node.comparators[0])):
                    got = type(node.ops[0])
                    want = PYCMP[base]
                    if got in (ast.Is, ast.IsNot, ast.In, ast.NotIn):
                        continue
                elif isinstance(node, ast.Call) and isinstance(node.func, ast.Attribute) and node.func.attr.startswith('__') and node.func.attr.endswith('__') \
                        and (ast.unparse(node.func.value) in ('int', 'float', 'str', 'list', 'bool', 'super()', 'complex') ) and (node.func.attr in PYOP or node.func.attr in PYCMP):
                    called = node.func.attr
                    n += 1
                    ok_names = {base, '__r' + base[2:], '__i' + base[2:]}
                    if called in ok_names:
                        chk.ok('C26-op', (cname, mname, 'call', node.lineno))
                    else:
                        chk.bad('C26-op', '%s.%s' % (cname, mname), 'calls:%s' % called, '%s.%s computes its result with %s.%s: another operation than the one the method implements'
                                % (cname, mname, ast.unparse(node.func.value), called), c['file'], node.lineno)
                    continue
                if got is None:
                    continue
                n += 1
                if got is want:
                    chk.ok('C26-op', (cname, mname, node.lineno))
                else:
                    chk.bad('C26-op', '%s.%s' % (cname, mname), 'applies:%s' % got.__name__, '%s.%s computes `%s`: it applies %s where the method implements %s, so the value differs from the '
                            'Python built-in for some operands (e.g. -7 // 2 = -4 but -7 / 2 = -3.5)' % (cname, mname, ast.unparse(node)[:50], got.__name__, want.__name__), c['file'], node.lineno)
    chk.floor('operator applications in runtime dunders', n, 60)
    order_rule(chk, classes)


NONCOMM = (ast.Sub, ast.Div, ast.FloorDiv, ast.Mod, ast.Pow, ast.LShift, ast.RShift, ast.MatMult)


def order_rule(chk, classes):
    chk.rule('C26-order', 'operand order of the non-commutative dunders of the runtime classes: `__op__` / `__iop__` compute `self op other`, the reflected `__rop__` computes '
                          '`other op self` — as a BinOp with the operands on those sides, or as `base.__op__(self, other)` / `base.__op__(other, self)` / `base.__rop__(self, other)`; '
                          '`7 % Float(2.0)` must be 1.0, not 2.0 % 7')
    n = 0

    def has(e, name):
        return any(isinstance(x, ast.Name) and x.id == name for x in ast.walk(e))
    for cname, c in sorted(classes.items()):
        seqlike = any(t in cname for t in ('Str', 'List', 'Tuple', 'Bytes'))
        for mname, m in sorted(c['methods'].items()):
            refl = mname.startswith('__r') and '__' + mname[3:] in PYOP
            inpl = mname.startswith('__i') and '__' + mname[3:] in PYOP
            base = '__' + mname[3:] if (refl or inpl) else mname
            if base not in PYOP:
                continue
            op = PYOP[base]
            if not (op in NONCOMM or (seqlike and op in (ast.Add,))):
                continue
            args = [a.arg for a in m.args.args]
            if len(args) != 2:
                continue
            me, you = args
            for node in ast.walk(m):
                lhs = rhs = None
                how = None
                if isinstance(node, ast.BinOp) and type(node.op) is op:
                    if isinstance(node.left, ast.Constant) and isinstance(node.left.value, str):
                        continue
                    lhs, rhs, how = node.left, node.right, ast.unparse(node)
                elif isinstance(node, ast.Call) and isinstance(node.func, ast.Attribute) and node.func.attr in (base, '__r' + base[2:]) and len(node.args) == 2 \
                        and ast.unparse(node.func.value) in ('int', 'float', 'str', 'list', 'bool', 'complex'):
                    lhs, rhs, how = node.args[0], node.args[1], ast.unparse(node)
                    if node.func.attr != base:       # base.__rop__(a, b) computes b op a
                        lhs, rhs = rhs, lhs
                if lhs is None:
                    continue
                l_me, l_you, r_me, r_you = has(lhs, me), has(lhs, you), has(rhs, me), has(rhs, you)
                if (l_me and l_you) or (r_me and r_you) or not ((l_me or l_you) and (r_me or r_you)):
                    continue       # both operands on one side / a constant operand: not an application of the method's operands
                n += 1
                straight = l_me and r_you
                want_straight = not refl
                if straight == want_straight:
                    chk.ok('C26-order', (cname, mname, node.lineno))
                else:
                    chk.bad('C26-order', '%s.%s' % (cname, mname), 'order:%s' % op.__name__, '%s.%s computes `%s`: the operands are %s, but %s stands for `%s`' %
                            (cname, mname, how[:60], 'self op other' if straight else 'other op self', mname, 'other op self' if refl else 'self op other'), c['file'], node.lineno)
    chk.floor('non-commutative operator applications with both operands', n, 20)


def run(chk):
    fx = F.Facts()
    chk.rule('C26-sign', 'every declared operator impl (Self, Trait(Rhs), Output/PowOutput/ModOutput) of Bool/Nat/Int/Ratio/Float in init_builtin_classes is sound for the sign of '
                         'Python\'s result: Output = Nat only if the result is non-negative for all operands of the declared classes (abstract interpretation over sign intervals)')
    chk.rule('C26-kind', 'Output in {Nat, Int} only if Python\'s result is integral for all operands of the declared classes')
    chk.rule('C26-wrap', 'for every declared numeric impl the runtime class found through the Python MRO wraps the result in a class that is the declared Output or a superclass-compatible '
                         'one: a dunder that wraps in a *narrower* class than declared for its operand classes must guard the narrowing')
    n = sign_rules(chk, fx, 'C26-sign', 'C26-kind')
    chk.floor('declared numeric operator rows', n, 20)
    classes = OT.runtime_classes()
    chk.floor('runtime classes', len(classes), 10)
    for c in ('Nat', 'Int', 'Float', 'Bool', 'Str'):
        chk.need(c in classes, 'runtime class %s not found' % c)
    # wrap agreement
    rows = OT.declared_table(fx)
    order = {c: i for i, c in enumerate(OT.NUMERIC)}
    for (selft, trait, rhs, consts, line) in rows:
        if selft not in ('Nat', 'Int', 'Float', 'Bool') or (rhs is not None and rhs not in OT.NUMERIC):
            continue
        for cname, out in consts.items():
            op = OT.OPS.get((trait, cname))
            if op is None or out not in OT.NUMERIC:
                continue
            d = OT.DUNDER[op]
            found = None
            for k in OT.mro(classes, selft):
                if d in classes[k]['methods']:
                    found = (k, classes[k]['methods'][d])
                    break
            inst = '%s.%s (declared %s)' % (selft, d, out)
            if found is None:
                chk.ok('C26-wrap', inst)     # plain Python operator: the generated code wraps by static type
                continue
            k, fdef = found
            wraps = wrapped_classes(fdef)
            narrower = [w for w in wraps if w in order and order[w] < order[out]]
            if narrower and not guarded(fdef):
                chk.bad('C26-wrap', '%s.%s' % (k, d), inst, '%s.%s wraps its result in %s unconditionally although `%s %s %s` is declared %s: operands of the wider class raise at run time'
                        % (k, d, narrower[0], selft, op, rhs, out), classes[k]['file'], fdef.lineno)
            else:
                chk.ok('C26-wrap', inst, sample='%s -> %s.%s wraps in %s' % (inst, k, d, sorted(wraps) or 'nothing'))
    # no Nat instance is ever negative: the guard rule over the dunders of the value-constrained runtime classes (same engine as C02-wrap)
    from sa.props import c02
    chk.rule('C26-guard', 'no runtime dunder of a value-constrained class (Nat, Nat!) narrows a possibly negative result into that class without a guard (shared with C02-wrap)')
    c02.wrap_rules(chk, 'C26-guard')
    operator_rule(chk)
    return ('The declared operator table is extracted from the typed HIR of Context::init_builtin_classes and checked against an abstract (sign / integrality) semantics of Python\'s '
            'arithmetic, and against the wrapper classes applied by the runtime dunder found through the Python MRO (python ast). Numeric agreement with the Python built-ins '
            'for concrete operands is not decided.'), {}


def wrapped_classes(fdef):
    out = set()
    for n in ast.walk(fdef):
        if isinstance(n, ast.Return) and n.value is not None:
            v = n.value
            if isinstance(v, ast.Call) and isinstance(v.func, ast.Name):
                if v.func.id == 'then__' and len(v.args) == 2 and isinstance(v.args[1], ast.Name):
                    out.add(v.args[1].id)
                elif v.func.id[:1].isupper():
                    out.add(v.func.id)
    return out


def guarded(fdef):
    """the narrowing return is under an if that tests `other` or the result (isinstance / comparison)"""
    for n in ast.walk(fdef):
        if isinstance(n, ast.If):
            t = ast.unparse(n.test)
            if 'isinstance' in t or '<' in t or '>' in t:
                return True
    return False
