"""C26  declared operator result classes are sound for Python's arithmetic and agree with the runtime wrappers  (K1 Rust<->Python + sign abstraction)"""
import ast
from sa import facts as F, tree as T
from sa.kinds import optable as OT


def sign_rules(chk, fx, rule_sign, rule_kind=None):
    rows = OT.declared_table(fx)
    nrows = 0
    for (selft, trait, rhs, consts, line) in rows:
        if selft not in OT.NUMERIC or (rhs is not None and rhs not in OT.NUMERIC):
            continue
        for cname, out in consts.items():
            op = OT.OPS.get((trait, cname))
            if op is None or out not in OT.NUMERIC:
                continue
            nrows += 1
            nonint, neg = OT.result(op, selft, rhs)
            oi, olo, ohi = OT.dom(out)
            inst = '%s %s %s -> %s' % (selft, op, rhs or '', out)
            if oi and olo == 0 and neg:
                chk.bad(rule_sign, 'Context::init_builtin_classes', inst,
                        'declared `%s`: the result can be negative for operands of these classes, but the compiled code wraps it in %s, whose constructor raises ValueError' % (inst, out),
                        OT.CLASSES, line)
            else:
                chk.ok(rule_sign, inst, sample='declared %s: sign-sound' % inst)
            if rule_kind is not None:
                if oi and nonint:
                    chk.bad(rule_kind, 'Context::init_builtin_classes', inst,
                            'declared `%s`: Python yields a non-integral value for some operands of these classes, but the result is wrapped in %s (silently truncated)' % (inst, out),
                            OT.CLASSES, line)
                else:
                    chk.ok(rule_kind, inst)
    return nrows


def run(chk):
    fx = F.Facts()
    chk.rule('C26-sign', 'every declared operator impl (Self, Trait(Rhs), Output/PowOutput/ModOutput) of Bool/Nat/Int/Ratio/Float in init_builtin_classes is sound for the sign of '
                         'Python\'s result: Output = Nat only if the result is non-negative for all operands of the declared classes (abstract interpretation over sign intervals)')
    chk.rule('C26-kind', 'Output in {Nat, Int} only if Python\'s result is integral for all operands of the declared classes')
    chk.rule('C26-wrap', 'for every declared numeric impl the runtime class found through the Python MRO wraps the result in a class that is the declared Output or a superclass-compatible '
                         'one: a dunder that wraps in a *narrower* class than declared for its operand classes must guard the narrowing')
    n = sign_rules(chk, fx, 'C26-sign', 'C26-kind')
    chk.floor('declared numeric operator rows', n, 20)
    classes = OT.runtime_classes()
    chk.floor('runtime classes', len(classes), 10)
    for c in ('Nat', 'Int', 'Float', 'Bool', 'Str'):
        chk.need(c in classes, 'runtime class %s not found' % c)
    # wrap agreement
    rows = OT.declared_table(fx)
    order = {c: i for i, c in enumerate(OT.NUMERIC)}
    for (selft, trait, rhs, consts, line) in rows:
        if selft not in ('Nat', 'Int', 'Float', 'Bool') or (rhs is not None and rhs not in OT.NUMERIC):
            continue
        for cname, out in consts.items():
            op = OT.OPS.get((trait, cname))
            if op is None or out not in OT.NUMERIC:
                continue
            d = OT.DUNDER[op]
            found = None
            for k in OT.mro(classes, selft):
                if d in classes[k]['methods']:
                    found = (k, classes[k]['methods'][d])
                    break
            inst = '%s.%s (declared %s)' % (selft, d, out)
            if found is None:
                chk.ok('C26-wrap', inst)     # plain Python operator: the generated code wraps by static type
                continue
            k, fdef = found
            wraps = wrapped_classes(fdef)
            narrower = [w for w in wraps if w in order and order[w] < order[out]]
            if narrower and not guarded(fdef):
                chk.bad('C26-wrap', '%s.%s' % (k, d), inst, '%s.%s wraps its result in %s unconditionally although `%s %s %s` is declared %s: operands of the wider class raise at run time'
                        % (k, d, narrower[0], selft, op, rhs, out), classes[k]['file'], fdef.lineno)
            else:
                chk.ok('C26-wrap', inst, sample='%s -> %s.%s wraps in %s' % (inst, k, d, sorted(wraps) or 'nothing'))
    # no Nat instance is ever negative: the guard rule over the dunders of the value-constrained runtime classes (same engine as C02-wrap)
    from sa.props import c02
    chk.rule('C26-guard', 'no runtime dunder of a value-constrained class (Nat, Nat!) narrows a possibly negative result into that class without a guard (shared with C02-wrap)')
    c02.wrap_rules(chk, 'C26-guard')
    return ('The declared operator table is extracted from the typed HIR of Context::init_builtin_classes and checked against an abstract (sign / integrality) semantics of Python\'s '
            'arithmetic, and against the wrapper classes applied by the runtime dunder found through the Python MRO (python ast). Numeric agreement with the Python built-ins '
            'for concrete operands is not decided.'), {}


def wrapped_classes(fdef):
    out = set()
    for n in ast.walk(fdef):
        if isinstance(n, ast.Return) and n.value is not None:
            v = n.value
            if isinstance(v, ast.Call) and isinstance(v.func, ast.Name):
                if v.func.id == 'then__' and len(v.args) == 2 and isinstance(v.args[1], ast.Name):
                    out.add(v.args[1].id)
                elif v.func.id[:1].isupper():
                    out.add(v.func.id)
    return out


def guarded(fdef):
    """the narrowing return is under an if that tests `other` or the result (isinstance / comparison)"""
    for n in ast.walk(fdef):
        if isinstance(n, ast.If):
            t = ast.unparse(n.test)
            if 'isinstance' in t or '<' in t or '>' in t:
                return True
    return False
