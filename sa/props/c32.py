"""C32  Predicate combinators denote set operations: comparison-atom rows of invert; constant rows of and / or  (K1, three-orderings model)"""
from sa import facts as F, tree as T

FILE = 'crates/erg_compiler/ty/predicate.rs'
SETS = {'Equal': {'='}, 'NotEqual': {'<', '>'}, 'GreaterEqual': {'=', '>'}, 'LessEqual': {'<', '='}}
GENERAL = {'GeneralEqual': 'Equal', 'GeneralNotEqual': 'NotEqual', 'GeneralGreaterEqual': 'GreaterEqual', 'GeneralLessEqual': 'LessEqual'}
ALL = {'<', '=', '>'}


def ctor_sets(fx):
    """denotation (subset of {<,=,>}) of the constructors eq/ne/ge/le/gt/lt, computed from their bodies"""
    out = {}
    pend = {}
    for f in fx.fns(FILE):
        if (f.get('self_ty') or '').split('::')[-1] != 'Predicate':
            continue
        nm = f['path'].rsplit('::', 1)[-1]
        if nm not in ('eq', 'ne', 'ge', 'le', 'gt', 'lt'):
            continue
        b = T.peel(f['body'])
        if b.get('k') == 'Block':
            ss = T.stmts_of(b)
            b = T.peel(ss[0]) if len(ss) == 1 else b
        if b.get('k') == 'Struct' and T.last_seg(b.get('d', '')) in SETS:
            out[nm] = set(SETS[T.last_seg(b['d'])])
        elif b.get('k') == 'Call' and (T.cq(b) or '').endswith('Predicate::and') and len(b['a']) == 2:
            parts = []
            for a in b['a']:
                a = T.peel(a)
                if a.get('k') == 'Call' and (T.cq(a) or '').startswith('Predicate::'):
                    parts.append(T.cq(a).split('::')[-1])
            pend[nm] = ('and', parts)
    for nm, (op, parts) in pend.items():
        if all(p in out for p in parts) and len(parts) == 2:
            out[nm] = out[parts[0]] & out[parts[1]]
    return out


def denote(e, ctors):
    """denotation of the result expression of an invert arm: set or None"""
    e = T.peel(e)
    if e.get('k') == 'Call':
        q = T.cq(e) or ''
        nm = q.split('::')[-1]
        if q.startswith('Predicate::') and nm in ctors:
            return set(ctors[nm])
    if e.get('k') == 'Struct':
        nm = T.last_seg(e.get('d', ''))
        if nm in SETS:
            return set(SETS[nm])
        if nm in GENERAL:
            return set(SETS[GENERAL[nm]])
    return None


def run(chk):
    fx = F.Facts()
    chk.rule('C32-invert', 'Predicate::invert maps every comparison atom (Equal, NotEqual, GreaterEqual, LessEqual and their General* forms) to a predicate denoting the complement set '
                           '(three-orderings model: Equal={=}, NotEqual={<,>}, GreaterEqual={=,>}, LessEqual={<,=}; lt = le & ne, gt = ge & ne are read from the constructors)')
    chk.rule('C32-const', 'Predicate::and / Predicate::or satisfy the Boolean identities on their TRUE / FALSE rows, and the `Equal or GreaterEqual` short-cut of `or` denotes the union')
    ctors = ctor_sets(fx)
    chk.floor('comparison constructors', len(ctors), 6)
    chk.need(ctors.get('lt') == {'<'} and ctors.get('gt') == {'>'}, 'Predicate::lt / gt no longer denote strict comparisons: %s' % {k: sorted(v) for k, v in ctors.items()})
    inv = fx.fn(FILE, 'Predicate::invert')
    ms = [n for n in T.stmts_of(inv['body']) if T.unsemi(n).get('k') == 'Match']
    if not chk.need(len(ms) == 1, 'invert: expected one match'):
        return 'anchor lost', {}
    rows = 0
    for arm in T.unsemi(ms[0])['arms']:
        for v in T.pat_variants(arm['pat']):
            nm = T.last_seg(v)
            base = nm if nm in SETS else GENERAL.get(nm)
            if base is None:
                continue
            rows += 1
            got = denote(arm['b'], ctors)
            want = ALL - SETS[base]
            if got is None:
                chk.lost.append('invert: unrecognised result for %s: %s' % (nm, T.show(arm['b'])))
            elif got == want:
                chk.ok('C32-invert', nm, sample='invert(%s) denotes %s' % (nm, sorted(got)))
            else:
                chk.bad('C32-invert', 'Predicate::invert', nm, 'invert(%s) yields a predicate denoting %s relative to the constant; the complement of %s is %s' %
                        (nm, sorted(got), sorted(SETS[base]), sorted(want)), FILE, arm['l'])
    chk.floor('invert rows', rows, 8)
    # ---- constant rows
    for fname, unit, zero in (('and', True, False), ('or', False, True)):
        f = fx.fn(FILE, 'Predicate::' + fname)
        ms = [n for n in T.stmts_of(f['body']) if T.unsemi(n).get('k') == 'Match']
        if not chk.need(len(ms) == 1, '%s: expected one match' % fname):
            continue
        seen = {}
        for arm in T.unsemi(ms[0])['arms']:
            for alt in (arm['pat']['p'] if arm['pat'].get('k') == 'POr' else [arm['pat']]):
                if alt.get('k') != 'PTuple' or len(alt['p']) != 2:
                    continue
                consts = [bool_const(q) for q in alt['p']]
                for pos, c in enumerate(consts):
                    if c is None:
                        continue
                    other = alt['p'][1 - pos]
                    res = T.peel(arm['b'])
                    key = (pos, c)
                    if key in seen:
                        continue
                    seen[key] = True
                    inst = '%s(%s%s)' % (fname, 'p, ' if pos == 1 else '', str(c).upper()) + (', p)' if pos == 0 else ')')
                    if c == unit:
                        ok = res.get('k') == 'Local' and other.get('k') == 'Bind' and res['n'] == other['n']
                        want = 'p'
                    else:
                        ok = (res.get('k') == 'Path' and T.last_seg(res.get('d', '')) == ('TRUE' if zero else 'FALSE')) or \
                             (res.get('k') == 'Call' and 'Bool' in T.show(res) and T.show(res).endswith('(%s))' % str(zero).lower()))
                        want = str(zero).upper()
                    if ok:
                        chk.ok('C32-const', inst, sample='%s = %s' % (inst, want))
                    else:
                        chk.bad('C32-const', 'Predicate::' + fname, inst, '%s yields `%s`, expected %s' % (inst, T.show(res), want), FILE, arm['l'])
        chk.need(len(seen) == 4, 'Predicate::%s: expected 4 TRUE/FALSE rows, found %d' % (fname, len(seen)))
    # Equal or GreaterEqual short-cut
    f = fx.fn(FILE, 'Predicate::or')
    for arm in T.unsemi([n for n in T.stmts_of(f['body']) if T.unsemi(n).get('k') == 'Match'][0])['arms']:
        p = arm['pat']
        if p.get('k') == 'PTuple' and len(p['p']) == 2 and all(q.get('k') == 'PStruct' for q in p['p']):
            a, b = T.last_seg(p['p'][0]['d']), T.last_seg(p['p'][1]['d'])
            if a in SETS and b in SETS:
                got = denote(arm['b'], ctors)
                g = T.show(arm.get('g') or {})
                same = 'lhs == lhs2' in g and 'rhs == rhs2' in g
                if got is None or not same:
                    chk.undecide('or(%s, %s) short-cut: guard/result not recognised' % (a, b))
                elif got == SETS[a] | SETS[b]:
                    chk.ok('C32-const', 'or(%s,%s)' % (a, b), sample='or(%s c, %s c) denotes %s' % (a, b, sorted(got)))
                else:
                    chk.bad('C32-const', 'Predicate::or', 'or(%s,%s)' % (a, b), 'or(%s c, %s c) yields a predicate denoting %s, the union is %s' % (a, b, sorted(got), sorted(SETS[a] | SETS[b])), FILE, arm['l'])
    return ('Table rule over the resolved arms of Predicate::invert / and / or under the three-orderings model. Nested trees, Or-sets and absorption are not decided.'), {'exhaustive': True}


def bool_const(p):
    """True/False for the pattern Predicate::Value(ValueObj::Bool(true|false))"""
    s = T.show(p)
    if 'Predicate::Value' in s and 'Bool(true)' in s:
        return True
    if 'Predicate::Value' in s and 'Bool(false)' in s:
        return False
    return None
