"""C32  Predicate combinators denote set operations: comparison-atom rows of invert; constant rows of and / or  (K1, three-orderings model)"""
from sa import facts as F, tree as T

FILE = 'crates/erg_compiler/ty/predicate.rs'
SETS = {'Equal': {'='}, 'NotEqual': {'<', '>'}, 'GreaterEqual': {'=', '>'}, 'LessEqual': {'<', '='}}
GENERAL = {'GeneralEqual': 'Equal', 'GeneralNotEqual': 'NotEqual', 'GeneralGreaterEqual': 'GreaterEqual', 'GeneralLessEqual': 'LessEqual'}
ALL = {'<', '=', '>'}


def ctor_sets(fx):
    """denotation (subset of {<,=,>}) of the constructors eq/ne/ge/le/gt/lt, computed from their bodies"""
    out = {}
    pend = {}
    for f in fx.fns(FILE):
        if (f.get('self_ty') or '').split('::')[-1] != 'Predicate':
            continue
        nm = f['path'].rsplit('::', 1)[-1]
        if nm not in ('eq', 'ne', 'ge', 'le', 'gt', 'lt'):
            continue
        b = T.peel(f['body'])
        if b.get('k') == 'Block':
            ss = T.stmts_of(b)
            b = T.peel(ss[0]) if len(ss) == 1 else b
        if b.get('k') == 'Struct' and T.last_seg(b.get('d', '')) in SETS:
            out[nm] = set(SETS[T.last_seg(b['d'])])
        elif b.get('k') == 'Call' and (T.cq(b) or '').endswith('Predicate::and') and len(b['a']) == 2:
            parts = []
            for a in b['a']:
                a = T.peel(a)
                if a.get('k') == 'Call' and (T.cq(a) or '').startswith('Predicate::'):
                    parts.append(T.cq(a).split('::')[-1])
            pend[nm] = ('and', parts)
    for nm, (op, parts) in pend.items():
        if all(p in out for p in parts) and len(parts) == 2:
            out[nm] = out[parts[0]] & out[parts[1]]
    return out


def denote(e, ctors):
    """denotation of the result expression of an invert arm: set or None"""
    e = T.peel(e)
    if e.get('k') == 'Call':
        q = T.cq(e) or ''
        nm = q.split('::')[-1]
        if q.startswith('Predicate::') and nm in ctors:
            return set(ctors[nm])
    if e.get('k') == 'Struct':
        nm = T.last_seg(e.get('d', ''))
        if nm in SETS:
            return set(SETS[nm])
        if nm in GENERAL:
            return set(SETS[GENERAL[nm]])
    # conjunction / disjunction of two denotable results: `a & b` (BitAnd::bitand), `a | b`, Predicate::and / or (the combinators are judged by C32-comb)
    if e.get('k') == 'Binary' and e.get('op') in ('&', '|'):
        a, b = denote(e['x'], ctors), denote(e['y'], ctors)
        if a is not None and b is not None:
            return (a & b) if e['op'] == '&' else (a | b)
    if e.get('k') in ('Call', 'MCall') and T.last_seg(T.callee(e) or e.get('n') or '') in ('bitand', 'bitor', 'and', 'or'):
        args = ([e['r']] if e.get('k') == 'MCall' else []) + list(e.get('a', []))
        if len(args) == 2:
            a, b = denote(args[0], ctors), denote(args[1], ctors)
            if a is not None and b is not None:
                return (a & b) if T.last_seg(T.callee(e) or e.get('n') or '') in ('bitand', 'and') else (a | b)
    if e.get('k') == 'Block' and 'e' in e and not e.get('s'):
        return denote(e['e'], ctors)
    return None


class Opaque(Exception):
    pass


def pat_sem(p, atoms):
    """boolean expression tree of a pattern position: ('atom', name) / ('const', b) / ('and', a, b); raises Opaque for shapes outside the fragment"""
    k = p.get('k')
    if k == 'Bind':
        atoms.add(p['n'])
        return ('atom', p['n'])
    if k == 'Wild':
        raise Opaque('wildcard')
    if k == 'PTupleStruct':
        v = p['d'].split('::')[-1]
        if v == 'And' and len(p['p']) == 2:
            return ('and', pat_sem(p['p'][0], atoms), pat_sem(p['p'][1], atoms))
        if v == 'Value' and len(p['p']) == 1:
            inner = p['p'][0]
            if inner.get('k') == 'PTupleStruct' and inner['d'].split('::')[-1] == 'Bool' and inner['p'] and inner['p'][0].get('k') == 'PLit':
                return ('const', bool(inner['p'][0]['v'].get('bool')))
        if v == 'Or' and len(p['p']) == 1 and p['p'][0].get('k') == 'Bind':
            atoms.add(p['p'][0]['n'])
            return ('atom', p['p'][0]['n'])         # the set as one opaque disjunction
        if v == 'Not' and len(p['p']) == 1:
            return ('not', pat_sem(p['p'][0], atoms))
    raise Opaque(k)


def expr_sem(e, atoms):
    e = T.peel(e)
    k = e.get('k')
    if k == 'Block' and 'e' in e and not e.get('s'):
        return expr_sem(e['e'], atoms)
    if k == 'Local':
        if e['n'] in atoms:
            return ('atom', e['n'])
        raise Opaque('local ' + e['n'])
    if k == 'Binary' and e.get('op') in ('&', '|'):
        return ('and' if e['op'] == '&' else 'or', expr_sem(e['x'], atoms), expr_sem(e['y'], atoms))
    if k == 'Unary' and e.get('op') == '!':
        return ('not', expr_sem(e['x'], atoms))
    if k == 'Path':
        last = T.last_seg(e.get('d') or '')
        if last in ('TRUE', 'FALSE'):
            return ('const', last == 'TRUE')
    if k == 'Call':
        fn = e.get('fn') or ''
        last = T.last_seg(fn)
        if last == 'new' and 'Box' in fn and e['a']:
            return expr_sem(e['a'][0], atoms)
        if last in ('And', 'and') and len(e['a']) == 2:
            return ('and', expr_sem(e['a'][0], atoms), expr_sem(e['a'][1], atoms))
        if last in ('or',) and len(e['a']) == 2:
            return ('or', expr_sem(e['a'][0], atoms), expr_sem(e['a'][1], atoms))
        if last == 'Not' and len(e['a']) == 1:
            return ('not', expr_sem(e['a'][0], atoms))
    if k == 'MCall' and e['n'] in ('clone', 'as_ref', 'to_owned') and not e['a']:
        return expr_sem(e['r'], atoms)
    raise Opaque(T.show(e)[:30])


def evalb(t, asg):
    if t[0] == 'atom':
        return asg[t[1]]
    if t[0] == 'const':
        return t[1]
    if t[0] == 'not':
        return not evalb(t[1], asg)
    a, b = evalb(t[1], asg), evalb(t[2], asg)
    return (a and b) if t[0] == 'and' else (a or b)


def leaves_with_conds(e, conds=()):
    """(value expression, [(cond expr, taken?)]) for every way the arm body can produce its value"""
    e = T.peel(e)
    if e.get('k') == 'Block':
        if e.get('s'):
            return [(None, conds)]          # statements before the value: outside the fragment
        if 'e' in e:
            return leaves_with_conds(e['e'], conds)
        return [(None, conds)]
    if e.get('k') == 'If' and e.get('e') is not None:
        return leaves_with_conds(e['t'], conds + ((e['c'], True),)) + leaves_with_conds(e['e'], conds + ((e['c'], False),))
    return [(e, conds)]


def combinator_rule(chk, fx, rid='C32-comb'):
    import itertools
    chk.rule(rid, 'every arm and branch of Predicate::and / Predicate::or whose pattern and result lie in the propositional fragment (bound sub-predicates, And, Not, TRUE/FALSE, '
                         '`&`, `|`, Box::new) returns a predicate equivalent to the conjunction / disjunction of its two arguments, under the equalities its branch conditions state '
                         '(truth table over the bound names)')
    for fname, op in (('Predicate::and', 'and'), ('Predicate::or', 'or')):
        f = fx.fn(FILE, fname)
        ms = [n for n in T.stmts_of(f['body']) if T.unsemi(n).get('k') == 'Match']
        if not chk.need(len(ms) == 1, '%s: expected one match' % fname):
            continue
        decided = 0
        for ai, arm in enumerate(T.unsemi(ms[0])['arms']):
            alts = arm['pat']['p'] if arm['pat'].get('k') == 'POr' else [arm['pat']]
            for alt in alts:
                if alt.get('k') != 'PTuple' or len(alt['p']) != 2:
                    continue
                atoms = set()
                try:
                    want = (op, pat_sem(alt['p'][0], atoms), pat_sem(alt['p'][1], atoms))
                except Opaque:
                    continue
                if arm.get('g'):
                    continue
                for li, (leaf, conds) in enumerate(leaves_with_conds(arm['b'])):
                    if leaf is None:
                        continue
                    try:
                        got = expr_sem(leaf, atoms)
                    except Opaque:
                        continue
                    # branch conditions: equalities between bound names
                    eqs, opaque_cond = [], False
                    for c, taken in conds:
                        c = T.peel(c)
                        if c.get('k') == 'Binary' and c.get('op') == '==':
                            try:
                                a, b = expr_sem(c['x'], atoms), expr_sem(c['y'], atoms)
                            except Opaque:
                                opaque_cond = True
                                continue
                            if taken:
                                eqs.append((a, b))
                        else:
                            opaque_cond = opaque_cond or taken
                    names = sorted(atoms)
                    bad_asg = None
                    for bits in itertools.product((False, True), repeat=len(names)):
                        asg = dict(zip(names, bits))
                        if any(evalb(a, asg) != evalb(b, asg) for a, b in eqs):
                            continue
                        if evalb(got, asg) != evalb(want, asg):
                            bad_asg = asg
                            break
                    decided += 1
                    inst = '%s:arm%d:%s:%d' % (fname.split('::')[-1], ai, T.show(alt)[:24].replace(' ', ''), li)
                    if bad_asg is None:
                        chk.ok(rid, inst, sample='%s %s => %s%s' % (fname, T.show(alt)[:40], T.show(leaf)[:40], (' when ' + ' and '.join(T.show(c)[:30] for c, t in conds if t)) if any(t for _, t in conds) else ''))
                    else:
                        chk.bad(rid, fname, 'arm%d:leaf%d' % (ai, li), '%s on `%s`%s returns `%s`, which is not the %s of its arguments: for %s the arguments give %s and the result %s '
                                '(a conjunct is dropped / added)' % (fname, T.show(alt)[:50], (' when ' + ' and '.join(T.show(c)[:40] for c, t in conds if t)) if any(t for _, t in conds) else '',
                                                                     T.show(leaf)[:50], 'conjunction' if op == 'and' else 'disjunction',
                                                                     ', '.join('%s=%s' % (k, 'T' if v else 'F') for k, v in bad_asg.items()), evalb(want, bad_asg), evalb(got, bad_asg)),
                                FILE, leaf.get('l') or arm['l'])
        chk.floor('decided branches of %s' % fname, decided, 8 if op == 'and' else 3)


def run(chk):
    fx = F.Facts()
    chk.rule('C32-invert', 'Predicate::invert maps every comparison atom (Equal, NotEqual, GreaterEqual, LessEqual and their General* forms) to a predicate denoting the complement set '
                           '(three-orderings model: Equal={=}, NotEqual={<,>}, GreaterEqual={=,>}, LessEqual={<,=}; lt = le & ne, gt = ge & ne are read from the constructors)')
    chk.rule('C32-const', 'Predicate::and / Predicate::or satisfy the Boolean identities on their TRUE / FALSE rows, and the `Equal or GreaterEqual` short-cut of `or` denotes the union')
    ctors = ctor_sets(fx)
    chk.floor('comparison constructors', len(ctors), 6)
    chk.need(ctors.get('lt') == {'<'} and ctors.get('gt') == {'>'}, 'Predicate::lt / gt no longer denote strict comparisons: %s' % {k: sorted(v) for k, v in ctors.items()})
    inv = fx.fn(FILE, 'Predicate::invert')
    ms = [n for n in T.stmts_of(inv['body']) if T.unsemi(n).get('k') == 'Match']
    if not chk.need(len(ms) == 1, 'invert: expected one match'):
        return 'anchor lost', {}
    rows = 0
    for arm in T.unsemi(ms[0])['arms']:
        for v in T.pat_variants(arm['pat']):
            nm = T.last_seg(v)
            base = nm if nm in SETS else GENERAL.get(nm)
            if base is None:
                continue
            rows += 1
            got = denote(arm['b'], ctors)
            want = ALL - SETS[base]
            if got is None:
                chk.lost.append('invert: unrecognised result for %s: %s' % (nm, T.show(arm['b'])))
            elif got == want:
                chk.ok('C32-invert', nm, sample='invert(%s) denotes %s' % (nm, sorted(got)))
            else:
                chk.bad('C32-invert', 'Predicate::invert', nm, 'invert(%s) yields a predicate denoting %s relative to the constant; the complement of %s is %s' %
                        (nm, sorted(got), sorted(SETS[base]), sorted(want)), FILE, arm['l'])
    chk.floor('invert rows', rows, 8)
    # ---- compound arms of invert: the complement of a conjunction / disjunction depends on every field of its members
    inv = fx.fn(FILE, 'Predicate::invert')
    for m_ in T.walk(inv['body']):
        if m_.get('k') != 'Match':
            continue
        for arm_ in m_['arms']:
            if not any(T.last_seg(v) in ('And', 'Or') for v in T.pat_variants(arm_['pat'])):
                continue
            # every struct sub-pattern reached for this arm (in its own pattern or in a nested match over the bound operands)
            pats = [arm_['pat']] + [a2['pat'] for m2 in T.walk(arm_['b']) if m2.get('k') == 'Match' for a2 in m2['arms']]
            for p_ in pats:
                for q in T.walk(p_):
                    if q.get('k') == 'PStruct' and T.last_seg(q.get('d') or '') in set(SETS) | set(GENERAL):
                        dropped = q.get('rest') or any(fl['p'].get('k') == 'Wild' for fl in q.get('f', []))
                        inst = 'compound:%s:%s' % ('|'.join(sorted(T.last_seg(v) for v in T.pat_variants(arm_['pat']) if T.last_seg(v) in ('And', 'Or'))), T.last_seg(q['d']))
                        if dropped:
                            chk.bad('C32-invert', 'Predicate::invert', inst, 'invert has an arm over a conjunction / disjunction that matches `%s { .. }` without looking at all its fields: the '
                                    'complement it builds ignores a constant — `!(x >= 0 and x != 2)` becomes `x <= 0`, which contains 0 and excludes 2' % T.last_seg(q['d']), FILE, arm_.get('l'))
                        else:
                            chk.ok('C32-invert', (inst, arm_.get('l')))
        break
    # ---- constant rows
    for fname, unit, zero in (('and', True, False), ('or', False, True)):
        f = fx.fn(FILE, 'Predicate::' + fname)
        ms = [n for n in T.stmts_of(f['body']) if T.unsemi(n).get('k') == 'Match']
        if not chk.need(len(ms) == 1, '%s: expected one match' % fname):
            continue
        seen = {}
        for arm in T.unsemi(ms[0])['arms']:
            for alt in (arm['pat']['p'] if arm['pat'].get('k') == 'POr' else [arm['pat']]):
                if alt.get('k') != 'PTuple' or len(alt['p']) != 2:
                    continue
                consts = [bool_const(q) for q in alt['p']]
                for pos, c in enumerate(consts):
                    if c is None:
                        continue
                    other = alt['p'][1 - pos]
                    res = T.peel(arm['b'])
                    key = (pos, c)
                    if key in seen:
                        continue
                    seen[key] = True
                    inst = '%s(%s%s)' % (fname, 'p, ' if pos == 1 else '', str(c).upper()) + (', p)' if pos == 0 else ')')
                    if c == unit:
                        ok = res.get('k') == 'Local' and other.get('k') == 'Bind' and res['n'] == other['n']
                        want = 'p'
                    else:
                        ok = (res.get('k') == 'Path' and T.last_seg(res.get('d', '')) == ('TRUE' if zero else 'FALSE')) or \
                             (res.get('k') == 'Call' and 'Bool' in T.show(res) and T.show(res).endswith('(%s))' % str(zero).lower()))
                        want = str(zero).upper()
                    if ok:
                        chk.ok('C32-const', inst, sample='%s = %s' % (inst, want))
                    else:
                        chk.bad('C32-const', 'Predicate::' + fname, inst, '%s yields `%s`, expected %s' % (inst, T.show(res), want), FILE, arm['l'])
        chk.need(len(seen) == 4, 'Predicate::%s: expected 4 TRUE/FALSE rows, found %d' % (fname, len(seen)))
    # Equal or GreaterEqual short-cut
    f = fx.fn(FILE, 'Predicate::or')
    for arm in T.unsemi([n for n in T.stmts_of(f['body']) if T.unsemi(n).get('k') == 'Match'][0])['arms']:
        p = arm['pat']
        if p.get('k') == 'PTuple' and len(p['p']) == 2 and all(q.get('k') == 'PStruct' for q in p['p']):
            a, b = T.last_seg(p['p'][0]['d']), T.last_seg(p['p'][1]['d'])
            if a in SETS and b in SETS:
                got = denote(arm['b'], ctors)
                g = T.show(arm.get('g') or {})
                same = 'lhs == lhs2' in g and 'rhs == rhs2' in g
                if got is None or not same:
                    chk.undecide('or(%s, %s) short-cut: guard/result not recognised' % (a, b))
                elif got == SETS[a] | SETS[b]:
                    chk.ok('C32-const', 'or(%s,%s)' % (a, b), sample='or(%s c, %s c) denotes %s' % (a, b, sorted(got)))
                else:
                    chk.bad('C32-const', 'Predicate::or', 'or(%s,%s)' % (a, b), 'or(%s c, %s c) yields a predicate denoting %s, the union is %s' % (a, b, sorted(got), sorted(SETS[a] | SETS[b])), FILE, arm['l'])
    combinator_rule(chk, fx)
    return ('Table rule over the resolved arms of Predicate::invert / and / or under the three-orderings model, and a propositional equivalence check of every decidable arm / '
            'branch of Predicate::and and Predicate::or (truth tables over the bound sub-predicates, branch conditions as equalities). Or-sets are opaque atoms.'), {'exhaustive': True}
    return ('Table rule over the resolved arms of Predicate::invert / and / or under the three-orderings model. Nested trees, Or-sets and absorption are not decided.'), {'exhaustive': True}


def bool_const(p):
    """True/False for the pattern Predicate::Value(ValueObj::Bool(true|false))"""
    s = T.show(p)
    if 'Predicate::Value' in s and 'Bool(true)' in s:
        return True
    if 'Predicate::Value' in s and 'Bool(false)' in s:
        return False
    return None
