"""C31  cheap_canonicalize_path never discards leading parent-directory components  (K5/K2)"""
from sa import facts as F, tree as T

FILE = 'crates/erg_common/lib.rs'


def run(chk):
    fx = F.Facts()
    chk.rule('C31-parent', 'in cheap_canonicalize_path the `Component::ParentDir` arm can emit the parent component (a PathBuf::push reachable in the arm): '
                           'an arm that only pops (result ignored) or ignores the component drops leading `..`')
    chk.rule('C31-owner', 'NormalizedPathBuf::new builds its path through cheap_canonicalize_path (so the arm above is the normaliser the property talks about)')
    fn = fx.fn(FILE, 'cheap_canonicalize_path')
    arms = []
    for m in [n for n in T.walk(fn['body']) if n.get('k') == 'Match' and m_src(n) == 'Normal']:
        for arm in m['arms']:
            if any(p.endswith('Component::ParentDir') for p in T.pat_variants(arm['pat'])):
                arms.append(arm)
    if not chk.need(len(arms) == 1, 'cheap_canonicalize_path: expected exactly one Component::ParentDir arm, found %d' % len(arms)):
        return 'anchor lost', {}
    arm = arms[0]
    pushes = [c for c in T.calls(arm['b']) if c.get('k') == 'MCall' and c['n'] == 'push' and (T.cq(c) or '') == 'PathBuf::push']
    pops = [c for c in T.calls(arm['b']) if c.get('k') == 'MCall' and c['n'] == 'pop' and (T.cq(c) or '') == 'PathBuf::pop']
    other_writes = [n for n in T.walk(arm['b']) if n.get('k') in ('Assign', 'AssignOp') or (n.get('k') == 'MCall' and n['n'] in ('push', 'insert', 'push_str', 'extend') and n not in pushes)]
    chk.count('ParentDir arm: push', len(pushes))
    chk.count('ParentDir arm: pop', len(pops))
    if pushes:
        chk.ok('C31-parent', 'ParentDir', sample='ParentDir arm: %s' % T.show(arm['b']))
    elif other_writes:
        chk.lost.append('cheap_canonicalize_path: the ParentDir arm records the component in an unrecognised way (%s)' % T.show(other_writes[0]))
    else:
        chk.bad('C31-parent', 'cheap_canonicalize_path', 'ParentDir', 'the Component::ParentDir arm (`%s`) never pushes the parent component: `../a` normalises to `a`' % T.show(arm['b']),
                FILE, arm['l'])
    # owner
    new = fx.fn('crates/erg_common/pathutil.rs', 'NormalizedPathBuf::new')
    if any((T.cq(c) or '').endswith('cheap_canonicalize_path') for c in T.calls(new['body'])):
        chk.ok('C31-owner', 'NormalizedPathBuf::new', sample='NormalizedPathBuf::new calls cheap_canonicalize_path')
    else:
        chk.lost.append('NormalizedPathBuf::new no longer calls cheap_canonicalize_path')
    return ('Structural rule on the ParentDir arm of erg_common::cheap_canonicalize_path. Decides the clause "never discards leading parent-directory components" '
            'as a necessary condition (some path must push `..`); idempotence is not decided.'), {}


def m_src(n):
    return n.get('src')
