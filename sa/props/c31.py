"""C31  cheap_canonicalize_path never discards leading parent-directory components  (K5/K2)"""
from sa import facts as F, tree as T

FILE = 'crates/erg_common/lib.rs'


def run(chk):
    fx = F.Facts()
    chk.rule('C31-parent', 'in cheap_canonicalize_path the `Component::ParentDir` arm can emit the parent component (a PathBuf::push reachable in the arm): '
                           'an arm that only pops (result ignored) or ignores the component drops leading `..`')
    chk.rule('C31-owner', 'NormalizedPathBuf::new builds its path through cheap_canonicalize_path (so the arm above is the normaliser the property talks about)')
    fn = fx.fn(FILE, 'cheap_canonicalize_path')
    arms = []
    for m in [n for n in T.walk(fn['body']) if n.get('k') == 'Match' and m_src(n) == 'Normal']:
        for arm in m['arms']:
            if any(p.endswith('Component::ParentDir') for p in T.pat_variants(arm['pat'])):
                arms.append(arm)
    if not chk.need(len(arms) >= 1, 'cheap_canonicalize_path: no Component::ParentDir arm found'):
        return 'anchor lost', {}
    if len(arms) > 1:
        return counter_form(chk, fx, fn, arms)
    arm = arms[0]
    pushes = [c for c in T.calls(arm['b']) if c.get('k') == 'MCall' and c['n'] == 'push' and (T.cq(c) or '') == 'PathBuf::push']
    pops = [c for c in T.calls(arm['b']) if c.get('k') == 'MCall' and c['n'] == 'pop' and (T.cq(c) or '') == 'PathBuf::pop']
    other_writes = [n for n in T.walk(arm['b']) if n.get('k') in ('Assign', 'AssignOp') or (n.get('k') == 'MCall' and n['n'] in ('push', 'insert', 'push_str', 'extend') and n not in pushes)]
    chk.count('ParentDir arm: push', len(pushes))
    chk.count('ParentDir arm: pop', len(pops))
    if pushes:
        chk.ok('C31-parent', 'ParentDir', sample='ParentDir arm: %s' % T.show(arm['b']))
    elif other_writes:
        chk.lost.append('cheap_canonicalize_path: the ParentDir arm records the component in an unrecognised way (%s)' % T.show(other_writes[0]))
    else:
        chk.bad('C31-parent', 'cheap_canonicalize_path', 'ParentDir', 'the Component::ParentDir arm (`%s`) never pushes the parent component: `../a` normalises to `a`' % T.show(arm['b']),
                FILE, arm['l'])
    # a pop may cancel only a *normal* component: popping a kept `..` (or relying on pop() of an empty path) merges distinct paths
    chk.rule('C31-pop', 'every PathBuf::pop in the ParentDir arm is reached only when the last accumulated component is Component::Normal '
                        '(match / if-let / matches! on components().next_back()): a catch-all arm would also pop a previously kept `..`')
    COMPONENTS = ['Prefix', 'RootDir', 'CurDir', 'ParentDir', 'Normal']
    for n, ctx in T.walk_ctx(arm['b']):
        if n in pops:
            reach = None
            for c in ctx:
                if c[0] == 'arm' and ('next_back' in T.show(c[1]['x']) or 'last' in T.show(c[1]['x'])):
                    m, a = c[1], c[2]
                    remaining = set(COMPONENTS) | {'None'}
                    for other in m['arms']:
                        got = comp_set(other['pat'], COMPONENTS)
                        if other is a:
                            reach = remaining & got
                            break
                        if 'g' not in other:
                            remaining -= got
                elif c[0] == 'if' and c[2] is True and 'Component::Normal' in T.show(c[1]) and ('next_back' in T.show(c[1]) or 'last' in T.show(c[1])):
                    reach = {'Normal'}
            if reach is None:
                if pushes:
                    chk.lost.append('cheap_canonicalize_path: a pop in the ParentDir arm is guarded in an unrecognised way')
                # (no push at all is already reported by C31-parent)
            elif reach <= {'Normal'}:
                chk.ok('C31-pop', 'pop', sample='pop reached only when the last component is %s' % sorted(reach))
            else:
                chk.bad('C31-pop', 'cheap_canonicalize_path', 'pop:' + '+'.join(sorted(reach)), 'the ParentDir arm pops when the last accumulated component is %s: a kept leading `..` '
                        'is cancelled by the next `..` (`../../m` normalises to `m`)' % ' / '.join(sorted(reach - {'Normal'})), FILE, n['l'])
    # owner
    new = fx.fn('crates/erg_common/pathutil.rs', 'NormalizedPathBuf::new')
    if any((T.cq(c) or '').endswith('cheap_canonicalize_path') for c in T.calls(new['body'])):
        chk.ok('C31-owner', 'NormalizedPathBuf::new', sample='NormalizedPathBuf::new calls cheap_canonicalize_path')
    else:
        chk.lost.append('NormalizedPathBuf::new no longer calls cheap_canonicalize_path')
    root_rule(chk, fx)
    return ('Structural rule on the ParentDir arm of erg_common::cheap_canonicalize_path. Decides the clause "never discards leading parent-directory components" '
            'as a necessary condition (some path must push `..`); idempotence is not decided.'), {}


def counter_form(chk, fx, fn, arms):
    """several guarded ParentDir arms: the guards speak about a counter of accumulated normal components (coupled-state rule)"""
    chk.rule('C31-pop', 'a pop in a ParentDir arm is guarded by `counter > 0` where the counter is the number of accumulated Component::Normal entries: it starts at 0, is incremented '
                        'exactly where a normal component is pushed and decremented exactly where one is popped')
    def pushes_of(b):
        return [c for c in T.calls(b) if c.get('k') == 'MCall' and c['n'] == 'push' and (T.cq(c) or '') == 'PathBuf::push']

    def pops_of(b):
        return [c for c in T.calls(b) if c.get('k') == 'MCall' and c['n'] == 'pop' and (T.cq(c) or '') == 'PathBuf::pop']
    if any(pushes_of(a['b']) for a in arms):
        chk.ok('C31-parent', 'ParentDir', sample='a ParentDir arm pushes the component')
    else:
        chk.bad('C31-parent', 'cheap_canonicalize_path', 'ParentDir', 'no Component::ParentDir arm pushes the parent component: `../a` normalises to `a`', FILE, arms[0]['l'])
    pop_arms = [a for a in arms if pops_of(a['b'])]
    counters = set()
    for a in pop_arms:
        g = a.get('g')
        c = T.peel(g) if g else {}
        if c.get('k') == 'Binary' and c.get('op') in ('>', '!=', '>=') and T.peel(c['x']).get('k') == 'Local' and T.lit_int(T.peel(c['y'])) in (0, 1):
            counters.add(T.peel(c['x'])['n'])
        else:
            chk.lost.append('cheap_canonicalize_path: a popping ParentDir arm is guarded in an unrecognised way (%s)' % (T.show(g)[:60] if g else 'no guard'))
            return 'anchor lost', {}
    if not chk.need(len(counters) == 1, 'cheap_canonicalize_path: popping arms are guarded by %s' % sorted(counters)):
        return 'anchor lost', {}
    cnt = counters.pop()
    # all arms of the component match
    m = [n for n in T.walk(fn['body']) if n.get('k') == 'Match' and n.get('src') == 'Normal' and any(any(p.endswith('Component::ParentDir') for p in T.pat_variants(a['pat'])) for a in n['arms'])][0]
    init = [n for n in T.walk(fn['body']) if n.get('k') == 'Let' and n['pat'].get('n') == cnt]
    if not (len(init) == 1 and T.lit_int(T.peel(init[0]['init'])) == 0):
        chk.bad('C31-pop', 'cheap_canonicalize_path', 'counter-init', 'the component counter `%s` does not start at 0' % cnt, FILE, fn['line'])
    for a in m['arms']:
        vs = [v.split('::')[-1] for v in T.pat_variants(a['pat'])]
        inc = [n for n in T.walk(a['b']) if n.get('k') == 'AssignOp' and T.peel(n['x']).get('n') == cnt and n.get('op') == '+=' and T.lit_int(T.peel(n['y'])) == 1]
        dec = [n for n in T.walk(a['b']) if n.get('k') == 'AssignOp' and T.peel(n['x']).get('n') == cnt and n.get('op') == '-=' and T.lit_int(T.peel(n['y'])) == 1]
        other = [n for n in T.walk(a['b']) if n.get('k') in ('Assign', 'AssignOp') and T.peel(n['x']).get('n') == cnt and n not in inc and n not in dec]
        np_, npop = len(pushes_of(a['b'])), len(pops_of(a['b']))
        inst = '|'.join(vs) + (':guarded' if a.get('g') else '')
        if other:
            chk.bad('C31-pop', 'cheap_canonicalize_path', 'counter-write:' + inst, 'the counter `%s` is written in an unrecognised way in the %s arm' % (cnt, inst), FILE, a['l'])
        elif 'Normal' in vs:
            if np_ == len(inc) == 1 and not dec:
                chk.ok('C31-pop', ('inc', inst))
            else:
                chk.bad('C31-pop', 'cheap_canonicalize_path', 'counter-inc', 'the Normal arm pushes %d component(s) but increments `%s` %d time(s)' % (np_, cnt, len(inc)), FILE, a['l'])
        elif npop:
            if len(dec) == npop and not inc:
                chk.ok('C31-pop', ('dec', inst))
            else:
                chk.bad('C31-pop', 'cheap_canonicalize_path', 'counter-dec', 'the %s arm pops a component but does not decrement `%s`: after `a/..` the counter still says a normal component '
                        'is there, so the next `..` pops a kept `..` or an empty path (`a/../..` normalises to the empty path)' % (inst, cnt), FILE, a['l'])
        else:
            if inc or dec:
                chk.bad('C31-pop', 'cheap_canonicalize_path', 'counter-drift:' + inst, 'the %s arm changes `%s` without pushing or popping a normal component' % (inst, cnt), FILE, a['l'])
            else:
                chk.ok('C31-pop', ('unchanged', inst))
    new = fx.fn('crates/erg_common/pathutil.rs', 'NormalizedPathBuf::new')
    if any((T.cq(c) or '').endswith('cheap_canonicalize_path') for c in T.calls(new['body'])):
        chk.ok('C31-owner', 'NormalizedPathBuf::new', sample='NormalizedPathBuf::new calls cheap_canonicalize_path')
    else:
        chk.lost.append('NormalizedPathBuf::new no longer calls cheap_canonicalize_path')
    return ('Coupled-state rule on the component counter of erg_common::cheap_canonicalize_path (guarded-arm form).'), {}


def m_src(n):
    return n.get('src')


def comp_set(p, comps):
    """set of last-component cases ('None' or a Component variant) an Option<Component> pattern matches"""
    k = p.get('k')
    if k == 'Wild' or (k == 'Bind' and 'sub' not in p):
        return set(comps) | {'None'}
    if k == 'POr':
        s = set()
        for q in p['p']:
            s |= comp_set(q, comps)
        return s
    if k == 'PPath' and p['d'].endswith('::None'):
        return {'None'}
    if k == 'PTupleStruct' and p['d'].endswith('::Some') and p['p']:
        q = p['p'][0]
        return inner_set(q, comps)
    return set()


def inner_set(q, comps):
    k = q.get('k')
    if k == 'Wild' or (k == 'Bind' and 'sub' not in q):
        return set(comps)
    if k == 'POr':
        s = set()
        for x in q['p']:
            s |= inner_set(x, comps)
        return s
    if k in ('PTupleStruct', 'PPath', 'PStruct'):
        nm = q['d'].split('::')[-1]
        return {nm} if nm in comps else set()
    if k == 'PRef':
        return inner_set(q['p'], comps)
    return set()


def root_rule(chk, fx):
    """normalisation must not identify the root with the empty (= current) path"""
    LIB = 'crates/erg_common/lib.rs'
    chk.rule('C31-root', 'normalize_path (the constructor of NormalizedPathBuf) never empties a path: if it trims separators off the end of the text (trim_end_matches / strip_suffix / '
                         'trim_matches / pop with a separator), the function also tests for the result being empty or the path being the bare root — otherwise `/`, `/.`, `/a/..` '
                         'normalise to the empty path and compare equal to `.` and `a/..`')
    fs = [f for f in fx.file(LIB)['fns'] if T.norm(f['path']).endswith('normalize_path')]
    if not chk.need(len(fs) == 1, 'erg_common::normalize_path not found'):
        return
    f = fs[0]
    trims = []
    for c in T.calls(f['body']):
        if c.get('k') == 'MCall' and c['n'] in ('trim_end_matches', 'trim_matches', 'strip_suffix', 'trim_end', 'trim_right_matches', 'truncate', 'pop', 'trim_start_matches') :
            arg = ' '.join(T.show(a) for a in c.get('a', []))
            if c['n'] in ('trim_end', 'pop', 'truncate') or any(w in arg for w in ('SEPARATOR', "'/'", '"/"', "'\\\\'", 'is_separator')):
                trims.append(c)
    if not trims:
        chk.ok('C31-root', 'no-trim', sample='normalize_path does not trim the end of the path text')
        return
    guarded = any(('is_empty' in T.show(i['c']) or 'len()' in T.show(i['c']) or 'has_root' in T.show(i['c']) or 'parent()' in T.show(i['c'])) for i in T.walk(f['body']) if i.get('k') == 'If')
    if guarded:
        chk.ok('C31-root', 'trim-guarded', sample='trailing separators are trimmed under an emptiness / root test')
    else:
        chk.bad('C31-root', 'erg_common::normalize_path', 'root-emptied', 'normalize_path applies `%s` to the text of the path and never tests for an empty result: the bare root `/` (and every '
                'path that cancels to it, `/a/..`) becomes the empty path, which compares and hashes equal to the current directory' % T.show(trims[0])[:60], LIB, trims[0].get('l'))
