"""C31  cheap_canonicalize_path never discards leading parent-directory components  (K5/K2)"""
from sa import facts as F, tree as T

FILE = 'crates/erg_common/lib.rs'


def run(chk):
    fx = F.Facts()
    chk.rule('C31-parent', 'in cheap_canonicalize_path the `Component::ParentDir` arm can emit the parent component (a PathBuf::push reachable in the arm): '
                           'an arm that only pops (result ignored) or ignores the component drops leading `..`')
    chk.rule('C31-owner', 'NormalizedPathBuf::new builds its path through cheap_canonicalize_path (so the arm above is the normaliser the property talks about)')
    fn = fx.fn(FILE, 'cheap_canonicalize_path')
    arms = []
    for m in [n for n in T.walk(fn['body']) if n.get('k') == 'Match' and m_src(n) == 'Normal']:
        for arm in m['arms']:
            if any(p.endswith('Component::ParentDir') for p in T.pat_variants(arm['pat'])):
                arms.append(arm)
    if not chk.need(len(arms) == 1, 'cheap_canonicalize_path: expected exactly one Component::ParentDir arm, found %d' % len(arms)):
        return 'anchor lost', {}
    arm = arms[0]
    pushes = [c for c in T.calls(arm['b']) if c.get('k') == 'MCall' and c['n'] == 'push' and (T.cq(c) or '') == 'PathBuf::push']
    pops = [c for c in T.calls(arm['b']) if c.get('k') == 'MCall' and c['n'] == 'pop' and (T.cq(c) or '') == 'PathBuf::pop']
    other_writes = [n for n in T.walk(arm['b']) if n.get('k') in ('Assign', 'AssignOp') or (n.get('k') == 'MCall' and n['n'] in ('push', 'insert', 'push_str', 'extend') and n not in pushes)]
    chk.count('ParentDir arm: push', len(pushes))
    chk.count('ParentDir arm: pop', len(pops))
    if pushes:
        chk.ok('C31-parent', 'ParentDir', sample='ParentDir arm: %s' % T.show(arm['b']))
    elif other_writes:
        chk.lost.append('cheap_canonicalize_path: the ParentDir arm records the component in an unrecognised way (%s)' % T.show(other_writes[0]))
    else:
        chk.bad('C31-parent', 'cheap_canonicalize_path', 'ParentDir', 'the Component::ParentDir arm (`%s`) never pushes the parent component: `../a` normalises to `a`' % T.show(arm['b']),
                FILE, arm['l'])
    # a pop may cancel only a *normal* component: popping a kept `..` (or relying on pop() of an empty path) merges distinct paths
    chk.rule('C31-pop', 'every PathBuf::pop in the ParentDir arm is reached only when the last accumulated component is Component::Normal '
                        '(match / if-let / matches! on components().next_back()): a catch-all arm would also pop a previously kept `..`')
    COMPONENTS = ['Prefix', 'RootDir', 'CurDir', 'ParentDir', 'Normal']
    for n, ctx in T.walk_ctx(arm['b']):
        if n in pops:
            reach = None
            for c in ctx:
                if c[0] == 'arm' and ('next_back' in T.show(c[1]['x']) or 'last' in T.show(c[1]['x'])):
                    m, a = c[1], c[2]
                    remaining = set(COMPONENTS) | {'None'}
                    for other in m['arms']:
                        got = comp_set(other['pat'], COMPONENTS)
                        if other is a:
                            reach = remaining & got
                            break
                        if 'g' not in other:
                            remaining -= got
                elif c[0] == 'if' and c[2] is True and 'Component::Normal' in T.show(c[1]) and ('next_back' in T.show(c[1]) or 'last' in T.show(c[1])):
                    reach = {'Normal'}
            if reach is None:
                if pushes:
                    chk.lost.append('cheap_canonicalize_path: a pop in the ParentDir arm is guarded in an unrecognised way')
                # (no push at all is already reported by C31-parent)
            elif reach <= {'Normal'}:
                chk.ok('C31-pop', 'pop', sample='pop reached only when the last component is %s' % sorted(reach))
            else:
                chk.bad('C31-pop', 'cheap_canonicalize_path', 'pop:' + '+'.join(sorted(reach)), 'the ParentDir arm pops when the last accumulated component is %s: a kept leading `..` '
                        'is cancelled by the next `..` (`../../m` normalises to `m`)' % ' / '.join(sorted(reach - {'Normal'})), FILE, n['l'])
    # owner
    new = fx.fn('crates/erg_common/pathutil.rs', 'NormalizedPathBuf::new')
    if any((T.cq(c) or '').endswith('cheap_canonicalize_path') for c in T.calls(new['body'])):
        chk.ok('C31-owner', 'NormalizedPathBuf::new', sample='NormalizedPathBuf::new calls cheap_canonicalize_path')
    else:
        chk.lost.append('NormalizedPathBuf::new no longer calls cheap_canonicalize_path')
    return ('Structural rule on the ParentDir arm of erg_common::cheap_canonicalize_path. Decides the clause "never discards leading parent-directory components" '
            'as a necessary condition (some path must push `..`); idempotence is not decided.'), {}


def m_src(n):
    return n.get('src')


def comp_set(p, comps):
    """set of last-component cases ('None' or a Component variant) an Option<Component> pattern matches"""
    k = p.get('k')
    if k == 'Wild' or (k == 'Bind' and 'sub' not in p):
        return set(comps) | {'None'}
    if k == 'POr':
        s = set()
        for q in p['p']:
            s |= comp_set(q, comps)
        return s
    if k == 'PPath' and p['d'].endswith('::None'):
        return {'None'}
    if k == 'PTupleStruct' and p['d'].endswith('::Some') and p['p']:
        q = p['p'][0]
        return inner_set(q, comps)
    return set()


def inner_set(q, comps):
    k = q.get('k')
    if k == 'Wild' or (k == 'Bind' and 'sub' not in q):
        return set(comps)
    if k == 'POr':
        s = set()
        for x in q['p']:
            s |= inner_set(x, comps)
        return s
    if k in ('PTupleStruct', 'PPath', 'PStruct'):
        nm = q['d'].split('::')[-1]
        return {nm} if nm in comps else set()
    if k == 'PRef':
        return inner_set(q['p'], comps)
    return set()
