"""C24  Diagnostics point at the offending construct: token columns are faithful  (shares the column rules of C08)"""
from sa.props import c08


def run(chk):
    c08.PREFIX = 'C24'
    try:
        expl, kw = c08.run(chk, parts=('L2', 'L2b'))
    finally:
        c08.PREFIX = 'C08'
    lines_rule(chk)
    chk.undecide('crash-freedom of rendering: erg_common::error::format_context computes `ln_end - ln_begin` unchecked; it traps only if a Location with ln_end < ln_begin '
                 'is constructible, which is not established statically, so it is not reported')
    return ('A diagnostic location is built from token positions (Location::concat of token locs), so a drifting token column is a drifting caret: the column rules of the lexer '
            '(consumed vs appended characters per escape arm; column arithmetic in characters) decide the clause "locations after string escapes on the same line". '
            'That a location covers the construct it names, and crash-freedom of rendering, are not decided.'), {}


def lines_rule(chk):
    """the renderer and the lexer agree on what a line is"""
    from sa import facts as F, tree as T
    fx = F.Facts()
    IO = 'crates/erg_common/io.rs'
    chk.rule('C24-lines', 'the source lines shown in a diagnostic are counted like the lexer counts them: Lexer::new / Lexer::from_str pass the text through normalize_newline (a lone `\\r` '
                          'is a line break), so every place of Input::reread_lines that splits source text into lines (`.lines()` / `.split(..)`) splits normalized text — otherwise '
                          '`x = 1\\ry = foo` is reported on a line the renderer does not have')
    lexn = 0
    for nm in ('Lexer::new', 'Lexer::from_str'):
        f = fx.fn('crates/erg_parser/lex.rs', nm)
        if any(T.last_seg(T.callee(c) or '') == 'normalize_newline' for c in T.calls(f['body'])):
            lexn += 1
    if not chk.need(lexn == 2, 'Lexer::new / Lexer::from_str no longer call normalize_newline (%d of 2)' % lexn):
        return
    f = fx.fn(IO, 'Input::reread_lines')
    loc = {}
    for n in T.walk(f['body']):
        if n.get('k') == 'Let' and n.get('init') is not None:
            for b in T.walk(n['pat']):
                if b.get('k') == 'Bind':
                    loc[b['id']] = n['init']

    def normalized(e, seen=()):
        for n in T.walk(e):
            if n.get('k') in ('Call', 'MCall') and T.last_seg(T.callee(n) or n.get('n') or '') == 'normalize_newline':
                return True
            if n.get('k') == 'Local' and n.get('id') in loc and n['id'] not in seen and normalized(loc[n['id']], seen + (n['id'],)):
                return True
        return False
    sites = 0
    for c in T.calls(f['body']):
        if c.get('k') == 'MCall' and c['n'] in ('lines', 'split', 'split_terminator', 'split_inclusive'):
            sites += 1
            key = 'split#%d' % sites
            if normalized(c['r']):
                chk.ok('C24-lines', key, sample=T.show(c)[:80])
            else:
                chk.bad('C24-lines', 'Input::reread_lines', key, 'Input::reread_lines splits `%s` into lines without normalize_newline: after a lone carriage return the lexer is one line '
                        'ahead of the renderer, the diagnostic shows an empty or a wrong source line' % T.show(c['r'])[:60], IO, c.get('l'))
    chk.floor('C24 line-splitting sites in reread_lines', sites, 2)
