"""C24  Diagnostics point at the offending construct: token columns are faithful  (shares the column rules of C08)"""
from sa.props import c08


def run(chk):
    c08.PREFIX = 'C24'
    try:
        expl, kw = c08.run(chk, parts=('L2', 'L2b'))
    finally:
        c08.PREFIX = 'C08'
    lines_rule(chk)
    order_rule(chk)
    chk.undecide('crash-freedom of rendering: erg_common::error::format_context computes `ln_end - ln_begin` unchecked; it traps only if a Location with ln_end < ln_begin '
                 'is constructible, which is not established statically, so it is not reported')
    return ('A diagnostic location is built from token positions (Location::concat of token locs), so a drifting token column is a drifting caret: the column rules of the lexer '
            '(consumed vs appended characters per escape arm; column arithmetic in characters) decide the clause "locations after string escapes on the same line". '
            'That a location covers the construct it names, and crash-freedom of rendering, are not decided.'), {}


def lines_rule(chk):
    """the renderer and the lexer agree on what a line is"""
    from sa import facts as F, tree as T
    fx = F.Facts()
    IO = 'crates/erg_common/io.rs'
    chk.rule('C24-lines', 'the source lines shown in a diagnostic are counted like the lexer counts them: Lexer::new / Lexer::from_str pass the text through normalize_newline (a lone `\\r` '
                          'is a line break), so every place of Input::reread_lines that splits source text into lines (`.lines()` / `.split(..)`) splits normalized text — otherwise '
                          '`x = 1\\ry = foo` is reported on a line the renderer does not have')
    lexn = 0
    for nm in ('Lexer::new', 'Lexer::from_str'):
        f = fx.fn('crates/erg_parser/lex.rs', nm)
        if any(T.last_seg(T.callee(c) or '') == 'normalize_newline' for c in T.calls(f['body'])):
            lexn += 1
    if not chk.need(lexn == 2, 'Lexer::new / Lexer::from_str no longer call normalize_newline (%d of 2)' % lexn):
        return
    f = fx.fn(IO, 'Input::reread_lines')
    loc = {}
    for n in T.walk(f['body']):
        if n.get('k') == 'Let' and n.get('init') is not None:
            for b in T.walk(n['pat']):
                if b.get('k') == 'Bind':
                    loc[b['id']] = n['init']

    def normalized(e, seen=()):
        for n in T.walk(e):
            if n.get('k') in ('Call', 'MCall') and T.last_seg(T.callee(n) or n.get('n') or '') == 'normalize_newline':
                return True
            if n.get('k') == 'Local' and n.get('id') in loc and n['id'] not in seen and normalized(loc[n['id']], seen + (n['id'],)):
                return True
        return False
    sites = 0
    for c in T.calls(f['body']):
        if c.get('k') == 'MCall' and c['n'] in ('lines', 'split', 'split_terminator', 'split_inclusive'):
            sites += 1
            key = 'split#%d' % sites
            if normalized(c['r']):
                chk.ok('C24-lines', key, sample=T.show(c)[:80])
            else:
                chk.bad('C24-lines', 'Input::reread_lines', key, 'Input::reread_lines splits `%s` into lines without normalize_newline: after a lone carriage return the lexer is one line '
                        'ahead of the renderer, the diagnostic shows an empty or a wrong source line' % T.show(c['r'])[:60], IO, c.get('l'))
    chk.floor('C24 line-splitting sites in reread_lines', sites, 2)


def order_rule(chk):
    """columns of two different locations are comparable only on one line"""
    from sa import facts as F, tree as T
    fx = F.Facts()
    ERR = 'crates/erg_common/error.rs'
    chk.rule('C24-order', 'in the methods of Location, a comparison between a column of one location and a column of another one stands in a condition that also relates their lines '
                          '(columns of different lines are unrelated numbers): a combined location whose begin / end were chosen by columns alone can end before it begins — '
                          '`line 3..2`, columns from the wrong lines, and format_context subtracts the line numbers unchecked')
    nfn = ncmp = 0

    def classify(e, binds):
        """(location name, 'ln'|'col') of an expression: `x.col_begin()` / a binding of such a scrutinee component"""
        e = T.peel(e)
        if e.get('k') == 'Local' and e.get('id') in binds:
            return binds[e['id']]
        if e.get('k') == 'MCall' and e['n'] in ('unwrap', 'unwrap_or', 'unwrap_or_default'):
            return classify(e['r'], binds)
        if e.get('k') == 'MCall' and e['n'] in ('col_begin', 'col_end', 'ln_begin', 'ln_end'):
            return (T.show(T.peel(e['r'])), 'col' if e['n'].startswith('col') else 'ln')
        return None

    def conj(e):
        e = T.peel(e)
        if e.get('k') == 'Binary' and e['op'] == '&&':
            return conj(e['x']) + conj(e['y'])
        return [e]
    for f in fx.file(ERR)['fns']:
        nm = T.norm(f['path'])
        if not nm.startswith('Location::'):
            continue
        nfn += 1
        # every condition (arm guard / if condition) with the bindings in scope and the conditions that enclose it
        conds = []          # (condition expression, bindings, [enclosing condition expressions])
        for m, ctx in T.walk_ctx(f['body']):
            outer = [c[1] for c in ctx if c[0] == 'if'] + [c[2]['g'] for c in ctx if c[0] == 'arm' and 'g' in c[2]]
            if m.get('k') == 'Match':
                sx = T.peel(m['x'])
                comps = sx['a'] if sx.get('k') == 'Tup' else [sx]
                for arm in m['arms']:
                    binds = {}
                    ps = arm['pat']['p'] if arm['pat'].get('k') == 'PTuple' and len(arm['pat'].get('p', [])) == len(comps) else [arm['pat']]
                    if len(ps) == len(comps):
                        for p_, c_ in zip(ps, comps):
                            cl = classify(c_, {})
                            if cl:
                                for b in T.walk(p_):
                                    if b.get('k') == 'Bind':
                                        binds[b['id']] = cl
                    if 'g' in arm:
                        conds.append((arm['g'], binds, outer))
            if m.get('k') == 'If':
                conds.append((m['c'], {}, outer))

        def relations(e, binds):
            out = []
            for c in T.walk(e):
                if c.get('k') == 'Binary' and c['op'] in ('<', '<=', '>', '>=', '==', '!='):
                    a, b = classify(c['x'], binds), classify(c['y'], binds)
                    if a and b and a[0] != b[0]:
                        out.append((a, b, c))
            return out
        for cond, binds, outer in conds:
            rel = [r for c in conj(cond) for r in relations(c, binds) if r[2] is T.peel(c)]
            around = rel + [r for o in outer for r in relations(o, binds)]
            for a, b, c in rel:
                if a[1] == 'col' and b[1] == 'col':
                    ncmp += 1
                    lines_related = any(x[1] == 'ln' and y[1] == 'ln' and {x[0], y[0]} == {a[0], b[0]} for x, y, _ in around)
                    key = '%s:%s' % (nm, T.norm(T.show(c))[:30])
                    if lines_related:
                        chk.ok('C24-order', key)
                    else:
                        chk.bad('C24-order', nm, 'cols-without-lines:' + T.norm(T.show(c))[:30], '%s decides with `%s` (a column of %s against a column of %s) and never relates their lines: for '
                                'parts on different lines the combined location gets `ln_end < ln_begin`, the header prints `line 3..2` and format_context panics on `ln_end - ln_begin`'
                                % (nm, T.show(c)[:40], a[0], b[0]), ERR, c.get('l'))
    chk.floor('methods of Location', nfn, 5)
    if ncmp == 0:
        chk.ok('C24-order', 'no-cross-location-column-comparison', sample='%d methods of Location: no column of one location is compared with a column of another' % nfn)
