"""C24  Diagnostics point at the offending construct: token columns are faithful  (shares the column rules of C08)"""
from sa.props import c08


def run(chk):
    c08.PREFIX = 'C24'
    try:
        expl, kw = c08.run(chk, parts=('L2', 'L2b'))
    finally:
        c08.PREFIX = 'C08'
    chk.undecide('crash-freedom of rendering: erg_common::error::format_context computes `ln_end - ln_begin` unchecked; it traps only if a Location with ln_end < ln_begin '
                 'is constructible, which is not established statically, so it is not reported')
    return ('A diagnostic location is built from token positions (Location::concat of token locs), so a drifting token column is a drifting caret: the column rules of the lexer '
            '(consumed vs appended characters per escape arm; column arithmetic in characters) decide the clause "locations after string escapes on the same line". '
            'That a location covers the construct it names, and crash-freedom of rendering, are not decided.'), {}
