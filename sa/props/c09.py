"""C09  parser recursion is bounded by a depth guard; the CLI parser runs on the enlarged-stack thread  (K10 + K6)"""
from sa import facts as F, tree as T
from sa.kinds import callgraph as CG

PARSE = 'crates/erg_parser/parse.rs'


def depth_guard(fn):
    """an `if self.<counter> >|>= <const> { ..push ParseError.. return Err }` (or the same through a helper) in fn"""
    for n, ctx in T.walk_ctx(fn['body']):
        if n.get('k') != 'If':
            continue
        c = T.peel(n['c'])
        if c.get('k') == 'Binary' and c['op'] in ('>', '>=', '<', '<='):
            sides = [T.peel(c['x']), T.peel(c['y'])]
            fld = [s for s in sides if (T.field_chain(s) or [''])[0] == 'self' and len(T.field_chain(s) or []) == 2]
            const = [s for s in sides if T.lit_int(s) is not None or (s.get('k') == 'Path' and s.get('dk') in ('Const', 'AssocConst'))]
            if fld and const:
                rets = [r for r in T.walk(n['t']) if r.get('k') == 'Ret']
                errs = [x for x in T.walk(n['t']) if x.get('k') == 'Call' and (x.get('fn') or '').endswith('::Err')]
                if rets and errs:
                    return T.show(c)
    return None


# reviewed numbers of constructs that abort the process when the parse state is not what they assume (file, kind) -> count on the reviewed tree
REVIEWED_CRASH_PATHS = {
    ('parse.rs', 'assert'): 0, ('typespec.rs', 'assert'): 0, ('desugar.rs', 'assert'): 0, ('convert.rs', 'assert'): 2,
    ('parse.rs', 'enum_unwrap'): 20, ('desugar.rs', 'enum_unwrap'): 5, ('typespec.rs', 'enum_unwrap'): 0, ('convert.rs', 'enum_unwrap'): 0,
    ('parse.rs', 'unwrap-of-collection'): 12, ('typespec.rs', 'unwrap-of-collection'): 12, ('convert.rs', 'unwrap-of-collection'): 2, ('desugar.rs', 'unwrap-of-collection'): 6,
}
COLLECTION_TAKES = ('pop', 'pop_front', 'pop_back', 'last', 'first', 'get', 'remove', 'last_mut', 'first_mut', 'next', 'next_back', 'peek')


def crash_path_counts(chk, fx):
    import collections
    chk.rule('C09-paths', 'no new crash path in the parser: the numbers of `assert!` / `assert_eq!` (not debug_assert), `enum_unwrap!` and `.unwrap()` / `.expect()` taken directly from '
                          'pop / pop_front / last / first / get / remove / next / peek in parse.rs, typespec.rs, convert.rs and desugar.rs do not exceed the reviewed counts '
                          '(two such sites were demonstrated to abort on `(x := 1) := 2` and on `a + C::` + block, and repaired)')
    cnt = collections.Counter()
    where = collections.defaultdict(list)
    for file in ('crates/erg_parser/parse.rs', 'crates/erg_parser/typespec.rs', 'crates/erg_parser/convert.rs', 'crates/erg_parser/desugar.rs'):
        short = file.split('/')[-1]
        d = fx.file(file, 'erg_parser')
        for f in d['fns']:
            seen = set()
            for n in T.walk(f['body']):
                m = n.get('m') or []
                if m and m[0] in ('assert', 'assert_eq', 'assert_ne') and (n.get('l'), m[0]) not in seen:
                    seen.add((n.get('l'), m[0]))
                    cnt[(short, 'assert')] += 1
                    where[(short, 'assert')].append((T.norm(f['path']), n.get('l')))
                if m and m[0] == 'enum_unwrap' and (n.get('l'), 'eu') not in seen:
                    seen.add((n.get('l'), 'eu'))
                    cnt[(short, 'enum_unwrap')] += 1
                    where[(short, 'enum_unwrap')].append((T.norm(f['path']), n.get('l')))
                if n.get('k') == 'MCall' and n['n'] in ('unwrap', 'expect') and not n.get('m'):
                    r = T.peel(n['r'])
                    if r.get('k') == 'MCall' and r['n'] in COLLECTION_TAKES:
                        cnt[(short, 'unwrap-of-collection')] += 1
                        where[(short, 'unwrap-of-collection')].append((T.norm(f['path']), n.get('l')))
    chk.floor('crash-path constructs counted in the parser', sum(cnt.values()), 40)
    for key, reviewed in sorted(REVIEWED_CRASH_PATHS.items()):
        got = cnt.get(key, 0)
        if got <= reviewed:
            chk.ok('C09-paths', key, sample='%s: %d %s (reviewed: %d)' % (key[0], got, key[1], reviewed))
        else:
            fns_ = collections.Counter(w for w, _ in where[key])
            chk.bad('C09-paths', key[0], '%s>%d' % (key[1], reviewed), '%s now has %d `%s` sites (reviewed: %d; by function: %s): a parse state the new site does not expect aborts the '
                    'process instead of producing a syntax error' % (key[0], got, key[1], reviewed, ', '.join('%s x%d' % (k, v) for k, v in fns_.most_common(6))), 'crates/erg_parser/' + key[0], None)


def stack_floor(chk, fx):
    from sa.kinds import casts as K
    chk.rule('C09-stack', 'while the parser has no depth guard the stack of the analysis thread is the only bound on nesting: erg_common::spawn::STACK_SIZE is at least the reviewed '
                          '8 MiB in every feature configuration (with it 90 nested parentheses / 45 nested calls parse in a debug build; half of it halves that)')
    SP = 'crates/erg_common/spawn.rs'
    consts = [f for f in fx.fns(SP, 'erg_common') if f.get('dk') == 'Const' and f['path'].endswith('STACK_SIZE')]
    if not chk.need(len(consts) == 1, 'erg_common::spawn::STACK_SIZE not found'):
        return
    vals = []
    body = T.peel(consts[0]['body'])

    def leaves(e):
        e = T.peel(e)
        if e.get('k') == 'If' and e.get('e') is not None:
            return leaves(e['t']) + leaves(e['e'])
        if e.get('k') == 'Block' and 'e' in e and not e.get('s'):
            return leaves(e['e'])
        return [e]
    for lf in leaves(body):
        v = K.const_eval(lf)
        vals.append(v)
    if not chk.need(vals and all(v is not None for v in vals), 'STACK_SIZE: the value could not be evaluated (%s)' % T.show(body)[:60]):
        return
    users = [c for f in fx.fns(SP, 'erg_common') for c in T.walk(f['body']) if c.get('k') == 'MCall' and c['n'] == 'stack_size']
    chk.need(len(users) >= 1, 'spawn.rs: no thread builder uses stack_size')
    if min(vals) >= 8 * 1024 * 1024:
        chk.ok('C09-stack', 'STACK_SIZE', sample='STACK_SIZE = %s bytes' % ' / '.join(str(v) for v in vals))
    else:
        chk.bad('C09-stack', 'erg_common::spawn', 'STACK_SIZE', 'STACK_SIZE is %d bytes in some configuration, below the reviewed 8 MiB: the nesting depth at which `erg --mode parse` '
                'aborts with a stack overflow shrinks in proportion' % min(vals), SP, consts[0]['line'])


def run(chk):
    fx = F.Facts()
    chk.rule('C09-guard', 'every recursive cycle of the parser reachable from Parser::parse that goes through a try_reduce_* function contains a depth guard: a comparison of a '
                          'counter field of Parser with a constant whose exceeding branch reports a ParseError and returns Err')
    chk.rule('C09-thread', 'the command-line entry runs the compiler (hence the parser) through exec_new_thread, i.e. on the thread created with the enlarged STACK_SIZE')
    g, meta = CG.graph(fx, 'erg_parser')
    reach = CG.reachable(g, ['Parser::parse'])
    chk.floor('parser functions reachable from Parser::parse', len(reach), 100)
    comps = [c for c in CG.sccs(g, reach) if any(x.startswith('Parser::try_reduce') for x in c)]
    chk.floor('recursive components through try_reduce_*', len(comps), 1)
    fns = {T.norm(f['path']): f for f in fx.fns(PARSE)}
    for comp in comps:
        guards = {}
        for name in sorted(comp):
            f = fns.get(name)
            if f is None:
                continue
            gd = depth_guard(f)
            if gd:
                guards[name] = gd
        size = len(comp)
        entry = sorted(x for x in comp if x.startswith('Parser::try_reduce'))[:4]
        if guards:
            # every cycle must pass a guarded function: remove guarded nodes and look for remaining cycles
            rest = comp - set(guards)
            left = CG.sccs(g, rest)
            if not left:
                chk.ok('C09-guard', 'scc(%d)' % size, sample='recursive component of %d functions: every cycle passes %s' % (size, sorted(guards)))
            else:
                chk.bad('C09-guard', 'erg_parser::parse', 'unguarded-cycle', 'a recursive cycle of the parser (%s ...) does not pass any depth guard (guards found in %s)'
                        % (sorted(left[0])[:4], sorted(guards)), PARSE, None)
        else:
            chk.bad('C09-guard', 'erg_parser::parse', 'no-depth-guard', 'the mutually recursive parser functions (%d functions, e.g. %s) contain no depth guard: '
                    'nesting depth is bounded only by the thread stack, deep nesting aborts the process' % (size, ', '.join(entry)), PARSE, fns[entry[0]]['line'] if entry and entry[0] in fns else None)
    # ---- thread
    mainf = [f for f in fx.fns('src/main.rs', 'erg-bin') if f['path'].endswith('::main')]
    if chk.need(len(mainf) == 1, 'src/main.rs: main not found'):
        calls = [c for c in T.calls(mainf[0]['body']) if (T.cq(c) or '').endswith('exec_new_thread')]
        if calls:
            chk.ok('C09-thread', 'main', sample='main: exec_new_thread(run, "erg")')
        else:
            chk.bad('C09-thread', 'main', 'no-exec_new_thread', 'main no longer runs the compiler through exec_new_thread: the parser runs on the default (small) main-thread stack',
                    'src/main.rs', mainf[0]['line'])
    sp = fx.fn('crates/erg_common/spawn.rs', 'spawn::exec_new_thread')
    if any(c.get('k') == 'MCall' and c['n'] == 'stack_size' for c in T.calls(sp['body'])):
        chk.ok('C09-thread', 'stack_size', sample='exec_new_thread: Builder::stack_size(STACK_SIZE)')
    else:
        chk.bad('C09-thread', 'spawn::exec_new_thread', 'no-stack_size', 'exec_new_thread no longer sets the enlarged stack size', 'crates/erg_common/spawn.rs', sp['line'])
    eof_rule(chk, fx)
    chk.undecide('panic-freedom of the enum_unwrap!/unwrap sites of the parser on arbitrary token sequences needs invariants of the parse stack: not judged')
    crash_path_counts(chk, fx)
    stack_floor(chk, fx)
    # the lexer runs inside Parser::parse: its value-dependent unwrap
    from sa.props import c08
    lexfns = {T.norm(f['path']): f for f in fx.file(c08.LEX)['fns'] if (f.get('self_ty') or '').split('::')[-1] == 'Lexer'}
    c08.from_u32_rule(chk, lexfns, 'C09-lexchar')
    return ('Strongly connected components of the resolved call graph of erg_parser (calls exported from typed HIR and MIR) reachable from Parser::parse, searched for depth guards; '
            'who-may-call rule for the enlarged-stack thread. Termination and panic-freedom on arbitrary token sequences are not decided.'), {}


def eof_rule(chk, fx):
    """EOF can never be consumed, so a token loop that may go round again from its catch-all arm needs an explicit EOF exit"""
    from sa.kinds import vspec as VS
    chk.rule('C09-eof', 'termination on truncated input: in every statement-level loop of the parser (`loop { match self.peek..() { .. _ => try_reduce_chunk + error recovery } }`) whose catch-all arm can complete without leaving the loop, '
                        'there is an arm for EOF that leaves it (error recovery skips tokens but cannot skip EOF, so without that arm the loop spins forever at end of input)')
    n = 0
    for f in fx.fns(PARSE):
        where = T.norm(f['path'])
        for lp in T.walk(f['body']):
            if lp.get('k') != 'Loop' or lp.get('src') != 'Loop':
                continue
            ms = [m for m in T.stmts_of(lp['b']) if T.unsemi(m).get('k') == 'Match' and 'peek' in T.show(T.unsemi(m)['x'])]
            if len(ms) != 1:
                continue
            m = T.unsemi(ms[0])
            # only loops whose whole body is that match (statement loops)
            if len(T.stmts_of(lp['b'])) != 1:
                continue
            default = None
            eof_arm = None
            for arm in m['arms']:
                pv = T.pat_variants(arm['pat'])
                shown = T.show(arm['pat'])
                if 'EOF' in shown and eof_arm is None:
                    eof_arm = arm
                if (pv == {'_'} or shown in ('Option::Some(_)', '_')) and default is None and 'g' not in arm:
                    default = arm
            if default is None:
                continue
            # statement-level loops only: the catch-all arm parses a chunk and recovers from its errors (next_expr skips tokens up to, but never past, EOF)
            recovering = False
            for mm in T.walk(default['b']):
                if mm.get('k') == 'Match' and mm.get('src') == 'Normal' and any((T.cq(c) or '').endswith('Parser::try_reduce_chunk') for c in T.calls(mm['x'])):
                    for a2 in mm['arms']:
                        if any(v.endswith('::Err') for v in T.pat_variants(a2['pat'])) and VS.MustPass(lambda x: False).ex(a2['b'], False) is not None:
                            recovering = True
                if mm.get('k') == 'If':
                    lcs = [x for x in T.walk(mm['c']) if x.get('k') == 'LetCond' and any((T.cq(c) or '').endswith('Parser::try_reduce_chunk') for c in T.calls(x['init']))]
                    if lcs and any(v.endswith('::Ok') for v in T.pat_variants(lcs[0]['pat'])):
                        if 'e' not in mm or VS.MustPass(lambda x: False).ex(mm['e'], False) is not None:
                            recovering = True
            if not recovering:
                continue
            ip = VS.MustPass(lambda x: False)
            cont = ip.ex(default['b'], False)
            n += 1
            if cont is None:
                chk.ok('C09-eof', (where, lp['l'], 'default leaves the loop'))
                continue
            if eof_arm is not None:
                ip2 = VS.MustPass(lambda x: False)
                if ip2.ex(eof_arm['b'], False) is None:
                    chk.ok('C09-eof', (where, lp['l']), sample='%s: loop with a continuing catch-all arm has `%s => leave`' % (where, T.show(eof_arm['pat'])))
                    continue
            chk.bad('C09-eof', where, 'loop-without-EOF-exit', '%s loops over the token stream with a catch-all arm that can go round again, and has no arm that leaves the loop at EOF: '
                    'a syntax error at the very end of a file makes the parser spin forever' % where, PARSE, lp['l'])
    chk.floor('statement loops with error recovery', n, 2)
