"""C09  parser recursion is bounded by a depth guard; the CLI parser runs on the enlarged-stack thread  (K10 + K6)"""
from sa import facts as F, tree as T
from sa.kinds import callgraph as CG

PARSE = 'crates/erg_parser/parse.rs'


def depth_guard(fn):
    """an `if self.<counter> >|>= <const> { ..push ParseError.. return Err }` (or the same through a helper) in fn"""
    for n, ctx in T.walk_ctx(fn['body']):
        if n.get('k') != 'If':
            continue
        c = T.peel(n['c'])
        if c.get('k') == 'Binary' and c['op'] in ('>', '>=', '<', '<='):
            sides = [T.peel(c['x']), T.peel(c['y'])]
            fld = [s for s in sides if (T.field_chain(s) or [''])[0] == 'self' and len(T.field_chain(s) or []) == 2]
            const = [s for s in sides if T.lit_int(s) is not None or (s.get('k') == 'Path' and s.get('dk') in ('Const', 'AssocConst'))]
            if fld and const:
                rets = [r for r in T.walk(n['t']) if r.get('k') == 'Ret']
                errs = [x for x in T.walk(n['t']) if x.get('k') == 'Call' and (x.get('fn') or '').endswith('::Err')]
                if rets and errs:
                    return T.show(c)
    return None


def run(chk):
    fx = F.Facts()
    chk.rule('C09-guard', 'every recursive cycle of the parser reachable from Parser::parse that goes through a try_reduce_* function contains a depth guard: a comparison of a '
                          'counter field of Parser with a constant whose exceeding branch reports a ParseError and returns Err')
    chk.rule('C09-thread', 'the command-line entry runs the compiler (hence the parser) through exec_new_thread, i.e. on the thread created with the enlarged STACK_SIZE')
    g, meta = CG.graph(fx, 'erg_parser')
    reach = CG.reachable(g, ['Parser::parse'])
    chk.floor('parser functions reachable from Parser::parse', len(reach), 100)
    comps = [c for c in CG.sccs(g, reach) if any(x.startswith('Parser::try_reduce') for x in c)]
    chk.floor('recursive components through try_reduce_*', len(comps), 1)
    fns = {T.norm(f['path']): f for f in fx.fns(PARSE)}
    for comp in comps:
        guards = {}
        for name in sorted(comp):
            f = fns.get(name)
            if f is None:
                continue
            gd = depth_guard(f)
            if gd:
                guards[name] = gd
        size = len(comp)
        entry = sorted(x for x in comp if x.startswith('Parser::try_reduce'))[:4]
        if guards:
            # every cycle must pass a guarded function: remove guarded nodes and look for remaining cycles
            rest = comp - set(guards)
            left = CG.sccs(g, rest)
            if not left:
                chk.ok('C09-guard', 'scc(%d)' % size, sample='recursive component of %d functions: every cycle passes %s' % (size, sorted(guards)))
            else:
                chk.bad('C09-guard', 'erg_parser::parse', 'unguarded-cycle', 'a recursive cycle of the parser (%s ...) does not pass any depth guard (guards found in %s)'
                        % (sorted(left[0])[:4], sorted(guards)), PARSE, None)
        else:
            chk.bad('C09-guard', 'erg_parser::parse', 'no-depth-guard', 'the mutually recursive parser functions (%d functions, e.g. %s) contain no depth guard: '
                    'nesting depth is bounded only by the thread stack, deep nesting aborts the process' % (size, ', '.join(entry)), PARSE, fns[entry[0]]['line'] if entry and entry[0] in fns else None)
    # ---- thread
    mainf = [f for f in fx.fns('src/main.rs', 'erg-bin') if f['path'].endswith('::main')]
    if chk.need(len(mainf) == 1, 'src/main.rs: main not found'):
        calls = [c for c in T.calls(mainf[0]['body']) if (T.cq(c) or '').endswith('exec_new_thread')]
        if calls:
            chk.ok('C09-thread', 'main', sample='main: exec_new_thread(run, "erg")')
        else:
            chk.bad('C09-thread', 'main', 'no-exec_new_thread', 'main no longer runs the compiler through exec_new_thread: the parser runs on the default (small) main-thread stack',
                    'src/main.rs', mainf[0]['line'])
    sp = fx.fn('crates/erg_common/spawn.rs', 'spawn::exec_new_thread')
    if any(c.get('k') == 'MCall' and c['n'] == 'stack_size' for c in T.calls(sp['body'])):
        chk.ok('C09-thread', 'stack_size', sample='exec_new_thread: Builder::stack_size(STACK_SIZE)')
    else:
        chk.bad('C09-thread', 'spawn::exec_new_thread', 'no-stack_size', 'exec_new_thread no longer sets the enlarged stack size', 'crates/erg_common/spawn.rs', sp['line'])
    eof_rule(chk, fx)
    chk.undecide('panic-freedom of the enum_unwrap!/unwrap sites of the parser on arbitrary token sequences needs invariants of the parse stack: not judged')
    return ('Strongly connected components of the resolved call graph of erg_parser (calls exported from typed HIR and MIR) reachable from Parser::parse, searched for depth guards; '
            'who-may-call rule for the enlarged-stack thread. Termination and panic-freedom on arbitrary token sequences are not decided.'), {}


def eof_rule(chk, fx):
    """EOF can never be consumed, so a token loop that may go round again from its catch-all arm needs an explicit EOF exit"""
    from sa.kinds import vspec as VS
    chk.rule('C09-eof', 'termination on truncated input: in every statement-level loop of the parser (`loop { match self.peek..() { .. _ => try_reduce_chunk + error recovery } }`) whose catch-all arm can complete without leaving the loop, '
                        'there is an arm for EOF that leaves it (error recovery skips tokens but cannot skip EOF, so without that arm the loop spins forever at end of input)')
    n = 0
    for f in fx.fns(PARSE):
        where = T.norm(f['path'])
        for lp in T.walk(f['body']):
            if lp.get('k') != 'Loop' or lp.get('src') != 'Loop':
                continue
            ms = [m for m in T.stmts_of(lp['b']) if T.unsemi(m).get('k') == 'Match' and 'peek' in T.show(T.unsemi(m)['x'])]
            if len(ms) != 1:
                continue
            m = T.unsemi(ms[0])
            # only loops whose whole body is that match (statement loops)
            if len(T.stmts_of(lp['b'])) != 1:
                continue
            default = None
            eof_arm = None
            for arm in m['arms']:
                pv = T.pat_variants(arm['pat'])
                shown = T.show(arm['pat'])
                if 'EOF' in shown and eof_arm is None:
                    eof_arm = arm
                if (pv == {'_'} or shown in ('Option::Some(_)', '_')) and default is None and 'g' not in arm:
                    default = arm
            if default is None:
                continue
            # statement-level loops only: the catch-all arm parses a chunk and recovers from its errors (next_expr skips tokens up to, but never past, EOF)
            recovering = False
            for mm in T.walk(default['b']):
                if mm.get('k') == 'Match' and mm.get('src') == 'Normal' and any((T.cq(c) or '').endswith('Parser::try_reduce_chunk') for c in T.calls(mm['x'])):
                    for a2 in mm['arms']:
                        if any(v.endswith('::Err') for v in T.pat_variants(a2['pat'])) and VS.MustPass(lambda x: False).ex(a2['b'], False) is not None:
                            recovering = True
                if mm.get('k') == 'If':
                    lcs = [x for x in T.walk(mm['c']) if x.get('k') == 'LetCond' and any((T.cq(c) or '').endswith('Parser::try_reduce_chunk') for c in T.calls(x['init']))]
                    if lcs and any(v.endswith('::Ok') for v in T.pat_variants(lcs[0]['pat'])):
                        if 'e' not in mm or VS.MustPass(lambda x: False).ex(mm['e'], False) is not None:
                            recovering = True
            if not recovering:
                continue
            ip = VS.MustPass(lambda x: False)
            cont = ip.ex(default['b'], False)
            n += 1
            if cont is None:
                chk.ok('C09-eof', (where, lp['l'], 'default leaves the loop'))
                continue
            if eof_arm is not None:
                ip2 = VS.MustPass(lambda x: False)
                if ip2.ex(eof_arm['b'], False) is None:
                    chk.ok('C09-eof', (where, lp['l']), sample='%s: loop with a continuing catch-all arm has `%s => leave`' % (where, T.show(eof_arm['pat'])))
                    continue
            chk.bad('C09-eof', where, 'loop-without-EOF-exit', '%s loops over the token stream with a catch-all arm that can go round again, and has no arm that leaves the loop at EOF: '
                    'a syntax error at the very end of a file makes the parser spin forever' % where, PARSE, lp['l'])
    chk.floor('statement loops with error recovery', n, 2)
