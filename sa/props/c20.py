"""C20  a module's context is read from the cache only after its analysis thread was joined  (K6 + K2)"""
from sa import facts as F, tree as T
from sa.kinds import vspec as VS, callgraph as CG

INQ = 'crates/erg_compiler/context/inquire.rs'


def run(chk):
    fx = F.Facts()
    chk.rule('C20-R1', 'SharedModuleCache::raw_ref_ctx (the unsynchronised read of a module context) is called only from Context::get_mod_with_path, and there only after '
                       '`if promises().is_registered(path) && !mod_cached(path) { promises().join(path) }` has been passed')
    chk.rule('C20-R2', 'lock discipline: shares C19-R3 (no named lock guard in scope across a join / yield)')
    # who may call
    g, meta = CG.graph(fx, 'erg_compiler')
    callers = sorted(k for k, v in g.items() if any(x.endswith('SharedModuleCache::raw_ref_ctx') for x in v))
    ge, _ = CG.graph(fx, 'els')
    callers += sorted('els:' + k for k, v in ge.items() if any(x.endswith('SharedModuleCache::raw_ref_ctx') for x in v))
    chk.need(len(callers) >= 1, 'no caller of SharedModuleCache::raw_ref_ctx found')
    for c in callers:
        if c == 'Context::get_mod_with_path':
            chk.ok('C20-R1', ('caller', c), sample='raw_ref_ctx called from %s' % c)
        else:
            chk.bad('C20-R1', c, 'caller', '%s reads a module context through raw_ref_ctx without the join protocol of get_mod_with_path' % c, meta.get(c, (None, None))[0], meta.get(c, (None, None))[1])
    f = fx.fn(INQ, 'Context::get_mod_with_path')
    guard_ifs = []
    for n in T.walk(f['body']):
        if n.get('k') == 'If':
            s = T.show(n['c']).replace(' ', '')
            if 'is_registered' in s and '!self.mod_cached' in s:
                joins = [c for c in T.calls(n['t']) if c.get('k') == 'MCall' and c['n'] == 'join' and 'promises' in T.show(c['r'])]
                if joins:
                    guard_ifs.append(n)
    if not chk.need(len(guard_ifs) == 1, 'get_mod_with_path: the `if registered && !cached { join }` statement was not found'):
        return 'anchor lost', {}
    gi = guard_ifs[0]

    def refine(cond, branch, st):
        return True if cond is gi['c'] else None

    def reads(n):
        return n.get('k') in ('MCall', 'Call') and (T.cq(n) or '').endswith('SharedModuleCache::raw_ref_ctx')
    dom = VS.Dominates(lambda n: False, reads, refine)
    bad = dom.run(f)
    chk.floor('raw_ref_ctx reads in get_mod_with_path', dom.good_exits + len(bad), 1)
    for b in bad:
        chk.bad('C20-R1', 'Context::get_mod_with_path', 'read-before-join', 'get_mod_with_path reads the module cache (`%s`) on a path that skipped the join of the analysis thread' % T.show(b)[:60],
                INQ, b['l'])
    if not bad:
        chk.ok('C20-R1', 'get_mod_with_path', sample='%d read(s) of the cache, all after the join protocol' % dom.good_exits)
    from sa.props import c19
    chk.notes.append('C20-R2 is decided by C19-R3 (same engine); run ./check C19')
    return ('Who-may-call rule on the resolved call graph plus a dominance rule in Context::get_mod_with_path. Termination, once-only analysis and cycle handling depend on schedules '
            'and are not decided.'), {}
