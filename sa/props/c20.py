"""C20  a module's context is read from the cache only after its analysis thread was joined  (K6 + K2)"""
from sa import facts as F, tree as T
from sa.kinds import vspec as VS, callgraph as CG

INQ = 'crates/erg_compiler/context/inquire.rs'


BP = 'crates/erg_compiler/build_package.rs'
GR = 'crates/erg_compiler/module/graph.rs'


def _local_arg(n, i=0):
    a = T.peel(n['a'][i]) if len(n.get('a', [])) > i else {}
    while a.get('k') == 'MCall' and a.get('n') in ('clone', 'to_path_buf'):
        a = T.peel(a['r'])
    return a.get('n') if a.get('k') == 'Local' else None


def disjuncts(c):
    """the operands of a pure `||` tree (a single condition is its own only disjunct); the condition being false makes each of them false"""
    c = T.peel(c)
    if c.get('k') == 'Binary' and c.get('op') == '||':
        return disjuncts(c['x']) + disjuncts(c['y'])
    return [c]


def acyclic_rules(chk, fx, rid):
    chk.rule(rid, 'the module graph is acyclic by construction: a dependency edge is added (Node::push_dep / depends_on.insert of a new key) only in ModuleGraph::inc_ref, '
                       'after `referrer == depends_on` returned and `deep_depends_on(depends_on, referrer)` returned Err; the build loop relies on it to terminate')
    # --- R5
    g, meta = CG.graph(fx, 'erg_compiler')
    writers = []
    for f in fx.fns(GR):
        nm = T.norm(f['path'])
        for n in T.walk(f['body']):
            if n.get('k') == 'MCall' and n['n'] == 'push_dep':
                writers.append((nm, n))
    chk.floor('push_dep sites', len(writers), 1)
    inc = fx.fn(GR, 'ModuleGraph::inc_ref')
    for nm, n in writers:
        if nm != 'ModuleGraph::inc_ref':
            chk.bad(rid, nm, 'edge-writer', '%s adds a dependency edge without the cycle test of ModuleGraph::inc_ref' % nm, GR, n['l'])
    if chk.need(inc is not None, 'ModuleGraph::inc_ref not found'):
        tests = {}
        weakened = {}
        for n in T.walk(inc['body']):
            if n.get('k') == 'If' and any(r.get('k') == 'Ret' for r in T.walk(n['t'])):
                cs = T.show(n['c']).replace(' ', '')
                ds = disjuncts(n['c'])
                if 'deep_depends_on' in cs:
                    if any(T.peel(x_).get('k') == 'MCall' and T.peel(x_)['n'] == 'deep_depends_on' for x_ in ds):
                        tests['cycle'] = n
                    else:
                        weakened['cycle'] = n
                elif '==' in cs and 'referrer' in cs and 'depends_on' in cs:
                    if any(T.peel(x_).get('k') == 'Binary' and T.peel(x_)['op'] == '==' for x_ in ds):
                        tests['self'] = n
                    else:
                        weakened['self'] = n
        for key, n in weakened.items():
            chk.bad(rid, 'ModuleGraph::inc_ref', 'weakened-%s-test' % key, 'the %s test of inc_ref is only one conjunct of `%s`: when another conjunct is false the edge is added '
                    'without the test, so a cyclic edge can enter the graph' % (key, T.show(n['c'])[:90]), GR, n['l'])
            tests.setdefault(key, n)
        for key in ('cycle', 'self'):
            if key not in tests and writers:
                chk.bad(rid, 'ModuleGraph::inc_ref', 'no-%s-test' % key, 'inc_ref adds a dependency edge without %s' % (
                    'testing whether the new dependency already reaches the referrer (deep_depends_on): a cyclic edge enters the graph and the build loop does not end' if key == 'cycle'
                    else 'setting aside `referrer == depends_on`: a self-import becomes a self-edge'), GR, inc['line'])
        if set(tests) == {'cycle', 'self'}:
            cyc = tests['cycle']
            c = [x for x in T.calls(cyc['c']) if x.get('k') == 'MCall' and x['n'] == 'deep_depends_on'][0]
            a0, a1 = _local_arg(c, 0), _local_arg(c, 1)
            errs = [r for r in T.walk(cyc['t']) if r.get('k') == 'Ret' and 'Err' in T.show(r.get('x') or {})]
            if (a0, a1) == ('depends_on', 'referrer') and errs:
                chk.ok(rid, 'cycle-test', sample='inc_ref: if self.deep_depends_on(&depends_on, referrer) { return Err(CycleDetected) }')
            else:
                chk.bad(rid, 'ModuleGraph::inc_ref', 'cycle-test', 'the cycle test of inc_ref is `%s` (expected: the new dependency already reaches the referrer -> Err)'
                        % T.show(cyc['c'])[:100], GR, cyc['l'])
            state = {'n': 0}

            def acts5(n):
                return n.get('k') == 'MCall' and n['n'] == 'push_dep'

            def refine5(cond, branch, st):
                if cond is cyc['c']:
                    return ((not branch) and st is not False) if st is not None else None
                return None
            # both tests must have been passed (false) before push_dep: run twice
            for key in ('cycle', 'self'):
                tn = tests[key]

                def refine_k(cond, branch, st, tn=tn):
                    if cond is tn['c']:
                        return (not branch) or st
                    return None
                dom = VS.Dominates(lambda n: False, acts5, refine_k)
                bad = dom.run(inc)
                for b in bad:
                    chk.bad(rid, 'ModuleGraph::inc_ref', 'edge-before-%s-test' % key, 'inc_ref adds the edge on a path that skipped the %s test' % key, GR, b['l'])
                if not bad and dom.good_exits:
                    chk.ok(rid, ('dominates', key))
    # R5b: the reachability test itself is transitive
    dd = fx.fn(GR, 'ModuleGraph::deep_depends_on_')
    if chk.need(dd is not None, 'ModuleGraph::deep_depends_on_ not found'):
        rec = [c for c in T.calls(dd['body']) if c.get('k') == 'MCall' and c['n'] == 'deep_depends_on_']
        anys = [c for c in T.calls(dd['body']) if c.get('k') == 'MCall' and c['n'] == 'any' and 'depends_on' in T.show(T.peel(c['r']))
                and any(x is r for r in rec for a in c['a'] for x in T.walk(a))]
        direct = [c for c in T.calls(dd['body']) if c.get('k') == 'MCall' and c['n'] == 'contains' and 'depends_on' in T.show(T.peel(c['r'])) and _local_arg(c) == 'target']
        ors = [n for n in T.walk(dd['body']) if n.get('k') == 'Binary' and n.get('op') in ('||', 'Or') and direct and anys
               and any(x is direct[0] for x in T.walk(n)) and any(x is anys[0] for x in T.walk(n))]
        same_target = rec and all(_local_arg(r, 1) == 'target' for r in rec)
        if rec and anys and direct and ors and same_target:
            chk.ok(rid, 'transitive', sample='deep_depends_on_: depends_on.contains(target) || depends_on.iter().any(|p| self.deep_depends_on_(p, target, visited))')
        else:
            chk.bad(rid, 'ModuleGraph::deep_depends_on_', 'transitive', 'deep_depends_on_ is no longer `direct dependency || some dependency reaches the target` '
                    '(recursive calls %d, under any(): %d, direct test: %d, joined by ||: %d): cycles longer than the test sees enter the graph'
                    % (len(rec), len(anys), len(direct), len(ors)), GR, dd['line'])


class _Only:
    """forwards only the obligations of one rule (used to share a rule with another property under another id)"""

    def __init__(self, chk, src, dst):
        self.chk, self.src, self.dst = chk, src, dst
        self.analysed = {}
        self.notes = []
        self.lost = chk.lost

    def rule(self, rid, text):
        if rid == self.src:
            self.chk.rule(self.dst, text)

    def ok(self, rid, inst, sample=None):
        if rid == self.src:
            self.chk.ok(self.dst, inst, sample=sample)

    def bad(self, rid, where, inst, msg, file=None, line=None, detail=None):
        if rid == self.src:
            self.chk.bad(self.dst, where, inst, msg, file, line)

    def need(self, cond, msg):
        return self.chk.need(cond, msg)

    def floor(self, name, n, minimum):
        if n < minimum:
            self.chk.floor(name, n, minimum)

    def count(self, name, n=1):
        pass


def edge_rule_as(chk, fx, rid):
    import_rules(_Only(chk, 'C20-R8', rid), fx)


def import_rules(chk, fx):
    chk.rule('C20-R3', 'each module is resolved once: in PackageBuilder::register the source of a module X is parsed (self.parse(&X)) and entered into self.asts only on paths where '
                       '`X == from_path || self.inlines.contains_key(&X) || self.asts.contains_key(&X)` was false (for the imported module and for its package root)')
    chk.rule('C20-R4', 'import cycles end the descent: the imported module is parsed / resolved only after `graph.inc_ref(&from_path, X)` succeeded, its Err edge returning a ResolveError')
    chk.rule('C20-R7', 'every import of a module is registered: PackageBuilder::resolve and check_import accumulate the errors of their sub-scans and have no `?`, `return` or '
                       '`break` that would skip the remaining chunks / arguments')
    chk.rule('C20-R6', 'each module is analysed once and every waiter is released: build_deps_and_module starts an analysis only with the entry it *removed* from self.asts, removes the '
                       'node from the graph in the same branch, and every way out of start_analysis_process registers a promise (insert / mark_as_joined / build_decl_mod) or is '
                       'the already-registered shortcut')
    reg = fx.fn(BP, 'GenericPackageBuilder::register')
    if not chk.need(reg is not None, 'PackageBuilder::register not found'):
        return
    # --- R3 / R4
    seen_tests = {}
    seen_locals = {}          # `let registered = X == from_path || inlines.contains_key(&X) || asts.contains_key(&X);`
    for n in T.walk(reg['body']):
        if n.get('k') == 'Let' and n.get('init') is not None and n['pat'].get('k') == 'Bind':
            keys = [c for c in T.calls(n['init']) if c.get('k') == 'MCall' and c['n'] == 'contains_key' and T.show(T.peel(c['r'])).split('.')[-1] in ('asts', 'inlines')]
            if keys and _local_arg(keys[0]):
                seen_locals[n['pat']['n']] = (n['init'], _local_arg(keys[0]))
    for n in T.walk(reg['body']):
        if n.get('k') == 'If':
            keys = [c for c in T.calls(n['c']) if c.get('k') == 'MCall' and c['n'] == 'contains_key' and T.show(T.peel(c['r'])).split('.')[-1] in ('asts', 'inlines')]
            if keys and _local_arg(keys[0]):
                seen_tests[_local_arg(keys[0])] = n
            else:
                c = T.peel(n['c'])
                neg = False
                if c.get('k') == 'Unary' and c.get('op') == '!':
                    c, neg = T.peel(c['x']), True
                if c.get('k') == 'Local' and c['n'] in seen_locals:
                    init, X = seen_locals[c['n']]
                    # normalise to the form `if <seen> { .. } else { .. }`
                    seen_tests[X] = {'k': 'If', 'c': init, 't': n.get('e') or {'k': 'Block', 's': []}, 'e': n['t'], 'l': n['l'], '_orig': n, '_neg': True} if neg else dict(n, c=init)
    chk.floor('seen-tests in PackageBuilder::register', len(seen_tests), 2)
    for X, test in sorted(seen_tests.items()):
        ds = [T.show(x).replace(' ', '') for x in disjuncts(test['c'])]
        complete = any('inlines.contains_key' in x_ and '&&' not in x_ for x_ in ds) and any('asts.contains_key' in x_ and '&&' not in x_ for x_ in ds) \
            and any('==' in x_ and 'from_path' in x_ and '&&' not in x_ for x_ in ds)

        def acts(n, X=X):
            if n.get('k') != 'MCall':
                return False
            if n['n'] == 'parse' and T.show(T.peel(n['r'])) == 'self' and _local_arg(n) == X:
                return True
            if n['n'] == 'insert' and T.show(T.peel(n['r'])).endswith('asts') and _local_arg(n) == X:
                return True
            return False

        def refine(cond, branch, st, test=test):
            orig = test.get('_orig')
            if orig is not None and cond is orig['c']:
                # `if !seen { A }`: the then-branch is the not-seen path
                return branch or st
            if cond is test['c']:
                return (not branch) or st
            return None
        dom = VS.Dominates(lambda n: False, acts, refine)
        bad = dom.run(reg)
        if not chk.need(dom.good_exits + len(bad) >= 2, 'register: parse(&%s) / asts.insert(%s, ..) not found' % (X, X)):
            continue
        for b in bad:
            chk.bad('C20-R3', 'GenericPackageBuilder::register', 'unseen:%s:%s' % (X, b['n']), 'register: `%s` runs on a path where %s may already have been resolved (seen-test skipped): '
                    'the module is analysed twice, or the descent does not end on a diamond' % (T.show(b)[:50], X), BP, b['l'])
        if not bad:
            chk.ok('C20-R3', ('guarded', X), sample='parse(&%s) and asts.insert(%s, ..) only after the seen-test was false' % (X, X))
        if complete:
            chk.ok('C20-R3', ('test', X))
        else:
            chk.bad('C20-R3', 'GenericPackageBuilder::register', 'seen-test:%s' % X, 'the seen-test for %s no longer covers `== from_path`, `inlines` and `asts`: `%s`' % (X, T.show(test['c'])[:120]),
                    BP, test['l'])
    # R4: for the imported module (the X whose inc_ref result is inspected)
    edge_ifs = []
    for n in T.walk(reg['body']):
        if n.get('k') == 'If':
            lc = [x for x in T.walk(n['c']) if x.get('k') == 'LetCond']
            incs = [c for c in T.calls(n['c']) if c.get('k') == 'MCall' and c['n'] == 'inc_ref']
            if lc and incs and any(v.endswith('::Err') for v in T.pat_variants(lc[0]['pat'])):
                rets = [r for r in T.walk(n['t']) if r.get('k') == 'Ret']
                if rets and _local_arg(incs[0], 1) in seen_tests:
                    edge_ifs.append((n, _local_arg(incs[0], 1)))
    if chk.need(len(edge_ifs) == 1, 'register: `if let Err(..) = graph.inc_ref(&from_path, X) { return Err(..) }` not found'):
        eif, X = edge_ifs[0]

        def acts4(n):
            return n.get('k') == 'MCall' and n['n'] in ('parse',) and T.show(T.peel(n['r'])) == 'self' and _local_arg(n) == X

        def refine4(cond, branch, st):
            if cond is eif['c']:
                return (not branch) or st
            return None
        dom = VS.Dominates(lambda n: False, acts4, refine4)
        bad = dom.run(reg)
        chk.need(dom.good_exits + len(bad) >= 1, 'register: parse(&%s) not found' % X)
        for b in bad:
            chk.bad('C20-R4', 'GenericPackageBuilder::register', 'descent-before-cycle-test', 'register parses / resolves %s before `inc_ref(&from_path, %s)` has refused a cyclic edge: '
                    'an import cycle is followed without end' % (X, X), BP, b['l'])
        if not bad:
            chk.ok('C20-R4', X, sample='inc_ref(&from_path, %s) is tested before parse(&%s)' % (X, X))
    # --- R8: the dependency edge of an import does not depend on who imported the module first
    chk.rule('C20-R8', 'every importer records its own dependency edge: in PackageBuilder::register the call `graph.inc_ref(&from_path, X)` is not under the seen-test for X (the test '
                       'says whether X was already *parsed*, by whoever came first); an importer without the edge is neither ordered after X nor joined with it, so whether its checks '
                       'see X depends on the thread schedule')
    for X, test in sorted(seen_tests.items()):
        incs = [c for c in T.calls(reg['body']) if c.get('k') == 'MCall' and c['n'] == 'inc_ref' and _local_arg(c, 1) == X]
        if not chk.need(incs, 'register: no inc_ref(&from_path, %s)' % X):
            continue
        orig = test.get('_orig', test)
        inside = [c for c in incs if any(x is c for x in T.walk(orig['t'])) or (orig.get('e') is not None and any(x is c for x in T.walk(orig['e'])))]
        if inside:
            chk.bad('C20-R8', 'PackageBuilder::register', 'edge-under-seen-test:%s' % X, 'the dependency edge from_path -> %s is recorded only on one branch of the seen-test: a second importer '
                    'of the same module gets no edge, is not ordered after it and does not join it (its diagnostics then depend on the schedule)' % X, BP, inside[0]['l'])
        else:
            chk.ok('C20-R8', X, sample='inc_ref(&from_path, %s) outside the seen-test' % X)
    # --- R9: "joined" means "its context is in the cache"
    chk.rule('C20-R9', 'a module is marked as joined only after its analysis has registered it in a module cache: every `promises.mark_as_joined(P)` of build_package.rs is preceded, in '
                       'the same function, by the registration (`cache.register(..)`, a call of the `run` closure that registers, or build_decl_mod) — a waiter that sees "joined" reads '
                       'the cache at once')
    njoin = 0
    for f in fx.fns(BP):
        nm = T.norm(f['path'])
        marks = [c for c in T.calls(f['body']) if c.get('k') == 'MCall' and c['n'] == 'mark_as_joined']
        for mk in marks:
            njoin += 1
            before = [c for c in T.calls(f['body']) if c.get('l', 0) <= mk.get('l', 0) and c is not mk and (
                (c.get('k') == 'MCall' and c['n'] == 'register' and 'cache' in T.show(T.peel(c['r']))) or
                (c.get('k') == 'Call' and T.peel(c.get('f') or {}).get('k') == 'Local' and T.peel(c['f']).get('n') == 'run') or
                (c.get('k') == 'Call' and (T.show(c)[:4] == 'run(')))]
            if before:
                chk.ok('C20-R9', (nm, mk.get('l')), sample='%s: registered before mark_as_joined' % nm)
            else:
                chk.bad('C20-R9', nm, 'joined-before-registered', '%s marks a module as joined without having registered it in the module cache: a thread waiting for that module goes on and '
                        'finds no such module (a cyclic pair a <-> b plus a third importer of b fails with "Module(b.er) object has no attribute x" in 5 of 8 runs)' % nm, BP, mk.get('l'))
    chk.floor('mark_as_joined sites in build_package.rs', njoin, 3)
    acyclic_rules(chk, fx, 'C20-R5')
    # --- R7: the import scan does not stop at the first error
    for fname in ('GenericPackageBuilder::resolve', 'GenericPackageBuilder::check_import'):
        f = fx.fn(BP, fname)
        if not chk.need(f is not None, '%s not found' % fname):
            continue
        exits = []
        for n in T.walk(f['body']):
            if n.get('k') == 'Match' and n.get('src') == 'Try':
                exits.append(('?', n))
            elif n.get('k') == 'Ret':
                exits.append(('return', n))
            elif n.get('k') == 'Break':
                exits.append(('break', n))
        # the `break` of a desugared `for` (None arm of the iterator match) is not an early exit
        desugar = set()
        for n in T.walk(f['body']):
            if n.get('k') == 'Match' and n.get('src') == 'ForLoopDesugar':
                for a in n['arms']:
                    if 'None' in [v.split('::')[-1] for v in T.pat_variants(a['pat'])]:
                        for x in T.walk(a['b']):
                            if x.get('k') == 'Break':
                                desugar.add(id(x))
        in_try = {id(x) for w, n in exits if w == '?' for x in T.walk(n) if x.get('k') == 'Ret'}
        exits = [(w, n) for w, n in exits if id(n) not in desugar and id(n) not in in_try]
        scans = [c for c in T.calls(f['body']) if c.get('k') == 'MCall' and c['n'] in ('check_import', 'register')]
        chk.floor('import-scan calls in %s' % fname.split('::')[-1], len(scans), 1 if fname.endswith('resolve') else 15)
        if exits:
            for w, n in exits:
                chk.bad('C20-R7', fname, 'early-exit:%s' % w, '%s leaves the scan of a module\'s imports with `%s`: the imports after the first failing one (an import that closes a cycle) '
                        'are never registered, so their modules are not analysed and their public names are missing' % (fname.split('::')[-1], w), BP, n.get('l'))
        else:
            chk.ok('C20-R7', fname, sample='%s: %d scan calls, errors accumulated, no early exit' % (fname.split('::')[-1], len(scans)))
    # --- R6
    bd = fx.fn(BP, 'GenericPackageBuilder::build_deps_and_module')
    sap = fx.fn(BP, 'GenericPackageBuilder::start_analysis_process')
    if chk.need(bd is not None and sap is not None, 'build_deps_and_module / start_analysis_process not found'):
        starts = [c for c in T.calls(bd['body']) if c.get('k') == 'MCall' and c['n'] == 'start_analysis_process']
        chk.floor('start_analysis_process calls in build_deps_and_module', len(starts), 1)
        for n, ctx in T.walk_ctx(bd['body']):
            if n in starts or any(n is s for s in starts):
                via_remove, removed_node = False, False
                for c in ctx:
                    if c[0] == 'if':
                        cond = c[1]
                        lc = [x for x in T.walk(cond) if x.get('k') == 'LetCond']
                        rm = [x for x in T.calls(cond) if x.get('k') == 'MCall' and x['n'] == 'remove' and T.show(T.peel(x['r'])).endswith('asts')]
                        if lc and rm and c[2] is True:
                            bound = set(T.pat_bindings(lc[0]['pat'])) if hasattr(T, 'pat_bindings') else set()
                            used = {x.get('n') for a in n['a'] for x in T.walk(a) if x.get('k') == 'Local'}
                            names = {b if isinstance(b, str) else b.get('n') for b in bound}
                            if names & used:
                                via_remove = True
                # the enclosing parentless-branch must remove the node from the graph
                for c in ctx:
                    if c[0] == 'if' and c[2] is True and 'parents' in T.show(c[1]):
                        pass
                if via_remove:
                    chk.ok('C20-R6', 'entry-removed', sample='start_analysis_process(entry.ast, ..) with `if let Some(entry) = self.asts.remove(&ancestor)`')
                else:
                    chk.bad('C20-R6', 'GenericPackageBuilder::build_deps_and_module', 'entry-not-removed', 'an analysis is started with an entry that was not removed from self.asts: '
                            'the module can be analysed again', BP, n['l'])
        # graph.remove(&ancestor) in the branch that processes a parentless ancestor
        done = False
        for n in T.walk(bd['body']):
            if n.get('k') == 'If' and 'parents' in T.show(n['c']):
                first_calls = [c for c in T.calls(n['t']) if c.get('k') == 'MCall' and c['n'] == 'remove' and T.show(T.peel(c['r'])) == 'graph']
                has_start = any(c.get('k') == 'MCall' and c['n'] == 'start_analysis_process' for c in T.calls(n['t']))
                if has_start:
                    done = True
                    if first_calls:
                        chk.ok('C20-R6', 'node-removed', sample='graph.remove(&ancestor) in the branch that builds a parentless ancestor')
                    else:
                        chk.bad('C20-R6', 'GenericPackageBuilder::build_deps_and_module', 'node-not-removed', 'the branch that builds an ancestor without pending parents does not remove it '
                                'from the graph: its dependents never become buildable and the loop does not end', BP, n['l'])
        chk.need(done, 'build_deps_and_module: the `parents(..).is_none_or(empty)` branch was not found')
        # exits of start_analysis_process

        def promise(n):
            if n.get('k') != 'MCall':
                return False
            if n['n'] in ('insert', 'mark_as_joined') and 'promises' in T.show(T.peel(n['r'])):
                return True
            return n['n'] == 'build_decl_mod'
        shortcut = [n for n in T.walk(sap['body']) if n.get('k') == 'If' and 'mod_registered' in T.show(n['c'])]

        def refine6(cond, branch, st):
            if shortcut and cond is shortcut[0]['c'] and branch:
                return True
            return None
        class MP(VS.MustPass):
            def refine(self, cond, branch, st):
                r = refine6(cond, branch, st)
                return st if r is None else r
        out = MP(promise).run_fn(sap, False)
        if out is None or out is True:
            chk.ok('C20-R6', 'promise-on-every-exit', sample='every exit of start_analysis_process passes promises.insert / mark_as_joined / build_decl_mod (or is the mod_registered shortcut)')
        else:
            chk.bad('C20-R6', 'GenericPackageBuilder::start_analysis_process', 'exit-without-promise', 'start_analysis_process can return without registering a promise for the module: '
                    'a module that imports it waits for ever', BP, sap['line'])


def run(chk):
    fx = F.Facts()
    chk.rule('C20-R1', 'SharedModuleCache::raw_ref_ctx (the unsynchronised read of a module context) is called only from Context::get_mod_with_path, and there only after '
                       '`if promises().is_registered(path) && !mod_cached(path) { promises().join(path) }` has been passed')
    chk.rule('C20-R2', 'lock discipline: shares C19-R3 (no named lock guard in scope across a join / yield)')
    # who may call
    g, meta = CG.graph(fx, 'erg_compiler')
    callers = sorted(k for k, v in g.items() if any(x.endswith('SharedModuleCache::raw_ref_ctx') for x in v))
    ge, _ = CG.graph(fx, 'els')
    callers += sorted('els:' + k for k, v in ge.items() if any(x.endswith('SharedModuleCache::raw_ref_ctx') for x in v))
    chk.need(len(callers) >= 1, 'no caller of SharedModuleCache::raw_ref_ctx found')
    for c in callers:
        if c == 'Context::get_mod_with_path':
            chk.ok('C20-R1', ('caller', c), sample='raw_ref_ctx called from %s' % c)
        else:
            chk.bad('C20-R1', c, 'caller', '%s reads a module context through raw_ref_ctx without the join protocol of get_mod_with_path' % c, meta.get(c, (None, None))[0], meta.get(c, (None, None))[1])
    f = fx.fn(INQ, 'Context::get_mod_with_path')
    guard_ifs = []
    for n in T.walk(f['body']):
        if n.get('k') == 'If':
            s = T.show(n['c']).replace(' ', '')
            if 'is_registered' in s and '!self.mod_cached' in s:
                joins = [c for c in T.calls(n['t']) if c.get('k') == 'MCall' and c['n'] == 'join' and 'promises' in T.show(c['r'])]
                if joins:
                    guard_ifs.append(n)
    if not chk.need(len(guard_ifs) == 1, 'get_mod_with_path: the `if registered && !cached { join }` statement was not found'):
        return 'anchor lost', {}
    gi = guard_ifs[0]

    def refine(cond, branch, st):
        return True if cond is gi['c'] else None

    def reads(n):
        return n.get('k') in ('MCall', 'Call') and (T.cq(n) or '').endswith('SharedModuleCache::raw_ref_ctx')
    dom = VS.Dominates(lambda n: False, reads, refine)
    bad = dom.run(f)
    chk.floor('raw_ref_ctx reads in get_mod_with_path', dom.good_exits + len(bad), 1)
    for b in bad:
        chk.bad('C20-R1', 'Context::get_mod_with_path', 'read-before-join', 'get_mod_with_path reads the module cache (`%s`) on a path that skipped the join of the analysis thread' % T.show(b)[:60],
                INQ, b['l'])
    if not bad:
        chk.ok('C20-R1', 'get_mod_with_path', sample='%d read(s) of the cache, all after the join protocol' % dom.good_exits)
    import_rules(chk, fx)
    from sa.props import c19
    chk.notes.append('C20-R2 is decided by C19-R3 (same engine); run ./check C19')
    linker_rule(chk, fx)
    return ('Who-may-call rule on the resolved call graph plus a dominance rule in Context::get_mod_with_path. Termination, once-only analysis and cycle handling depend on schedules '
            'and are not decided.'), {}


def linker_rule(chk, fx):
    """the linker inlines every imported module as `%v_hir_linker_N = module(..)`: one counter for the whole link, or two modules get one Python object"""
    LINK = 'crates/erg_compiler/link_hir.rs'
    chk.rule('C20-R10', 'every imported module gets its own module object when the modules are linked into one program: a HIRLinker made for a nested import (HIRLinker::inherit, and any '
                        'other constructor of HIRLinker called from a method of HIRLinker) takes the fresh-name generator of its parent (`self.fresh_gen.clone()`, a shared counter); a new '
                        'generator restarts at `%v_hir_linker_1`, so a module imported from main and one imported from inside another module become one Python module (one `__dict__`)')
    n = 0
    for f in fx.file(LINK)['fns']:
        nm = T.norm(f['path'])
        if not nm.startswith('HIRLinker::'):
            continue
        has_self = any(p_.get('n') == 'self' for p_ in (f.get('params') or []))
        for st in T.walk(f['body']):
            if st.get('k') == 'Struct' and (T.last_seg(st.get('d') or '') in ('HIRLinker', 'Self') or (st.get('d') or '').startswith('SelfTyAlias')):
                for fld in st.get('f', []):
                    if fld.get('n') == 'fresh_gen':
                        n += 1
                        src = T.show(fld['x'])
                        shared = 'self.fresh_gen' in src.replace(' ', '')
                        if not has_self:
                            chk.ok('C20-R10', (nm, 'root'), sample='%s (no parent): %s' % (nm, src[:50]))
                        elif shared:
                            chk.ok('C20-R10', (nm, 'child'), sample='%s: fresh_gen: %s' % (nm, src[:50]))
                        else:
                            chk.bad('C20-R10', nm, 'own-generator', '%s builds a HIRLinker for a nested module with `fresh_gen: %s` instead of the generator of its parent: module objects '
                                    'of different nesting levels get the same name `%%v_hir_linker_N`, and importers read another module\'s bindings (`c.x` prints the value b assigned)'
                                    % (nm, src[:50]), LINK, st.get('l'))
    chk.floor('constructions of HIRLinker', n, 2)
