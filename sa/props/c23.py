"""C23  The ownership checker visits every use position  (K4 visitor completeness)"""
from sa import facts as F, tree as T
from sa.kinds import visit_run as VR, exceptions as X
from sa.props.c22 import COLL, TSPEC

FILE = 'crates/erg_compiler/ownercheck.rs'
EXCEPTIONS = {
    ('neutral-default', 'Expr::Import'): ('Import is produced only by HIRLinker (after the ownership check)', X.only_built_after_checks('hir::Expr::Import')),
    ('neutral-default', 'Expr::Dummy'): ('Dummy replaces an expression already reported as an error; its payload is empty or dead', None),
    ('neutral-default', 'Expr::Code'): ('Code is produced only by HIRLinker (after the ownership check)', X.only_built_after_checks('hir::Expr::Code')),
    ('neutral-default', 'Expr::Compound'): ('the parser never produces ast::Expr::Compound (it is only re-built by the desugarer)', X.rebuilt_only('erg_parser', 'ast::Expr::Compound')),
    ('panicking-arm', 'Dict::Comprehension => (catch-all) todo!()'): ('hir::Dict::Comprehension is never constructed', X.never_constructed('erg_compiler', 'hir::Dict::Comprehension')),
    ('panicking-arm', 'List::Comprehension => (catch-all) todo!()'): ('hir::List::Comprehension is never constructed', X.never_constructed('erg_compiler', 'hir::List::Comprehension')),
    ('unvisited-field', 'NormalList.elems.var_args'): (COLL, None), ('unvisited-field', 'NormalList.elems.kw_args'): (COLL, None),
    ('unvisited-field', 'NormalList.elems.kw_var'): (COLL, None),
    ('unvisited-field', 'NormalTuple.elems.var_args'): (COLL, None), ('unvisited-field', 'NormalTuple.elems.kw_args'): (COLL, None),
    ('unvisited-field', 'NormalTuple.elems.kw_var'): (COLL, None),
    ('unvisited-field', 'NormalSet.elems.var_args'): (COLL, None), ('unvisited-field', 'NormalSet.elems.kw_args'): (COLL, None),
    ('unvisited-field', 'NormalSet.elems.kw_var'): (COLL, None),
    ('unvisited-field', 'TypeAscription.spec.expr'): (TSPEC, None),
    ('unvisited-field', 'PatchDef.sig'): ('a patch signature is a variable signature (no parameters, no default values)', None),
    ('unvisited-field', 'ClassDef.sig'): ('a class signature is a variable signature (no parameters, no default values)', None),
    ('neutral-default', 'Expr::ReDef'): ('attribute re-definition: no accepted program using a moved value on its right-hand side unnoticed was found', None),
}
EXCEPTIONS[('unvisited-field', 'Def.sig')] = ('parameter names are registered (define_param); defaults / type specs: as for Lambda.params', None)
PARAMS = ('parameter type specs are compile-time only; a default value naming a mutable object is rejected ("cannot access a mutable object") in functions, '
          'no accepted program using a moved value there was found')
for _p in ('non_defaults', 'var_params', 'defaults', 'kw_var_params', 'guards'):
    EXCEPTIONS[('unvisited-field', 'Lambda.params.' + _p)] = (PARAMS, None)
    EXCEPTIONS[('unvisited-field', 'Params.' + _p)] = (PARAMS, None)
EXCEPTIONS = {k: v for k, v in EXCEPTIONS.items() if v}


def run(chk):
    fx = F.Facts()
    chk.rule('C23-K4', 'OwnershipChecker::check_expr reaches every hir::Expr-bearing field of every hir::Expr variant (in particular the receiver Call.obj and '
                       'Args.var_args/kw_var): a use position that is never visited can use a moved value unnoticed')
    fn, tg, tr = VR.run_traversal(fx, FILE, 'OwnershipChecker::check_expr', 'expr', VR.empty_block)
    chk.floor('Expr variants with children', len(tg.variants_with_children('hir::Expr')), 15)
    X.apply(chk, fx, tr, FILE, 'C23-K4', EXCEPTIONS)
    shadow_rule(chk, fx, fn)
    use_rule(chk, fx)
    scope_rule(chk, fx, fn)
    forget_rule(chk, fx)
    args_rules(chk, fx, fn)
    return ('Visitor-completeness over OwnershipChecker::check_expr (same engine as C22). Decides "every use position is visited"; '
            'which positions move a value and scoping are not decided.'), {}


def forget_rule(chk, fx):
    chk.rule('C23-forget', 'a recorded move is never forgotten: the only operation that changes a `dropped_vars` map is the insert in OwnershipChecker::drop — no remove / clear / retain / '
                           'take / re-assignment elsewhere; a helper that erases the record of an outer variable when an inner parameter or local re-uses its name makes every later use '
                           'of the moved outer variable acceptable')
    MUT = {'remove', 'clear', 'retain', 'drain', 'take', 'pop', 'swap_remove', 'linear_remove', 'remove_entry', 'extend', 'insert', 'entry', 'get_mut', 'iter_mut', 'values_mut'}
    nsite = 0
    bad = 0
    for f in fx.file(FILE)['fns']:
        nm = T.norm(f['path'])
        for c in T.calls(f['body']):
            if c.get('k') == 'MCall' and c['n'] in MUT and T.show(T.peel(c['r'])).endswith('dropped_vars'):
                nsite += 1
                if c['n'] == 'insert' and nm == 'OwnershipChecker::drop':
                    chk.ok('C23-forget', (nm, 'insert'), sample='OwnershipChecker::drop: dropped_vars.insert(..)')
                else:
                    bad += 1
                    chk.bad('C23-forget', nm, 'dropped_vars.%s' % c['n'], '%s calls dropped_vars.%s(..): a move recorded for a variable can disappear, so a later use of the moved variable '
                            'is accepted (`w = v`, then a subroutine with a parameter named `v`, then `print! v`)' % (nm, c['n']), FILE, c.get('l'))
        for a in T.walk(f['body']):
            if a.get('k') in ('Assign', 'AssignOp') and T.show(a['x']).endswith('dropped_vars'):
                nsite += 1
                chk.bad('C23-forget', nm, 'dropped_vars:=', '%s assigns to dropped_vars: recorded moves are replaced' % nm, FILE, a.get('l'))
    chk.floor('C23 operations on dropped_vars', nsite, 1)


def scope_rule(chk, fx, fn):
    chk.rule('C23-params', 'every scope the ownership checker opens for a subroutine knows the parameters of that subroutine: the Lambda arm of check_expr defines the same parameter '
                           'groups (non-default, *args, default, **kwargs) as the Def arm — OwnershipChecker::drop panics on a variable no scope knows, so moving a lambda parameter '
                           'crashed the checker')
    counts = {}
    for m in T.walk(fn['body']):
        if m.get('k') != 'Match':
            continue
        for arm in m['arms']:
            vs = [v.split('::')[-1] for v in T.pat_variants(arm['pat']) if '::Expr::' in v]
            for v in vs:
                if v in ('Def', 'Lambda') and v not in counts:
                    opens = any(c.get('k') == 'MCall' and c['n'] == 'push' and 'path_stack' in T.show(T.peel(c['r'])) for c in T.calls(arm['b']))
                    counts[v] = (len([c for c in T.calls(arm['b']) if c.get('k') == 'MCall' and c['n'] == 'define_param']), opens, arm['l'])
    if not chk.need('Def' in counts and 'Lambda' in counts, 'check_expr: the Def / Lambda arms were not found'):
        return
    d, l = counts['Def'], counts['Lambda']
    if l[1] and l[0] < d[0]:
        chk.bad('C23-params', 'OwnershipChecker::check_expr', 'lambda-params', 'the Lambda arm opens a scope and defines %d parameter group(s) in it, the Def arm %d: a lambda parameter that is '
                'moved (`for! xs, x =>` with `w = x`) is unknown to every scope and OwnershipChecker::drop panics' % (l[0], d[0]), FILE, l[2])
    else:
        chk.ok('C23-params', 'Lambda', sample='Lambda arm: %d define_param call(s), Def arm: %d' % (l[0], d[0]))


def _arm_of(fn, variant):
    for m in T.walk(fn['body']):
        if m.get('k') == 'Match':
            for arm in m['arms']:
                if any(v.endswith('::Expr::' + variant) for v in T.pat_variants(arm['pat'])):
                    return arm
    return None


def _locals(body):
    """binding id -> initialiser of every `let pat = ..` in the subtree (tuple patterns: each binding -> the whole initialiser)"""
    out = {}
    for n in T.walk(body):
        if n.get('k') == 'Let' and n.get('init') is not None:
            for b in T.walk(n['pat']):
                if b.get('k') == 'Bind':
                    out[b['id']] = n['init']
    return out


def _derivation(expr, loc, seen=None):
    """text of the expression with every local replaced (transitively) by its initialiser"""
    seen = seen or set()
    txt = T.show(expr)
    for n in T.walk(expr):
        if n.get('k') == 'Local' and n.get('id') in loc and n['id'] not in seen:
            txt += ' <- ' + n['n'] + ' = ' + _derivation(loc[n['id']], loc, seen | {n['id']})
    return txt


def args_rules(chk, fx, fn):
    chk.rule('C23-self', 'in the Call arm of check_expr the ownership list that the positional arguments are zipped with leaves out the receiver when the call is a method call '
                         '(its derivation tests is_method_call): otherwise every argument gets the ownership of the parameter before it, `c.take! v` moves nothing')
    chk.rule('C23-kw', 'keyword arguments are matched by name: every loop of the Call arm over (a part of) call.args.kw_args visits its element on every branch and is not zipped with '
                       'a positional list (a zip stops at the shorter list: `take! v:=a` was never visited)')
    chk.rule('C23-tail', 'check_block checks the value of a block (its last expression) with chunk = false whatever the length of the block: a call of check_expr with chunk = false '
                         'that is reached only when `len() == 1` leaves the tail of longer blocks unmoved')
    chk.rule('C23-owned', 'Ownership::Owned (passing moves the argument) is produced for a parameter type only under an is_mut_type() test, in SubrType::args_ownership and Type::ownership: '
                          'an argument for a parameter of immutable type (`*args: Obj`) is not moved')
    arm = _arm_of(fn, 'Call')
    if chk.need(arm is not None, 'check_expr: no arm for Expr::Call'):
        loc = _locals(arm['b'])
        loops = [m for m in T.walk(arm['b']) if m.get('k') == 'Match' and m.get('src') == 'ForLoopDesugar']
        loops = list({id(m): m for m in loops}.values())
        chk.floor('C23 loops over the arguments of a call', len(loops), 3)
        # --- C23-self
        zl = []
        for m in loops:
            d = _derivation(m['x'], loc)
            if 'args.pos_args' in d:
                z = [c for c in T.calls(m['x']) if c.get('k') == 'MCall' and c['n'] == 'zip']
                if z:
                    zl.append((m, z[0]))
        if chk.need(zl, 'Call arm: no zip of the positional arguments with an ownership list'):
            m, z = zl[0]
            d = _derivation(z['a'][0], loc)
            if 'is_method_call' in d:
                chk.ok('C23-self', 'zip', sample=d[:160])
            else:
                chk.bad('C23-self', 'OwnershipChecker::check_expr', 'self-not-skipped', 'the positional arguments are zipped with `%s`, which does not depend on is_method_call(): for a method '
                        'call the list starts with the ownership of `self`, so the n-th argument gets the ownership of parameter n-1 (`c.take! v; print! v` gives no MoveError)'
                        % T.show(z['a'][0])[:80], FILE, m.get('l'))
        # --- C23-kw
        kwl = []
        for m in loops:
            d = _derivation(m['x'], loc)
            if 'args.kw_args' in d:
                kwl.append(m)
        if chk.need(kwl, 'Call arm: no loop over the keyword arguments'):
            for m in kwl:
                src = T.show(m['x'])
                zipped = any(c.get('k') == 'MCall' and c['n'] in ('zip', 'take', 'skip', 'filter', 'take_while', 'skip_while', 'step_by') for c in T.calls(m['x']))
                body = {'body': m['arms'][0]['b']} if len(m['arms']) == 1 else {'body': m}
                from sa.kinds import vspec as VS
                lp = [n for n in T.walk(m) if n.get('k') == 'Loop']
                visits = False
                if lp:
                    somearm = [a for mm in T.walk(lp[0]) if mm.get('k') == 'Match' for a in mm['arms'] if any('Some' in v for v in T.pat_variants(a['pat']))]
                    if somearm:
                        visits = VS.must_pass({'body': somearm[0]['b']}, lambda n: n.get('k') == 'MCall' and n['n'] == 'check_expr')
                key = 'kw-loop:' + T.norm(src)[:60]
                if zipped:
                    chk.bad('C23-kw', 'OwnershipChecker::check_expr', key, 'a loop over keyword arguments (`%s`) is zipped / truncated: keyword arguments beyond the other list are never '
                            'visited (`take! v:=a` neither moves `a` nor notices that it was moved)' % src[:90], FILE, m.get('l'))
                elif not visits:
                    chk.bad('C23-kw', 'OwnershipChecker::check_expr', key, 'the loop over keyword arguments `%s` has a branch that does not call check_expr' % src[:90], FILE, m.get('l'))
                else:
                    chk.ok('C23-kw', key, sample=src[:100])
    # --- C23-tail
    cb = fx.fn(FILE, 'OwnershipChecker::check_block')
    ce = []
    for n, ctx in T.walk_ctx(cb['body']):
        if n.get('k') == 'MCall' and n['n'] == 'check_expr' and len(n['a']) == 3:
            flag = T.peel(n['a'][2])
            lit = flag.get('v') if flag.get('k') == 'Lit' else None
            only_single = any(c[0] == 'if' and 'len()' in T.show(c[1]) and '== 1' in T.show(c[1]) for c in ctx)
            ce.append((lit, only_single, n))
    if chk.need(ce, 'check_block: no call of check_expr'):
        good = any(lit is None for lit, _, _ in ce) or any(str(lit) == 'false' and not single for lit, single, _ in ce)
        if good:
            chk.ok('C23-tail', 'check_block', sample='; '.join(T.show(n['a'][2]) for _, _, n in ce))
        else:
            chk.bad('C23-tail', 'OwnershipChecker::check_block', 'tail-as-chunk', 'check_block passes chunk = false only when the block has one expression; in a longer block the last '
                    'expression is checked as a chunk and is not moved: `q2 = (print! "x"; q)` followed by `print! q` gives no MoveError', FILE, cb.get('l'))
    # --- C23-owned
    TY = 'crates/erg_compiler/ty/mod.rs'
    for name in ('SubrType::args_ownership', 'Type::ownership'):
        f = fx.fn(TY, name)
        sites = []
        for n, ctx in T.walk_ctx(f['body']):
            if n.get('k') == 'Path' and T.show(n).endswith('Ownership::Owned'):
                guarded = False
                for c in ctx:
                    if c[0] == 'if' and 'is_mut_type' in T.show(c[1]):
                        guarded = True
                    if c[0] == 'arm' and c[2].get('g') is not None and 'is_mut_type' in T.show(c[2]['g']):
                        guarded = True
                sites.append((guarded, n))
        if name == 'SubrType::args_ownership':
            chk.floor('C23 Owned sites in args_ownership', len(sites), 2)
        for i, (g, n) in enumerate(sites):
            if g:
                chk.ok('C23-owned', '%s#%d' % (name, i))
            else:
                chk.bad('C23-owned', name, 'owned-unguarded#%d' % i, '%s answers Ownership::Owned without testing is_mut_type(): a mutable object passed for a parameter of immutable type '
                        '(`p! *args: Obj`) is moved and its later use is rejected' % name, TY, n.get('l'))


def use_rule(chk, fx):
    """every identifier use is looked up among the moved values, whatever the ownership of the position it stands in"""
    from sa.kinds import vspec as VS
    chk.rule('C23-use', 'OwnershipChecker::check_acc passes every identifier use through check_if_dropped on every path: the look-up is not inside a branch on the `ownership` of the '
                        'position (Owned / Ref / RefMut), a by-mutable-reference use of a moved value is a use after move all the same')
    f = fx.fn(FILE, 'OwnershipChecker::check_acc')
    arm = None
    for m in T.walk(f['body']):
        if m.get('k') == 'Match':
            for a in m['arms']:
                if any(v.endswith('Accessor::Ident') for v in T.pat_variants(a['pat'])):
                    arm = a
    if not chk.need(arm is not None, 'check_acc: no arm for Accessor::Ident'):
        return
    calls = [c for c in T.calls(arm['b']) if c.get('k') == 'MCall' and c['n'] == 'check_if_dropped']
    if not calls:
        chk.bad('C23-use', 'OwnershipChecker::check_acc', 'no-lookup', 'the Ident arm of check_acc never calls check_if_dropped', FILE, arm['l'])
        return
    cond_on_ownership = False
    for n, ctx in T.walk_ctx(arm['b']):
        if any(n is c for c in calls):
            for c in ctx:
                if c[0] == 'if' and 'ownership' in T.show(c[1]):
                    cond_on_ownership = True
                if c[0] == 'arm' and 'ownership' in T.show(c[1]['x']):
                    cond_on_ownership = True
    body_fn = {'body': arm['b']}
    always = VS.must_pass(body_fn, lambda n: n.get('k') == 'MCall' and n['n'] == 'check_if_dropped')
    if always and not cond_on_ownership:
        chk.ok('C23-use', 'Ident', sample='check_acc/Ident: check_if_dropped on every path')
    else:
        chk.bad('C23-use', 'OwnershipChecker::check_acc', 'conditional-lookup', 'the Ident arm of check_acc calls check_if_dropped only %s: an identifier in a position of the other '
                'ownership kinds (e.g. an argument for a RefMut parameter) is not looked up among the moved values, so `w = v; append! v, 2` is accepted'
                % ('under a test of `ownership`' if cond_on_ownership else 'on some paths'), FILE, arm['l'])


def shadow_rule(chk, fx, check_expr_fn):
    """two cooperating sites: a lookup that lets a live variable of a nearer scope shadow a moved one is sound only if a definition becomes
    alive *after* its own initializer was checked (otherwise `v = f v` inside a nested scope reads the moved outer `v` unnoticed)"""
    chk.rule('C23-shadow', 'OwnershipChecker::check_if_dropped reports a moved variable found in *any* enclosing scope; if it lets a live variable of a nearer scope end the search '
                           '(an Ok exit conditioned on alive_vars inside the scope loop), then the Def arm of check_expr must register the new name only after checking the definition body')
    cid = fx.fn(FILE, 'OwnershipChecker::check_if_dropped')
    early = []
    for n, ctx in T.walk_ctx(cid['body']):
        if n.get('k') == 'Ret' and 'x' in n and T.show(T.peel(n['x'])).startswith('Result::Ok') or (n.get('k') == 'Ret' and 'Ok(' in T.show(n.get('x') or {})):
            if any(c[0] == 'loop' for c in ctx) and any(c[0] == 'if' and 'alive_vars' in T.show(c[1]) for c in ctx):
                early.append(n)
    if not early:
        chk.ok('C23-shadow', 'no-shadow-shortcut', sample='check_if_dropped scans every enclosing scope for the moved name (no early Ok on alive_vars)')
        return
    # order of define(..) and the body check in the Def arm
    order_ok = None
    for m in [x for x in T.walk(check_expr_fn['body']) if x.get('k') == 'Match' and x.get('src') == 'Normal']:
        for arm in m['arms']:
            if any(v.endswith('hir::Expr::Def') for v in T.pat_variants(arm['pat'])):
                ss = T.stmts_of(T.peel(arm['b'])) if T.peel(arm['b']).get('k') == 'Block' else []

                def defines_a_variable(st):
                    # a `define` reached only for subroutine signatures (`if def.sig.is_subr() { self.define(def) }`) registers no variable:
                    # a subroutine may refer to itself, and its name holds no movable object
                    for n_, ctx_ in T.walk_ctx(st):
                        if n_.get('k') == 'MCall' and n_['n'] == 'define':
                            only_subr = any(c_[0] == 'if' and c_[2] is True and T.peel(c_[1]).get('k') == 'MCall' and T.peel(c_[1])['n'] == 'is_subr' for c_ in ctx_)
                            if not only_subr:
                                return True
                    return False
                idef = next((i for i, st in enumerate(ss) if defines_a_variable(st)), None)
                ibody = next((i for i, st in enumerate(ss) if any(c.get('k') == 'MCall' and c['n'] in ('check_block', 'check_expr') and 'body' in T.show(c) for c in T.calls(st))), None)
                if idef is not None and ibody is not None:
                    order_ok = idef > ibody
    if order_ok is None:
        chk.lost.append('C23-shadow: cannot find define(..) / body check in the Def arm of check_expr')
    elif order_ok:
        chk.ok('C23-shadow', 'define-after-body')
    else:
        chk.bad('C23-shadow', 'OwnershipChecker::check_if_dropped', 'alive-shadows-moved', 'check_if_dropped stops with Ok as soon as a nearer scope holds a live variable of the same name, '
                'while check_expr registers a definition as alive *before* checking its body: `v = f v` in a nested scope uses the moved outer `v` unnoticed', FILE, early[0]['l'])
