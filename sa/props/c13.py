"""C13  every opcode emitted under target version v is an opcode of CPython v; --py-command reaches the spawned interpreter  (K3 version specialisation + flow)"""
import json, os
from sa import facts as F, tree as T
from sa.core import VERIF
from sa.kinds import vspec as VS

CODEGEN = 'crates/erg_compiler/codegen.rs'
VERSIONS = [7, 8, 9, 10, 11]
# same number, different spelling across versions / erg's tables (one reason each)
ALIASES = {
    ('DUP_TOP2', 'DUP_TOP_TWO'): "erg's tables spell CPython's DUP_TOP_TWO as DUP_TOP2 (same number 5)",
    ('POP_JUMP_IF_FALSE', 'POP_JUMP_FORWARD_IF_FALSE'): 'the generator writes the 3.10 name for the 3.11 forward variant on purpose (same number 114) and computes a relative operand under Some(11)',
    ('POP_JUMP_IF_TRUE', 'POP_JUMP_FORWARD_IF_TRUE'): 'as above (same number 115)',
}


def opcode_tables(fx):
    tabs = {}
    for a in fx.adts('erg_common')['adts']:
        p = a['path'].split('::')
        if len(p) >= 3 and p[1].startswith('opcode') and a['kind'] == 'enum':
            tabs[p[-1]] = {v['n']: v.get('discr') for v in a['variants']}
    return tabs


def is_root(f):
    vis = f.get('vis') or ''
    return vis == 'Public' or (vis.startswith('Restricted') and '::codegen' not in vis)


def run(chk):
    fx = F.Facts()
    ref = json.load(open(os.path.join(VERIF, 'ref', 'cpython_opcodes.json')))
    chk.rule('C13-R1', 'for every target minor v in 7..11: every opcode value that can reach PyCodeGenerator::write_instr in code reachable under v '
                       '(version predicates of codegen.rs evaluated for v, dead branches pruned, call graph specialised) is an opcode of CPython 3.v with that number and name')
    chk.rule('C13-R2', '`erg run` executes the bytecode with the interpreter selected by --py-command: on the call path CodeObj::exec -> exec_pyc_code -> exec_pyc the '
                       'py_command operand derives from ErgConfig.py_command, not from a constant None')
    chk.rule('C13-R3', 'jump operands are in the unit of the target: fill_jump / calc_edit_jump halve byte offsets exactly for minor >= 10; literal jump operands selected by '
                       'version satisfy bytes(<=3.9) == 2 x instructions(3.10)')
    d = fx.file(CODEGEN)
    fns = [f for f in d['fns'] if (f.get('self_ty') or '').split('::')[-1] == 'PyCodeGenerator' or '::codegen::' in f['path']]
    by_norm = {T.norm(f['path']): f for f in fns}
    roots = [T.norm(f['path']) for f in fns if is_root(f)]
    chk.floor('PyCodeGenerator functions', len(fns), 200)
    chk.floor('root functions', len(roots), 3)
    tabs = opcode_tables(fx)
    chk.floor('opcode enums', len(tabs), 5)
    # py_version is never reassigned
    for f in fns:
        for n in T.walk(f['body']):
            if n.get('k') in ('Assign', 'AssignOp'):
                ch = T.field_chain(n['x']) or []
                if 'py_version' in ch:
                    chk.bad('C13-R1', T.norm(f['path']), 'py_version-reassigned', 'py_version is reassigned after construction: version predicates are no longer path-stable', CODEGEN, n['l'])
    total_sites = 0
    undetermined = set()
    unknown_forms = set()
    for v in VERSIONS:
        spec = VS.Spec(v)
        ver = '3.%d' % v
        om = ref[ver]['opmap']
        byname_num = {n_: b for n_, b in om.items()}
        reach = VS.reachable_methods(by_norm, roots, spec)
        chk.analysed['reachable functions @%s' % ver] = len(reach)
        for fname in sorted(reach):
            f = by_norm[fname]
            env = VS.let_env(f)
            for n in VS.walk_feasible(f['body'], spec):
                if not (n.get('k') == 'MCall' and n['n'] == 'write_instr' and n['a']):
                    continue
                total_sites += 1
                vals, complete = VS.const_values(n['a'][0], spec, env)
                if not vals:
                    undetermined.add((fname, T.show(n['a'][0])))
                    continue
                if not complete:
                    undetermined.add((fname, T.show(n['a'][0]) + ' (partially)'))
                for kind, val in sorted(vals):
                    if kind != 'variant':
                        continue
                    p = val.split('::')
                    enum, name = p[-2], p[-1]
                    if enum not in tabs:
                        continue
                    num = tabs[enum].get(name)
                    if name == 'NOT_IMPLEMENTED':
                        continue
                    if name in om and om[name] == num:
                        chk.ok('C13-R1', (ver, fname, enum, name), sample='%s @%s: %s::%s = %d' % (fname, ver, enum, name, num) if total_sites % 97 == 0 else None)
                        continue
                    alias = [b for (a, b) in ALIASES if a == name and om.get(b) == num]
                    if alias:
                        chk.ok('C13-R1', (ver, fname, enum, name, 'alias'))
                        continue
                    have = [k_ for k_, b in om.items() if b == num]
                    chk.bad('C13-R1', fname, '%s::%s@%s' % (enum, name, ver),
                            '%s can emit %s::%s (= %s) for target %s, where %s' % (fname, enum, name, num, ver,
                             ('opcode %s is %s' % (num, have[0])) if have else ('%s is not an opcode' % num)) +
                            ('; CPython %s has %s = %d' % (ver, name, om[name]) if name in om else '; CPython %s has no %s' % (ver, name)),
                            CODEGEN, n['l'])
        unknown_forms |= set(spec.unknown_forms)
    chk.floor('write_instr sites x versions', total_sites, 400)
    chk.analysed['write_instr operands not determined'] = len(undetermined)
    chk.notes.append({'undetermined write_instr operands (not judged)': sorted(undetermined)[:40]})
    for u in sorted(unknown_forms):
        chk.lost.append('unrecognised py_version predicate form: ' + u)

    # ---- R3 unit conversion
    for fname in ('PyCodeGenerator::fill_jump', 'PyCodeGenerator::calc_edit_jump'):
        f = by_norm.get(fname)
        if not chk.need(f is not None, fname + ' not found'):
            continue
        good = False
        for n in T.walk(f['body']):
            if n.get('k') == 'If':
                sp9, sp10 = VS.Spec(9).cond(n['c']), VS.Spec(10).cond(n['c'])
                if sp9 is False and sp10 is True and VS.Spec(11).cond(n['c']) is True and VS.Spec(7).cond(n['c']) is False:
                    t = T.peel(n['t'])
                    divs = [x for x in T.walk(t) if x.get('k') == 'Binary' and x['op'] == '/' and T.lit_int(x['y']) == 2]
                    edivs = [x for x in T.walk(n.get('e') or {}) if x.get('k') == 'Binary' and x['op'] in ('/', '*')]
                    if divs and not edivs:
                        good = True
        if good:
            chk.ok('C13-R3', fname, sample='%s: jump_to / 2 iff minor >= 10' % fname)
        else:
            chk.bad('C13-R3', fname, 'unit', '%s no longer converts byte offsets to instruction offsets exactly for minor >= 10' % fname, CODEGEN, f['line'])
    literal_jump_rule(chk, fns)

    # ---- R2
    r2(chk, fx)
    from sa.props.c14 import call_pairing_rule
    call_pairing_rule(chk, by_norm, rid='C13-R4', diverging_only=True)
    return ('Per-version specialisation of the code generator (typed HIR; version predicates evaluated for each of 3.7-3.11, dead branches pruned, reachability recomputed) '
            'with every opcode operand of write_instr checked against dis.opmap of that version; unit rules for jump operands; argument-flow rule for --py-command. '
            'That the emitted sequence computes the same result on every version is a run-time fact and is not decided.'), {}


def literal_jump_rule(chk, fns, rid='C13-R3'):
    lit_sites = 0
    for f in fns:
        env = VS.let_env(f)
        stmts = list(T.walk(f['body']))
        for n in stmts:
            if not (n.get('k') == 'Block'):
                continue
            ss = [T.unsemi(x) for x in n.get('s', [])]
            for i, s in enumerate(ss):
                if s.get('k') == 'MCall' and s['n'] == 'write_instr':
                    # next write_arg in the same block (a `let` may sit in between)
                    for s2 in ss[i + 1:i + 4]:
                        if s2.get('k') == 'MCall' and s2['n'] == 'write_arg':
                            vals = {}
                            for v in VERSIONS:
                                vs, comp = VS.const_values(s2['a'][0], VS.Spec(v), env)
                                ints = {x for kk, x in vs if kk == 'int'}
                                if comp and len(ints) == 1:
                                    vals[v] = ints.pop()
                            ops9, _ = VS.const_values(s['a'][0], VS.Spec(9), env)
                            names = {x.split('::')[-1] for kk, x in ops9 if kk == 'variant'}
                            if len(vals) == len(VERSIONS) and len(set(vals.values())) > 1 and any('JUMP' in nm or nm in ('FOR_ITER', 'SETUP_WITH') for nm in names):
                                lit_sites += 1
                                where = T.norm(f['path'])
                                if vals[9] == 2 * vals[10] and vals[7] == vals[8] == vals[9]:
                                    chk.ok(rid, (where, s2['l']), sample='%s: %s operand %s' % (where, sorted(names), vals))
                                else:
                                    chk.bad(rid, where, 'literal-jump:%s' % '/'.join(sorted(names)),
                                            '%s writes the literal jump operand %s per version after %s: the byte offset for <= 3.9 (%s) is not twice the instruction offset for 3.10 (%s)'
                                            % (where, vals, sorted(names), vals[9], vals[10]), CODEGEN, s2['l'])
                            break
    chk.floor('version-selected literal jump operands', lit_sites, 1)


def r2(chk, fx):
    PU = 'crates/erg_common/python_util.rs'
    CO = 'crates/erg_compiler/ty/codeobj.rs'
    # exec_pyc_code -> exec_pyc(.., py_command, ..): the py_command argument must come from the function's own parameter
    for (file, caller, callee) in [(PU, 'python_util::exec_pyc_code', 'exec_pyc'), (CO, 'CodeObj::exec', 'exec_pyc_code')]:
        try:
            f = fx.fn(file, caller)
        except Exception as e:
            chk.lost.append('C13-R2: %s not found' % caller)
            continue
        # parameter of the callee named py_command
        target = None
        for cand in fx.fns(PU):
            if T.norm(cand['path']).endswith('::' + callee):
                target = cand
        if target is None:
            chk.lost.append('C13-R2: %s not found' % callee)
            continue
        pnames = [p.get('n') for p in target['params']]
        if 'py_command' not in pnames:
            chk.bad('C13-R2', T.norm(f['path']), '%s:no-py_command-param' % callee,
                    '%s (called by %s) has no py_command parameter: the interpreter chosen by --py-command cannot reach the spawn' % (callee, caller), file, f['line'])
            continue
        idx = pnames.index('py_command')
        calls = [c for c in T.calls(f['body']) if (T.cq(c) or '').endswith('::' + callee)]
        if not chk.need(len(calls) >= 1, '%s does not call %s' % (caller, callee)):
            continue
        for c in calls:
            a = T.peel(c['a'][idx])
            s = T.show(a)
            is_none = a.get('k') == 'Path' and a.get('d', '').endswith('::None')
            derives = 'py_command' in s
            if derives and not is_none:
                chk.ok('C13-R2', (caller, callee), sample='%s passes `%s` to %s' % (caller, s, callee))
            else:
                chk.bad('C13-R2', T.norm(f['path']), '%s(py_command=%s)' % (callee, s),
                        '%s calls %s with py_command = `%s`: the interpreter chosen by --py-command is not the one that runs the bytecode' % (caller, callee, s), file, c['l'])
