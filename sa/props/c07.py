"""C07  no panicking arm for a constructible variant in the total traversals of the checker / optimiser / code generator  (K4)"""
from sa import facts as F, tree as T
from sa.kinds import visitor as V, exceptions as X

BASE = 'crates/erg_compiler/'
FILES = ['lower.rs', 'declare.rs', 'effectcheck.rs', 'ownercheck.rs', 'optimize.rs', 'link_hir.rs', 'desugar_hir.rs', 'codegen.rs', 'context/register.rs',
         'context/generalize.rs', 'context/inquire.rs', 'context/instantiate.rs', 'context/instantiate_spec.rs', 'context/eval.rs', 'context/compare.rs',
         'context/unify.rs', 'build_hir.rs', 'compile.rs', 'build_package.rs']
UNIMPL = {'todo', 'unimplemented'}
# reviewed on the pinned tree: number of todo!/unimplemented! expansion sites in the pipeline files.  None of them could be reached with an accepted or rejected
# program during triage (inputs listed in DESIGN.md §C07); a *new* one is a new crash path.
REVIEWED_TOTAL = 52
# reviewed panicking arms on constructible variants: (function, enum) -> reason
ARM_EXCEPTIONS = {
    ('GenericASTLowerer::get_require_or_sup_or_base', 'hir::Expr'): 'the argument of Class/Inherit/Patch is type-checked first: five non-accessor/non-call base expressions were all rejected with a '
                                                                      'diagnostic before this function runs',
    ('PyCodeGenerator::emit_while_instr', 'hir::Expr'): 'the condition of while! must be a lambda: a non-lambda condition (`cond = do! ..; while! cond, ..`) is rejected by the checker',
}


def run(chk):
    fx = F.Facts()
    chk.rule('C07-arm', 'in the checker / optimiser / code generator no `match` over a syntax-tree enum (hir::*, ast::*) sends a variant the front end can construct into an arm that is '
                        'solely todo!() / unimplemented!() / panic!() (arms marked unreachable!() assert an invariant and are listed, not judged)')
    chk.rule('C07-count', 'the number of todo!() / unimplemented!() expansion sites in the pipeline files does not exceed the reviewed %d: a new one is a new crash path for '
                          'whichever program reaches it' % REVIEWED_TOTAL)
    enums = {}
    for crate, pref in (('erg_compiler', 'hir::'), ('erg_parser', 'ast::')):
        for a in fx.adts(crate)['adts']:
            short = a['path'].split('::', 1)[1]
            if a['kind'] == 'enum' and short.startswith(pref):
                enums[short] = (crate, a)
    chk.floor('syntax-tree enums', len(enums), 30)

    def enum_of(t):
        t = (t or '').replace('&', '').replace('mut ', '').strip()
        if t.startswith('erg_parser::'):
            t = t[len('erg_parser::'):]
        return t if t in enums else None
    nmatch = 0
    unreachable_arms = []
    constructible = {}

    def is_constructible(short, variant):
        key = (short, variant)
        if key not in constructible:
            crate = enums[short][0]
            s = X.sites(fx, crate, '%s::%s' % (short, variant))
            # constructed by the front end = anywhere except the passes that run after code generation started (none) : any site counts
            constructible[key] = bool(s)
        return constructible[key]
    total_unimpl = 0
    per_fn = {}
    for fl in FILES:
        file = BASE + fl
        d = fx.file(file)
        for f in d['fns']:
            where = T.norm(f['path'])
            seen = set()
            for n in T.walk(f['body']):
                m = n.get('m') or []
                if m and m[0] in UNIMPL and (m[0], n.get('l')) not in seen:
                    seen.add((m[0], n.get('l')))
                    total_unimpl += 1
                    per_fn[where] = per_fn.get(where, 0) + 1
            for mt in T.walk(f['body']):
                if mt.get('k') != 'Match' or mt.get('src') != 'Normal':
                    continue
                en = enum_of(d['types'][mt['st']])
                if not en:
                    continue
                nmatch += 1
                allv = [v['n'] for v in enums[en][1]['variants']]
                remaining = set(allv)
                for arm in mt['arms']:
                    pv = T.pat_variants(arm['pat'])
                    names = {T.last_seg(v) for v in pv if v != '_' and not v.startswith('?')}
                    got = set(allv) if '_' in pv else names
                    hit = remaining & got
                    if 'g' not in arm:
                        remaining -= got
                    pk = V.is_panicking(arm['b'])
                    if not pk or not hit:
                        continue
                    if pk == 'unreachable':
                        unreachable_arms.append('%s: %s::{%s}' % (where, en, ','.join(sorted(hit))))
                        continue
                    live = sorted(v for v in hit if is_constructible(en, v))
                    if not live:
                        chk.ok('C07-arm', (where, en, 'not constructible'), sample='%s: %s::{%s} => %s!() but never constructed' % (where, en, ','.join(sorted(hit)), pk))
                        continue
                    if (where, en) in ARM_EXCEPTIONS:
                        chk.ok('C07-arm', (where, en, 'reviewed'))
                        chk.notes.append({'reviewed panicking arm': '%s %s::{%s}: %s' % (where, en, ','.join(live), ARM_EXCEPTIONS[(where, en)])})
                        continue
                    chk.bad('C07-arm', where, '%s::{%s}=>%s!' % (en, ','.join(live), pk),
                            '%s sends %s::{%s}, which the front end constructs, into a %s!() arm: a well-formed program reaching it crashes the compiler' % (where, en, ', '.join(live), pk),
                            file, arm['l'])
    chk.floor('matches over syntax-tree enums', nmatch, 150)
    chk.analysed['todo!/unimplemented! sites'] = total_unimpl
    chk.analysed['unreachable!() arms on syntax enums (listed, not judged)'] = len(unreachable_arms)
    chk.notes.append({'unreachable arms': unreachable_arms[:60]})
    chk.notes.append({'unimplemented sites per function': dict(sorted(per_fn.items()))})
    if total_unimpl <= REVIEWED_TOTAL:
        chk.ok('C07-count', 'total', sample='%d todo!/unimplemented! sites (reviewed: %d)' % (total_unimpl, REVIEWED_TOTAL))
    else:
        chk.bad('C07-count', 'pipeline', 'total>%d' % REVIEWED_TOTAL, 'the pipeline files contain %d todo!()/unimplemented!() sites, %d more than the reviewed %d (per function: %s)'
                % (total_unimpl, total_unimpl - REVIEWED_TOTAL, REVIEWED_TOTAL, dict(sorted(per_fn.items()))), BASE, None)
    units_rule(chk, fx)
    chk.undecide('internal-error diagnostics (compiler_bug / type_not_found, e.g. `f a, b = a * b + 1`), unwrap()/enum_unwrap! sites and hangs are not judged')
    count_sub_rule(chk, fx)
    return ('Scan of every `match` over a syntax-tree enum in the checker / optimiser / code generator (scrutinee types from rustc typeck; variant constructibility from constructor '
            'sites in the resolved program) for arms that are solely todo!/unimplemented!/panic!, plus a monotone count of unimplemented-markers. '
            'Internal-error diagnostics, unwrap sites and hangs are not decided.'), {}


def count_sub_rule(chk, fx):
    """element counts are unsigned: `count - c` needs count >= c on the path"""
    CG_ = 'crates/erg_compiler/codegen.rs'
    chk.rule('C07-sub', 'in the code generator an element count (a local bound to `<collection>.len()`) is only decreased by a constant where the path shows it is large enough — under '
                        '`count == 0` false / `count > 0` / `!collection.is_empty()`, or with a constant part at least as large (`1 + argc - 1`): an empty list / tuple / set / dict / '
                        'record literal otherwise underflows (a panic in debug builds, a huge stack size in release builds)')
    d = fx.file(CG_)
    types = d['types']
    nsite = 0
    for f in d['fns']:
        if not T.norm(f['path']).startswith('PyCodeGenerator::'):
            continue
        counts = {}
        for n in T.walk(f['body']):
            if n.get('k') == 'Let' and n.get('init') is not None and n['pat'].get('k') == 'Bind':
                i_ = T.peel(n['init'])
                if i_.get('k') == 'MCall' and i_['n'] == 'len' and not i_['a']:
                    counts[n['pat']['n']] = T.show(T.peel(i_['r']))
        if not counts:
            continue

        def lin(e):
            """(constant part, {count: coef}) or None"""
            e = T.peel(e)
            v = T.lit_int(e)
            if v is not None:
                return v, {}
            if e.get('k') == 'Cast':
                return lin(e['x'])
            if e.get('k') == 'Local':
                return (0, {e['n']: 1}) if e['n'] in counts else None
            if e.get('k') == 'Binary' and e['op'] in ('+', '*'):
                a, b = lin(e['x']), lin(e['y'])
                if a is None or b is None:
                    return None
                if e['op'] == '+':
                    m = dict(a[1])
                    for k_, c_ in b[1].items():
                        m[k_] = m.get(k_, 0) + c_
                    return a[0] + b[0], m
                if not a[1]:
                    return a[0] * b[0], {k_: c_ * a[0] for k_, c_ in b[1].items()}
                if not b[1]:
                    return a[0] * b[0], {k_: c_ * b[0] for k_, c_ in a[1].items()}
            return None
        for n, ctx in T.walk_ctx(f['body']):
            if n.get('k') != 'Binary' or n.get('op') != '-' or types[n['lt']] not in ('usize', 'u32', 'u64'):
                continue
            c = T.lit_int(T.peel(n['y']))
            l = lin(n['x'])
            if c is None or l is None or not l[1]:
                continue
            nsite += 1
            where = T.norm(f['path'])
            if l[0] >= c:
                chk.ok('C07-sub', (where, n['l'], 'constant part'))
                continue
            guarded = False
            for cx in ctx:
                if cx[0] != 'if':
                    continue
                cs = T.show(cx[1]).replace(' ', '')
                for cnt, coll in counts.items():
                    if cnt not in l[1]:
                        continue
                    need = -(-(c - l[0]) // l[1][cnt])          # count >= need suffices (other counts >= 0)
                    if cx[2] is False and cs in ('%s==0' % cnt, '0==%s' % cnt) and need <= 1:
                        guarded = True
                    if cx[2] is True and need <= 1 and (cs in ('%s>0' % cnt, '%s!=0' % cnt, '%s>=1' % cnt) or ('!%s.is_empty()' % coll.replace(' ', '')) in cs):
                        guarded = True
            if guarded:
                chk.ok('C07-sub', (where, n['l'], 'guarded'))
            else:
                chk.bad('C07-sub', where, 'sub:%s' % T.show(n)[:30].replace(' ', ''), '%s computes `%s` where the count can be 0 on this path: an empty collection literal makes the unsigned '
                        'subtraction underflow — the compiler panics (debug) or records an absurd stack size (release)' % (where, T.show(n)[:40]), CG_, n['l'])
    chk.floor('count subtractions in the code generator', nsite, 6)


def units_rule(chk, fx):
    """a byte offset (first component of str::char_indices) used to index a collection whose length is a character count -> out-of-bounds panic on non-ASCII text"""
    import json, os
    chk.rule('C07-units', 'no collection sized by a character count (`s.chars().count()`) is indexed with a byte offset taken from `s.char_indices()`: '
                          'for non-ASCII text the offset exceeds the length and the compiler panics (diagnostics helpers run on arbitrary identifiers)')
    examined = 0
    for crate in ('erg_common', 'erg_parser', 'erg_compiler'):
        idx = json.load(open(os.path.join(fx.dir, crate, 'index.json')))
        for relfile in idx['files']:
            d = fx.file(relfile, crate)
            for f in d['fns']:
                txt_has = False
                char_counts, char_vecs, byte_idx = set(), set(), set()
                for n in T.walk(f['body']):
                    if n.get('k') == 'Let' and n['pat'].get('k') == 'Bind' and 'init' in n:
                        s_ = T.show(n['init'])
                        if '.chars().count()' in s_:
                            char_counts.add(n['pat']['n'])
                for n in T.walk(f['body']):
                    if n.get('k') == 'Let' and n['pat'].get('k') == 'Bind' and 'init' in n:
                        s_ = T.show(n['init'])
                        if any(c in s_ for c in char_counts) and ('collect' in s_ or 'vec' in ''.join(n['init'].get('m') or []) or 'with_capacity' in s_ or 'from_elem' in s_) \
                                or ('.chars().count()' in s_ and ('collect' in s_ or 'from_elem' in s_)):
                            char_vecs.add(n['pat']['n'])
                    if n.get('k') == 'Match' and n.get('src') == 'ForLoopDesugar' and 'char_indices()' in T.show(n['x']) and '.enumerate()' not in T.show(n['x']):
                        for m in T.walk(n):
                            if m.get('k') == 'Match' and m is not n:
                                for arm in m['arms']:
                                    b = T.pat_bindings(arm['pat'])
                                    if b:
                                        byte_idx.add(b[0])
                if not char_vecs:
                    continue
                examined += 1
                where = T.norm(f['path'])
                for n in T.walk(f['body']):
                    if n.get('k') == 'Index' and T.peel(n['x']).get('k') == 'Local' and T.peel(n['x'])['n'] in char_vecs:
                        used = {x['n'] for x in T.walk(n['i']) if x.get('k') == 'Local'} & byte_idx
                        if used:
                            chk.bad('C07-units', where, '%s[%s]' % (T.peel(n['x'])['n'], T.show(n['i'])), '%s indexes `%s` (sized by a character count) with `%s`, a byte offset from char_indices(): '
                                    'out of bounds for non-ASCII text' % (where, T.peel(n['x'])['n'], T.show(n['i'])), relfile, n['l'])
                        else:
                            chk.ok('C07-units', (where, T.show(n)))
    chk.floor('functions with character-sized collections', examined, 1)
