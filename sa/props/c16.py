"""C16  Opcode and magic-number tables match each CPython version  (K1 table agreement, exhaustive)"""
import json, os, re
from sa import facts as F, tree as T
from sa.core import VERIF

SERVES = {  # enum -> CPython minors whose table it is (module docs + the 3.x dispatch in codegen/codeobj)
    'opcode308::Opcode308': ['3.7', '3.8'],
    'opcode309::Opcode309': ['3.9'],
    'opcode310::Opcode310': ['3.10'],
    'opcode311::Opcode311': ['3.11'],
    'opcode::CommonOpcode': ['3.7', '3.8', '3.9', '3.10', '3.11'],
}
FLOORS = {'opcode308::Opcode308': 100, 'opcode309::Opcode309': 100, 'opcode310::Opcode310': 100,
          'opcode311::Opcode311': 100, 'opcode::CommonOpcode': 45}
NB_ALIAS = {'FLOOR_DIV': 'FLOOR_DIVIDE', 'L_SHIFT': 'LSHIFT', 'R_SHIFT': 'RSHIFT'}


def load_ref(chk, live=False):
    ref = json.load(open(os.path.join(VERIF, 'ref', 'cpython_opcodes.json')))
    chk.need(all(v in ref for v in ['3.7', '3.8', '3.9', '3.10', '3.11', '3.12']), 'reference tables for 3.7-3.12 missing')
    if live:
        import subprocess, sys
        sys.path.insert(0, os.path.join(VERIF, 'tools'))
        import gen_ref
        n = 0
        for v, exe in gen_ref.PY.items():
            if os.path.exists(exe) and v in ref:
                d = json.loads(subprocess.run([exe, '-c', gen_ref.OPS], capture_output=True, text=True, check=True).stdout)
                chk.need(d['opmap'] == ref[v]['opmap'] and d['magic'] == ref[v]['magic'] and d['hasjrel'] == ref[v]['hasjrel']
                         and d['hasjabs'] == ref[v]['hasjabs'],
                         'frozen reference table for %s disagrees with the live interpreter %s' % (v, exe))
                n += 1
        chk.count('live_interpreters_cross_checked', n)
    return ref


def camel_to_snake(s):
    return re.sub(r'(?<!^)(?=[A-Z])', '_', s).upper()


def run(chk):
    fx = F.Facts()
    ref = load_ref(chk, live=(chk.tier == 'thorough'))
    chk.rule('C16-a', 'for each opcode enum E serving CPython version v and each variant NAME=b (not ERG_*/NOT_IMPLEMENTED) '
                      'with NAME in dis.opmap[v]: b == dis.opmap[v][NAME]; no two variants of E share a number')
    chk.rule('C16-b', 'every literal in CommonOpcode::is_jump_op is, in each of 3.7..3.11, a jump opcode (hasjrel|hasjabs) or unassigned; '
                      'every variant of the enum serving v whose NAME is a jump in v and which the code generator references is in the list')
    chk.rule('C16-c', 'each arm of jump_abs_addr_3xx computes relative-forward / relative-backward / absolute exactly as hasjrel/hasjabs '
                      'and the name (BACKWARD) of that opcode say, with unit 1 (<=3.9) or 2 (>=3.10)')
    chk.rule('C16-d', 'get_ver_from_magic_num maps every reference interpreter magic number to its version; no range covers magic numbers of two versions; '
                      'get_magic_num_bytes ORs the 0x0A0D0000 prefix')
    chk.rule('C16-e', 'every row b => V of the hand-written TryFrom<u8> table of CommonOpcode has V as u8 == b (it feeds the in-place opcode rewriting of the generator)')
    stale = []
    enums = {}
    for suffix, vers in SERVES.items():
        adt = fx.adt('erg_common', suffix)
        enums[suffix] = adt
        vs = adt['variants']
        chk.floor('variants:' + suffix, len(vs), FLOORS[suffix])
        seen = {}
        for v in vs:
            name, b = v['n'], v.get('discr')
            if b in seen:
                chk.bad('C16-a', suffix, 'dup:%s' % name, '%s and %s share opcode number %s' % (name, seen[b], b), adt['file'], adt['line'])
            else:
                seen[b] = name
            if name.startswith('ERG_') or name == 'NOT_IMPLEMENTED':
                continue
            for ver in vers:
                om = ref[ver]['opmap']
                if name not in om:
                    stale.append('%s::%s=%s has no opcode of that name in %s' % (suffix, name, b, ver))
                    continue
                if om[name] == b:
                    chk.ok('C16-a', (suffix, name, ver), sample='%s::%s = %d == dis.opmap[%s]' % (suffix, name, b, ver))
                else:
                    chk.bad('C16-a', suffix, '%s@%s' % (name, ver),
                            '%s::%s = %s but CPython %s has %s = %d' % (suffix, name, b, ver, name, om[name]), adt['file'], adt['line'])
    chk.analysed['stale_rows'] = len(stale)
    chk.notes.append({'stale_rows (listed, not violations; use sites are restricted by C13)': stale})

    # BinOpCode vs 3.11 _nb_ops
    adt = fx.adt('erg_common', 'opcode311::BinOpCode')
    nb = ref['3.11']['nb_ops']
    chk.floor('variants:BinOpCode', len(adt['variants']), 26)
    for v in adt['variants']:
        nm = camel_to_snake(v['n'])
        inplace = nm.startswith('INPLACE_')
        core = nm[len('INPLACE_'):] if inplace else nm
        core = NB_ALIAS.get(core, core)
        full = 'NB_' + ('INPLACE_' if inplace else '') + core
        if full not in nb:
            chk.undecide('BinOpCode::%s: no NB_ name mapping' % v['n'])
            continue
        if nb.index(full) == v['discr']:
            chk.ok('C16-a', ('BinOpCode', v['n']), sample='BinOpCode::%s = %d == %s' % (v['n'], v['discr'], full))
        else:
            chk.bad('C16-a', 'opcode311::BinOpCode', v['n'], 'BinOpCode::%s = %s but CPython 3.11 %s = %d' % (v['n'], v['discr'], full, nb.index(full)),
                    adt['file'], adt['line'])

    # CompareOp via show_op
    adt = fx.adt('erg_common', 'opcode::CompareOp')
    discr = {v['n']: v['discr'] for v in adt['variants']}
    show = fx.fn('crates/erg_common/opcode.rs', 'CompareOp::show_op')
    m = [n for n in T.walk(show['body']) if n.get('k') == 'Match']
    if chk.need(len(m) == 1, 'CompareOp::show_op: expected one match'):
        n = 0
        for arm in m[0]['arms']:
            vs = T.pat_variants(arm['pat'])
            body = T.peel(arm['b'])
            if body.get('k') != 'Lit' or 'str' not in (body.get('v') or {}):
                continue
            sym = body['v']['str']
            for vp in vs:
                vn = T.last_seg(vp)
                if vn not in discr:
                    continue
                n += 1
                for ver in ['3.7', '3.8', '3.9', '3.10', '3.11']:
                    co = ref[ver]['cmp_op']
                    if discr[vn] < len(co) and co[discr[vn]] == sym:
                        chk.ok('C16-a', ('CompareOp', vn, ver))
                    else:
                        chk.bad('C16-a', 'opcode::CompareOp', '%s@%s' % (vn, ver),
                                'CompareOp::%s = %d is shown as %r but dis.cmp_op[%d] in %s is %r' % (vn, discr[vn], sym, discr[vn], ver, co[discr[vn]] if discr[vn] < len(co) else None),
                                'crates/erg_common/opcode.rs', arm['l'])
        chk.floor('compare_op_rows', n, 6)

    # ---- (b) is_jump_op
    fn = fx.fn('crates/erg_common/opcode.rs', 'CommonOpcode::is_jump_op')
    arrs = [n for n in T.walk(fn['body']) if n.get('k') == 'Array']
    members = None
    # the set is written as one literal array (`[..].contains(&op)`) or as the patterns of a `matches!` / match whose arm answers true
    form_ok = len(arrs) == 1 and all(a.get('k') == 'Lit' for a in arrs[0]['a'])
    if form_ok:
        members = [a['v']['int'] for a in arrs[0]['a']]
    else:
        ms_ = [n for n in T.walk(fn['body']) if n.get('k') == 'Match']
        if len(ms_) == 1:
            mem = []
            ok_ = True
            for arm in ms_[0]['arms']:
                b_ = T.peel(arm['b'])
                val = (b_.get('v') or {}).get('bool') if b_.get('k') == 'Lit' else None
                if val is True and 'g' not in arm:
                    r = pat_int_ranges(arm['pat'])
                    if r is None:
                        ok_ = False
                    else:
                        for lo, hi in r:
                            mem += list(range(lo, hi + 1))
                elif val is False and arm['pat'].get('k') == 'Wild':
                    pass
                else:
                    ok_ = False
            if ok_ and mem:
                members, form_ok = sorted(set(mem)), True
    if chk.need(form_ok, 'is_jump_op: the set of jump opcodes is neither one literal array nor the patterns of one match'):
        chk.floor('is_jump_op_members', len(members), 8)
        for ver in ['3.7', '3.8', '3.9', '3.10', '3.11']:
            jumps = set(ref[ver]['hasjrel']) | set(ref[ver]['hasjabs'])
            assigned = set(ref[ver]['opmap'].values())
            for mnum in members:
                if mnum in jumps or mnum not in assigned:
                    chk.ok('C16-b', ('member', mnum, ver))
                else:
                    nm = [k for k, v in ref[ver]['opmap'].items() if v == mnum][0]
                    chk.bad('C16-b', 'CommonOpcode::is_jump_op', '%d@%s' % (mnum, ver),
                            'is_jump_op lists %d, which is the non-jump opcode %s in CPython %s' % (mnum, nm, ver), fn['_file'], fn['line'])
        # jump opcodes the code generator references must be classified as jumps
        used = referenced_opcodes(fx)
        chk.floor('opcode_variants_referenced_by_codegen', len(used), 80)
        for (enum, name) in sorted(used):
            key = [k for k in SERVES if k.endswith('::' + enum)]
            if not key:
                continue
            adt = enums[key[0]]
            num = {v['n']: v['discr'] for v in adt['variants']}.get(name)
            for ver in SERVES[key[0]]:
                om = ref[ver]['opmap']
                jumps = set(ref[ver]['hasjrel']) | set(ref[ver]['hasjabs'])
                if name in om and om[name] in jumps and om[name] == num:
                    if num in members:
                        chk.ok('C16-b', ('emitted', enum, name, ver), sample='%s::%s=%d is a jump in %s and is_jump_op lists it' % (enum, name, num, ver))
                    else:
                        chk.bad('C16-b', 'CommonOpcode::is_jump_op', 'missing:%s::%s' % (enum, name),
                                'the code generator uses %s::%s (=%d), a jump opcode in CPython %s, but is_jump_op does not list %d' % (enum, name, num, ver, num),
                                fn['_file'], fn['line'])

    # ---- (c) jump_abs_addr_3xx
    for fname, enum, ver, unit in [('jump_abs_addr_309', 'Opcode309', '3.9', 1), ('jump_abs_addr_310', 'Opcode310', '3.10', 2),
                                   ('jump_abs_addr_311', 'Opcode311', '3.11', 2)]:
        fn = fx.fn('crates/erg_compiler/ty/codeobj.rs', fname)
        ms = [n for n in T.walk(fn['body']) if n.get('k') == 'Match']
        if not chk.need(len(ms) == 1, fname + ': expected one match'):
            continue
        rows = 0
        for arm in ms[0]['arms']:
            vs = T.pat_variants(arm['pat'])
            if vs == {'_'}:
                continue
            form = addr_form(T.peel(arm['b']))
            for vp in sorted(vs):
                name = T.last_seg(vp)
                rows += 1
                om = ref[ver]['opmap']
                if name not in om:
                    chk.undecide('%s: %s is not an opcode of %s' % (fname, name, ver))
                    continue
                b = om[name]
                if b in ref[ver]['hasjabs']:
                    want = ('abs', unit)
                elif b in ref[ver]['hasjrel']:
                    want = ('back' if 'BACKWARD' in name else 'fwd', unit)
                else:
                    chk.bad('C16-c', fname, name, '%s treats %s as a jump but it is not in hasjrel/hasjabs of %s' % (fname, name, ver), fn['_file'], arm['l'])
                    continue
                if form is None:
                    chk.lost.append('%s: unrecognised address expression in arm %s' % (fname, T.show(arm['pat'])))
                elif form == want:
                    chk.ok('C16-c', (fname, name), sample='%s: %s -> %s x%d' % (fname, name, want[0], want[1]))
                else:
                    chk.bad('C16-c', fname, name,
                            '%s computes the target of %s as %s (unit %d) but CPython %s defines it as %s (unit %d)' % (fname, name, form[0], form[1], ver, want[0], want[1]),
                            fn['_file'], arm['l'])
        chk.floor('rows:' + fname, rows, 5)

    # ---- (d) magic numbers
    fn = fx.fn('crates/erg_common/serialize.rs', 'get_ver_from_magic_num')
    ms = [n for n in T.walk(fn['body']) if n.get('k') == 'Match']
    # the table may live in a fallible twin (`try_get_ver_from_magic_num(m) -> Option<PythonVersion>`) that this function unwraps
    if len(ms) == 1 and T.peel(ms[0]['x']).get('k') == 'Call' and 'ver_from_magic' in (T.callee(T.peel(ms[0]['x'])) or ''):
        inner = T.last_seg(T.callee(T.peel(ms[0]['x'])))
        args = T.peel(ms[0]['x'])['a']
        pn = next((p_['n'] for p_ in (fn.get('params') or []) if p_.get('k') == 'Bind'), None)
        if len(args) == 1 and T.peel(args[0]).get('k') == 'Local' and T.peel(args[0])['n'] == pn:
            fn = fx.fn('crates/erg_common/serialize.rs', inner)
            ms = [n for n in T.walk(fn['body']) if n.get('k') == 'Match']
    if chk.need(len(ms) == 1, 'get_ver_from_magic_num: expected one match'):
        ranges = []
        for arm in ms[0]['arms']:
            r = pat_int_ranges(arm['pat'])
            minor = version_minor(arm['b'])
            if r is None:
                continue
            if minor is None:
                chk.lost.append('get_ver_from_magic_num: arm %s does not build PythonVersion::new(3, Some(k), ..)' % T.show(arm['pat']))
                continue
            for lo, hi in r:
                ranges.append((lo, hi, minor, arm['l']))
        chk.floor('magic_ranges', len(ranges), 6)
        pname = next((p_['n'] for p_ in (fn.get('params') or []) if p_.get('k') == 'Bind'), None)

        def scrut(e, m):
            # the value the match looks at for the magic number m (`magic_num`, `magic_num / 10`, ...)
            e = T.peel(e)
            if e.get('k') == 'Local':
                return m if e['n'] == pname else None
            v = T.lit_int(e)
            if v is not None:
                return v
            if e.get('k') == 'Cast':
                return scrut(e['x'], m)
            if e.get('k') == 'Binary':
                a, b = scrut(e['x'], m), scrut(e['y'], m)
                if a is None or b is None:
                    return None
                op = e['op']
                if op in ('/', '%') and b == 0:
                    return None
                return {'+': lambda: a + b, '-': lambda: a - b, '*': lambda: a * b, '/': lambda: a // b, '%': lambda: a % b, '>>': lambda: a >> b, '<<': lambda: a << b,
                        '&': lambda: a & b, '|': lambda: a | b}.get(op, lambda: None)()
            return None
        seen_by = {v: scrut(ms[0]['x'], ref[v]['magic']) for v in ref}
        chk.need(all(x is not None for x in seen_by.values()), 'get_ver_from_magic_num: the scrutinee `%s` of the match could not be evaluated' % T.show(ms[0]['x']))
        for ver in ['3.7', '3.8', '3.9', '3.10', '3.11', '3.12']:
            mg = ref[ver]['magic']
            sv = seen_by.get(ver)
            hit = [r for r in ranges if sv is not None and r[0] <= sv <= r[1]]
            want = int(ver.split('.')[1])
            if len(hit) == 1 and hit[0][2] == want:
                chk.ok('C16-d', ('magic', ver), sample='magic %d -> 3.%d' % (mg, want))
            else:
                chk.bad('C16-d', 'get_ver_from_magic_num', 'magic@%s' % ver,
                        'magic number %d of CPython %s is mapped to %s' % (mg, ver, ['3.%d' % h[2] for h in hit] or 'nothing (panic)'), fn['_file'], fn['line'])
        for (lo, hi, minor, ln) in ranges:
            others = [v for v in ref if seen_by.get(v) is not None and lo <= seen_by[v] <= hi and int(v.split('.')[1]) != minor]
            if others:
                chk.bad('C16-d', 'get_ver_from_magic_num', 'range:3.%d' % minor,
                        'range %d..=%d for 3.%d also covers the magic number of %s' % (lo, hi, minor, others), fn['_file'], ln)
            else:
                chk.ok('C16-d', ('range', minor))
    fn = fx.fn('crates/erg_common/serialize.rs', 'get_magic_num_bytes')
    consts = [n['v']['int'] for n in T.walk(fn['body']) if n.get('k') == 'Lit' and 'int' in (n.get('v') or {})]
    prefix_fns = [f for f in fx.fns('crates/erg_common/serialize.rs') if f['path'].endswith('get_magic_num_bytes::PREFIX')]
    for f in prefix_fns:
        consts += [n['v']['int'] for n in T.walk(f['body']) if n.get('k') == 'Lit' and 'int' in (n.get('v') or {})]
    ors = [n for n in T.walk(fn['body']) if n.get('k') == 'Binary' and n['op'] == '|']
    les = [n for n in T.calls(fn['body']) if (T.callee(n) or '').endswith('to_le_bytes')]
    if 0x0A0D0000 in consts and ors and les:
        chk.ok('C16-d', 'prefix', sample='get_magic_num_bytes: (0x0A0D0000 | ver).to_le_bytes()')
    else:
        chk.bad('C16-d', 'get_magic_num_bytes', 'prefix', 'magic prefix is not (0x0A0D0000 | version).to_le_bytes() (constants seen: %s)' % [hex(c) for c in consts],
                fn['_file'], fn['line'])

    # ---- (e) TryFrom<u8> for CommonOpcode
    tf = fx.fns_matching('crates/erg_common/opcode.rs', lambda f: f['path'].endswith('::try_from') and 'CommonOpcode' in (f.get('self_ty') or ''))
    if chk.need(len(tf) == 1, 'TryFrom<u8> for CommonOpcode not found'):
        ms = [n for n in T.walk(tf[0]['body']) if n.get('k') == 'Match']
        discr = {v['n']: v['discr'] for v in enums['opcode::CommonOpcode']['variants']}
        seen = set()
        for arm in ms[0]['arms'] if ms else []:
            p = arm['pat']
            b = T.peel(arm['b'])
            if p.get('k') == 'PLit' and b.get('k') == 'Path':
                nm = T.last_seg(b['d'])
                seen.add(nm)
                if discr.get(nm) == p['v'].get('int'):
                    chk.ok('C16-e', nm)
                else:
                    chk.bad('C16-e', 'CommonOpcode::try_from', nm, 'byte %s decodes to CommonOpcode::%s whose number is %s' % (p['v'].get('int'), nm, discr.get(nm)),
                            tf[0]['_file'], arm['l'])
        chk.notes.append({'CommonOpcode variants without a TryFrom<u8> row (decode-only gap, not judged)': sorted(set(discr) - seen)})
        chk.floor('tryfrom_rows', len(seen), 45)

    return ('Finite table comparison, complete for the rows listed: enum discriminants (from rustc AdtDef::discriminants), '
            'match-arm tables (resolved variant paths) and literals of erg_common/opcode*.rs, serialize.rs and ty/codeobj.rs against '
            'dis.opmap / hasjrel / hasjabs / cmp_op / _nb_ops / MAGIC_NUMBER of CPython 3.7-3.12 (frozen in ref/, re-dumped live in the thorough tier).',
            {'exhaustive': True})


def referenced_opcodes(fx):
    """(enum, variant) pairs of opcode enums referenced as values anywhere in codegen.rs"""
    used = set()
    for f in fx.fns('crates/erg_compiler/codegen.rs'):
        for n in T.walk(f['body']):
            if n.get('k') == 'Path' and n.get('dk', '').startswith('CtorVariant'):
                p = n['d'].split('::')
                if len(p) >= 3 and p[0] == 'erg_common' and p[1].startswith('opcode'):
                    used.add((p[-2], p[-1]))
    return used


def addr_form(e):
    """classify idx + arg*U + 2 / idx - arg*U + 2 / arg*U  ->  (fwd|back|abs, U)"""
    def term(n):
        n = T.peel(n)
        if n.get('k') == 'Local':
            return (n['n'], 1)
        if n.get('k') == 'Binary' and n['op'] == '*':
            a, b = T.peel(n['x']), T.peel(n['y'])
            if a.get('k') == 'Local' and b.get('k') == 'Lit':
                return (a['n'], b['v'].get('int'))
            if b.get('k') == 'Local' and a.get('k') == 'Lit':
                return (b['n'], a['v'].get('int'))
        if n.get('k') == 'Lit':
            return ('#', n['v'].get('int'))
        return None

    def flat(n, sign, acc):
        n = T.peel(n)
        if n.get('k') == 'Binary' and n['op'] in ('+', '-'):
            if not flat(n['x'], sign, acc):
                return False
            return flat(n['y'], sign if n['op'] == '+' else -sign, acc)
        t = term(n)
        if t is None:
            return False
        acc.append((sign, t))
        return True
    acc = []
    if not flat(e, 1, acc):
        return None
    d = {}
    for s, (nm, k) in acc:
        d[nm] = d.get(nm, 0) + s * k
    if set(d) == {'arg'} and d['arg'] > 0:
        return ('abs', d['arg'])
    if set(d) == {'idx', 'arg', '#'} and d['idx'] == 1 and d['#'] == 2:
        return ('fwd', d['arg']) if d['arg'] > 0 else ('back', -d['arg'])
    return None


def pat_int_ranges(p):
    k = p.get('k')
    if k == 'PLit':
        return [(p['v']['int'], p['v']['int'])]
    if k == 'PRange':
        lo, hi = p.get('lo'), p.get('hi')
        if lo and hi and lo.get('k') == 'PLit' and hi.get('k') == 'PLit':
            h = hi['v']['int'] - (0 if p.get('end') == 'Included' else 1)
            return [(lo['v']['int'], h)]
        return None
    if k == 'POr':
        out = []
        for q in p['p']:
            r = pat_int_ranges(q)
            if r is None:
                return None
            out += r
        return out
    return None


def version_minor(e):
    for n in T.calls(e):
        if (T.callee(n) or '').endswith('PythonVersion::new') and len(n['a']) == 3:
            a = T.peel(n['a'][1])
            if a.get('k') == 'Call' and (a.get('fn') or '').endswith('::Some'):
                x = T.peel(a['a'][0])
                if x.get('k') == 'Lit':
                    return x['v'].get('int')
    return None
