"""C05  no stage succeeds with accumulated errors; no collected error is dropped; nothing is emitted / executed before a successful build  (K2)"""
from sa import facts as F, tree as T
from sa.kinds import vspec as VS

LOWER = 'crates/erg_compiler/lower.rs'
BUILD = 'crates/erg_compiler/build_hir.rs'
EFF = 'crates/erg_compiler/effectcheck.rs'
OWN = 'crates/erg_compiler/ownercheck.rs'
COMPILE = 'crates/erg_compiler/compile.rs'
ERR_TYPES = ('Errors', 'CompileError', 'TyCheckError', 'LowerError', 'EffectError', 'OwnershipError')


def is_ok(e):
    e = T.peel(e)
    return e.get('k') == 'Call' and (e.get('fn') or '').endswith('::Ok')


def errs_empty_refine(cond, branch, st):
    s = T.show(cond)
    if branch is True and ('errs.is_empty()' in s) and '!' not in s.split('errs.is_empty()')[0][-2:]:
        return True
    if branch is False and ('!self.errs.is_empty()' in s.replace(' ', '') or 'errs.is_empty()==false' in s.replace(' ', '')):
        return True
    return None


# reviewed sites that bind an error list and do not use it (one reason each)
R6_EXCEPTIONS = {
    'gen_set_with_length_type': 'the failure is the constant evaluation of a set length: the type falls back to an erased length, nothing about the program is wrong',
    'lower_var_def': 'the type specification is instantiated again when the variable is assigned and its errors are reported there (`x: UndefT = 1` is rejected)',
    'lower_redef': 'an assignment whose target is not found is turned into a definition: the failed look-up is the expected case',
}


def run(chk):
    fx = F.Facts()
    chk.rule('C05-R1', 'a stage returns its Ok artifact only on the true edge of `self.errs.is_empty()`: GenericASTLowerer::lower, SideEffectChecker::check, OwnershipChecker::check')
    chk.rule('C05-R2', 'inside GenericASTLowerer::lower and GenericHIRBuilder::check no collected error is dropped: every `Err(..)` arm / `if let Err(..)` binds the errors and '
                       'extends self.errs or returns them; no `.ok()` / `let _ =` / `unwrap_or*` on an error-typed Result')
    chk.rule('C05-R3', 'GenericHIRBuilder::check chains lowering, effect check and ownership check with `?`; in Compiler the code generator (emit) runs only after `?` on the build result')
    # ---- R1
    for file, name in ((LOWER, 'GenericASTLowerer::lower'), (EFF, 'SideEffectChecker::check'), (OWN, 'OwnershipChecker::check')):
        f = fx.fn(file, name)
        dom = VS.Dominates(lambda n: False, is_ok, errs_empty_refine)
        bad = dom.run(f)
        chk.need(dom.good_exits + len(bad) >= 1, '%s: no Ok(..) exit found' % name)
        for b in bad:
            chk.bad('C05-R1', name, 'ok-with-errors', '%s can return `%s` on a path where `self.errs.is_empty()` was not established' % (name, T.show(b)[:60]), file, b.get('l'))
        if not bad:
            chk.ok('C05-R1', name, sample='%s: %d Ok exit(s), all under `self.errs.is_empty()`' % (name, dom.good_exits))
    # ---- R2
    n2 = 0
    for file, name in ((LOWER, 'GenericASTLowerer::lower'), (BUILD, 'GenericHIRBuilder::check')):
        f = fx.fn(file, name)
        types = fx.file(file)['types']
        for n in T.walk(f['body']):
            arms = []
            if n.get('k') == 'Match' and n.get('src') == 'Normal':
                arms = [(a['pat'], a['b'], a['l']) for a in n['arms']]
            elif n.get('k') == 'If':
                lc = [x for x in T.walk(n['c']) if x.get('k') == 'LetCond']
                arms = [(x['pat'], n['t'], n['l']) for x in lc]
            for (pat, body, line) in arms:
                if not any(v.endswith('::Err') for v in T.pat_variants(pat)):
                    continue
                n2 += 1
                binds = T.pat_bindings(pat)
                used = [b for b in binds if any(x.get('k') == 'Local' and x['n'] == b for x in T.walk(body))]
                # the binding that carries the errors is the last one of the pattern (`Err((hir, errs))`, `Err(errs)`)
                errb = binds[-1] if binds else None
                if errb and errb in used:
                    chk.ok('C05-R2', (name, line), sample='%s: `%s` => uses %s' % (name, T.show(pat), errb))
                else:
                    chk.bad('C05-R2', name, 'dropped:%s' % T.show(pat), '%s handles `%s` without using the collected errors: a definite error can disappear' % (name, T.show(pat)), file, line)
            if n.get('k') == 'MCall' and n['n'] in ('ok', 'unwrap_or_default', 'unwrap_or') and any(t in (types[n['rt']] or '') for t in ERR_TYPES) and 'Result<' in (types[n['rt']] or ''):
                n2 += 1
                chk.bad('C05-R2', name, 'discard:%s' % n['n'], '%s discards an error-typed Result with `.%s()`: `%s`' % (name, n['n'], T.show(n)[:80]), file, n['l'])
            if n.get('k') == 'Let' and n['pat'].get('k') == 'Wild' and 'init' in n and any(t in (types[T.peel(n['init']).get('ty', 0)] or '') for t in ERR_TYPES):
                n2 += 1
                chk.bad('C05-R2', name, 'let_', '%s binds an error-typed result to `_`: `%s`' % (name, T.show(n)[:80]), file, n['l'])
            if n.get('k') == 'MCall' and n['n'] == 'unwrap_or_else' and any(t in (types[n['rt']] or '') for t in ERR_TYPES):
                clo = T.peel(n['a'][0]) if n['a'] else {}
                if clo.get('k') == 'Closure':
                    n2 += 1
                    ps = [b for p in clo['params'] for b in T.pat_bindings(p)]
                    if ps and any(x.get('k') == 'Local' and x['n'] == ps[0] for x in T.walk(clo['b'])):
                        chk.ok('C05-R2', (name, n['l'], 'unwrap_or_else'))
                    else:
                        chk.bad('C05-R2', name, 'unwrap_or_else-drops', '%s: `%s` ignores the errors' % (name, T.show(n)[:80]), file, n['l'])
    chk.floor('error-handling sites in lower / check', n2, 5)
    # ---- R3
    f = fx.fn(BUILD, 'GenericHIRBuilder::check')
    stages = {'GenericASTLowerer::lower': False, 'SideEffectChecker::check': False, 'OwnershipChecker::check': False}
    for n in T.walk(f['body']):
        if n.get('k') == 'Match' and n.get('src') == 'Try':
            for c in T.calls(n['x']):
                q = T.cq(c)
                if q in stages:
                    stages[q] = True
    for q, ok in stages.items():
        if ok:
            chk.ok('C05-R3', q, sample='HIRBuilder::check: %s(..)?' % q)
        else:
            chk.bad('C05-R3', 'GenericHIRBuilder::check', 'no-try:' + q, 'GenericHIRBuilder::check does not propagate the failure of %s with `?`' % q, BUILD, f['line'])
    emits = 0
    for g in fx.fns(COMPILE):
        if (g.get('self_ty') or '').split('::')[-1] != 'Compiler':
            continue
        em = [c for c in T.calls(g['body']) if (T.cq(c) or '') == 'PyCodeGenerator::emit']
        if not em:
            continue
        emits += 1
        where = T.norm(g['path'])
        dom = VS.Dominates(lambda n: n.get('k') == 'Match' and n.get('src') == 'Try' and any('build' in (T.cq(c) or '') or 'check' in (T.cq(c) or '') for c in T.calls(n['x'])),
                           lambda n: n.get('k') in ('Call', 'MCall') and (T.cq(n) or '') == 'PyCodeGenerator::emit')
        # Try matches are not Call nodes: mark them through `other`
        bad = dom.run(g)
        if bad:
            chk.bad('C05-R3', where, 'emit-before-build', '%s calls the code generator on a path that does not pass `?` on the build result' % where, COMPILE, bad[0].get('l'))
        else:
            chk.ok('C05-R3', where, sample='%s: build..()? then emit' % where)
    chk.floor('functions calling emit', emits, 3)
    r4(chk, fx)
    from sa.kinds import arity
    arity.rule(chk, fx, 'C05-arity', ('need',))
    # ---- R7: surplus positional arguments
    chk.rule('C05-R7', 'Context::substitute_subr_call rejects a call with more positional arguments than parameters unless the callee has `*args`: the condition that leads to '
                       'gen_too_many_args_error is true for (surplus positionals, no var_params) whatever kw_var_params is (truth table over the two variadic flags)')
    ssc = fx.fn(INQ, 'Context::substitute_subr_call')
    tm = [n for n in T.walk(ssc['body']) if n.get('k') == 'If' and any(c.get('k') == 'MCall' and c['n'] == 'gen_too_many_args_error' for c in T.calls(n['t']))]
    if chk.need(len(tm) == 1, 'substitute_subr_call: the `if .. { return Err(gen_too_many_args_error(..)) }` test was not found (%d)' % len(tm)):
        cond = tm[0]['c']

        def ev7(e, V, K):
            """value of the condition for a call with surplus positional arguments, no keyword arguments, no *args / **kwargs at the call site"""
            e = T.peel(e)
            k = e.get('k')
            if k == 'Binary' and e['op'] in ('&&', '||'):
                a, b = ev7(e['x'], V, K), ev7(e['y'], V, K)
                if a is None or b is None:
                    if e['op'] == '&&' and (a is False or b is False):
                        return False
                    if e['op'] == '||' and (a is True or b is True):
                        return True
                    return None
                return (a and b) if e['op'] == '&&' else (a or b)
            if k == 'Unary' and e.get('op') == '!':
                a = ev7(e['x'], V, K)
                return None if a is None else not a
            sshow = T.show(e).replace(' ', '')
            if k == 'MCall' and e['n'] == 'is_no_var':
                return (not V) and (not K)
            if k == 'MCall' and e['n'] in ('is_none', 'is_some') and sshow.split('.')[-2] in ('var_params', 'kw_var_params') and 'subr' in sshow:
                has = V if 'kw_var_params' not in sshow else K
                return (not has) if e['n'] == 'is_none' else has
            if k == 'Local' and e['n'] == 'there_var':
                return False
            if k == 'Binary' and e['op'] in ('<', '==', '>', '<=', '>='):
                l, r = T.show(T.peel(e['x'])).replace(' ', ''), T.show(T.peel(e['y'])).replace(' ', '')
                # params_len < pos_args.len() [+ kw_args.len()] : surplus positionals, kw_args empty
                if 'params_len' in l and 'pos_args.len()' in r:
                    return {'<': True, '<=': True, '==': False, '>': False, '>=': False}[e['op']]
                if 'params_len' in r and 'pos_args.len()' in l:
                    return {'>': True, '>=': True, '==': False, '<': False, '<=': False}[e['op']]
            return None
        okall = True
        for K in (False, True):
            v = ev7(cond, False, K)
            inst = 'surplus-positional:kw_var=%s' % ('yes' if K else 'no')
            if v is True:
                chk.ok('C05-R7', inst)
            elif v is False:
                okall = False
                chk.bad('C05-R7', 'Context::substitute_subr_call', inst, 'a call with more positional arguments than parameters is not rejected when the callee has %s: '
                        '`f(x: Int, **kw: Int) = x; f(1, 2)` type-checks and fails at run time' % ('`**kwargs` but no `*args`' if K else 'no variadic parameter'), INQ, tm[0]['l'])
            else:
                chk.need(False, 'substitute_subr_call: the too-many-arguments condition could not be evaluated (%s)' % T.show(cond)[:80])
        for K in (False, True):
            v = ev7(cond, True, K)
            if v is True:
                chk.bad('C05-R7', 'Context::substitute_subr_call', 'var-args-rejected:kw_var=%s' % K, 'surplus positional arguments are rejected although the callee has `*args`', INQ, tm[0]['l'])
    # ---- R6: no pattern throws the error list of a lowering step away
    chk.rule('C05-R6', 'no pattern in the lowerer (lower.rs, declare.rs) matches the Err of a fallible lowering step with a wildcard in the place of the error list — '
                       '`Err(_)`, `Err((Some(x), _))` — : the partially lowered node it keeps has type Failure, which is compatible with everything, so the dropped errors are '
                       'the only trace of a definite static error')
    nerr = 0
    for file6 in ('crates/erg_compiler/lower.rs', 'crates/erg_compiler/declare.rs'):
        for f6 in fx.file(file6)['fns']:
            for n6 in T.walk(f6['body']):
                if n6.get('k') == 'PTupleStruct' and n6['d'].endswith('Result::Err') and n6.get('p'):
                    q = n6['p'][0]
                    last = q['p'][-1] if q.get('k') == 'PTuple' and q.get('p') else q
                    nerr += 1
                    unused = False
                    if last.get('k') == 'Bind':
                        holder = None
                        for m6 in T.walk(f6['body']):
                            if m6.get('k') == 'Match':
                                for a6 in m6['arms']:
                                    if any(x is n6 for x in T.walk(a6['pat'])):
                                        holder = a6
                        if holder is not None and not any(x.get('k') == 'Local' and x['n'] == last['n'] for x in T.walk(holder['b'])):
                            unused = True
                    fshort = T.norm(f6['path']).split('::')[-1]
                    if unused and fshort in R6_EXCEPTIONS:
                        chk.ok('C05-R6', ('exception', fshort))
                        chk.notes.append({'exception': '%s ignores `%s`: %s' % (fshort, last['n'], R6_EXCEPTIONS[fshort])})
                    elif unused:
                        chk.bad('C05-R6', T.norm(f6['path']), 'err-unused:%s' % last['n'], '%s binds the error list of a lowering step as `%s` and never uses it: the errors are dropped'
                                % (T.norm(f6['path']), last['n']), file6, f6['line'])
                    elif last.get('k') == 'Wild':
                        chk.bad('C05-R6', T.norm(f6['path']), 'err-wildcard', '%s matches `Err(%s)`: the errors of that lowering step are discarded while its partial result is kept — a '
                                'type / name / arity error in that position is neither reported nor does it stop the compilation' % (T.norm(f6['path']), T.show(q)[:40] if 'k' in q else '..'),
                                file6, f6['line'])
                    else:
                        chk.ok('C05-R6', (T.norm(f6['path']), nerr))
    chk.floor('Err patterns in the lowerer', nerr, 100)
    return ('Dominance rules over the structured HIR of the pipeline functions. That the checker *detects* each definite error at every nesting depth is behaviour of the type checker and is not decided.'), {}


DEFINITE = ('no_var_error', 'no_attr_error', 'too_many_args_error', 'args_missing_error', 'type_mismatch_error', 'singular_no_attr_error')
INQ = 'crates/erg_compiler/context/inquire.rs'


def r4(chk, fx):
    chk.rule('C05-R4', 'a definite-error value (no_var_error, no_attr_error, too_many_args_error, args_missing_error, type_mismatch_error) built in the checker is never discarded: '
                       'it is not a statement of its own and is not bound to `_`')
    chk.rule('C05-R5', 'the arity check of Context::substitute_subr_call counts a parameter without a name as missing unless it was passed positionally: the `missing_params` filter '
                       'answers true for `pt.name() == None` (names are the only evidence of a keyword argument)')
    n = 0
    for file in (INQ, LOWER, 'crates/erg_compiler/context/register.rs'):
        for f in fx.fns(file):
            def visit(node, parent):
                nonlocal n
                if node.get('k') == 'Call' and T.last_seg(node.get('fn') or '') in DEFINITE and 'Error' in (node.get('fn') or ''):
                    n += 1
                    where = T.norm(f['path'])
                    dropped = parent is not None and (parent.get('k') == 'Semi' or (parent.get('k') == 'Let' and parent['pat'].get('k') == 'Wild'))
                    if dropped:
                        chk.bad('C05-R4', where, 'dropped:%s' % T.last_seg(node['fn']), '%s builds `%s(..)` and discards it: the program is accepted although the error was detected'
                                % (where, T.last_seg(node['fn'])), file, node['l'])
                    else:
                        chk.ok('C05-R4', (where, node['l']))
                for c in T.children(node):
                    visit(c, node if 'k' in node else parent)
            visit(f['body'], None)
    chk.floor('definite-error constructions', n, 20)
    f = fx.fn(INQ, 'Context::substitute_subr_call')
    lets = [x for x in T.walk(f['body']) if x.get('k') == 'Let' and x['pat'].get('k') == 'Bind' and x['pat']['n'] == 'missing_params']
    if not chk.need(len(lets) == 1, 'substitute_subr_call: `missing_params` not found'):
        return
    filt = [c for c in T.calls(lets[0]['init']) if c.get('k') == 'MCall' and c['n'] == 'filter']
    if not chk.need(len(filt) == 1 and T.peel(filt[0]['a'][0]).get('k') == 'Closure', 'substitute_subr_call: the filter of missing_params was not recognised'):
        return
    body = T.peel(T.peel(filt[0]['a'][0])['b'])
    none_case = None
    if body.get('k') == 'MCall' and T.show(body['r']).endswith('.name()'):
        if body['n'] == 'is_none_or':
            none_case = True
        elif body['n'] == 'is_some_and':
            none_case = False
        elif body['n'] == 'map_or' and body['a']:
            v = T.peel(body['a'][0]).get('v') or {}
            none_case = v.get('bool')
        elif body['n'] == 'is_none':
            none_case = True
    if none_case is None:
        chk.lost.append('substitute_subr_call: unrecognised form of the missing_params predicate: %s' % T.show(body)[:80])
    elif none_case:
        chk.ok('C05-R5', 'missing-filter', sample='missing_params filter: `%s` (unnamed parameter counts as missing)' % T.show(body)[:70])
    else:
        chk.bad('C05-R5', 'Context::substitute_subr_call', 'unnamed-never-missing', 'the missing_params filter `%s` answers false for a parameter without a name: a call with too few '
                'arguments to a callee with anonymous parameters (`f: (Int, Int) -> Int; f x`) is accepted' % T.show(body)[:80], INQ, filt[0]['l'])
