"""C03  Refinement subtyping is sound for integer predicates: atom rows of is_super_pred_of; And/Or duality  (K1)"""
from sa import facts as F, tree as T
from sa.kinds import ordmodel as OM

FILE = 'crates/erg_compiler/context/compare.rs'
ATOMS = ('Equal', 'NotEqual', 'GreaterEqual', 'LessEqual')


def atom_of(p):
    """('Equal', binding of the constant) for a pattern `Pred::Equal { rhs: name, .. }`"""
    if p.get('k') != 'PStruct':
        return None
    nm = T.last_seg(p['d'])
    if nm not in ATOMS:
        return None
    b = None
    for f in p['f']:
        if f['n'] == 'rhs' and f['p'].get('k') == 'Bind':
            b = f['p']['n']
    return (nm, b)


def alts(p):
    return p['p'] if p.get('k') == 'POr' else [p]


def rows_of(arm):
    """[(lhs atom, lhs const binding, rhs atom, rhs const binding)] for an arm pattern over (lhs, rhs)"""
    out = []
    for alt in alts(arm['pat']):
        if alt.get('k') != 'PTuple' or len(alt['p']) != 2:
            return None
        ls = [atom_of(x) for x in alts(alt['p'][0])]
        rs = [atom_of(x) for x in alts(alt['p'][1])]
        if None in ls or None in rs:
            return None
        for l in ls:
            for r in rs:
                out.append((l[0], l[1], r[0], r[1]))
    return out


def eval_body(b, c1, c2, ordp):
    """b(o) for o in '<=>' (ordering of c1 vs c2): dict or None if unrecognised; second value: has an opaque disjunct"""
    b = T.peel(b)
    k = b.get('k')
    if k == 'Block':
        ss = T.stmts_of(b)
        if len(ss) == 1:
            return eval_body(ss[0], c1, c2, ordp)
        return None, False
    if k == 'Lit' and 'bool' in (b.get('v') or {}):
        return {o: b['v']['bool'] for o in '<=>'}, False
    if k == 'Binary' and b['op'] in ('!=', '=='):
        names = {T.show(T.peel(b['x'])), T.show(T.peel(b['y']))}
        if names == {c1, c2}:
            return {o: (o != '=') if b['op'] == '!=' else (o == '=') for o in '<=>'}, False
        return None, False
    if k == 'Binary' and b['op'] == '||':
        l, lo = eval_body(b['x'], c1, c2, ordp)
        r, ro = eval_body(b['y'], c1, c2, ordp)
        if l is None and r is None:
            return None, False
        if l is None:
            return r, True
        if r is None:
            return l, True
        return {o: l[o] or r[o] for o in '<=>'}, lo or ro
    # try_cmp(A, B).is_some_and(|ord| ord.M())   |   try_cmp(A, B).map(|ord| ord.M()).unwrap_or(false)
    m = None
    cur = b
    if k == 'MCall' and cur['n'] == 'unwrap_or' and T.peel(cur['a'][0]).get('v', {}).get('bool') is False:
        cur = T.peel(cur['r'])
        if cur.get('k') == 'MCall' and cur['n'] == 'map':
            m = cur
    elif k == 'MCall' and cur['n'] == 'is_some_and':
        m = cur
    if m is not None:
        clo = T.peel(m['a'][0])
        call = T.peel(m['r'])
        if clo.get('k') == 'Closure' and call.get('k') == 'MCall' and call['n'] == 'try_cmp' and len(call['a']) == 2:
            inner = T.peel(clo['b'])
            if inner.get('k') == 'MCall' and inner['n'] in ordp and T.peel(inner['r']).get('k') == 'Local':
                a, bb = T.show(T.peel(call['a'][0])), T.show(T.peel(call['a'][1]))
                meth = ordp[inner['n']]
                if (a, bb) == (c1, c2):
                    return {o: o in meth for o in '<=>'}, False
                if (a, bb) == (c2, c1):
                    flip = {'<': '>', '>': '<', '=': '='}
                    return {o: flip[o] in meth for o in '<=>'}, False
    return None, False


def VRlit_false(b):
    from sa.kinds import visit_run as VR
    return VR.lit_false(b)


def run(chk):
    fx = F.Facts()
    chk.rule('C03-R1', 'every atom x atom row of Context::is_super_pred_of (Equal / NotEqual / GreaterEqual / LessEqual on both sides) is sound over the integers: for each '
                       'ordering of the two constants, if the row answers true then {x | lhs atom} really contains {x | rhs atom} (three-orderings model; incompleteness is allowed)')
    chk.rule('C03-R2', 'conjunction / disjunction duality: in the (And, And) arm the outer quantifier ranges over the conjuncts of the super (lhs) side and searches the sub side; '
                       'in the (Or, Or) arm it ranges over the disjuncts of the sub (rhs) side and searches the super side; the comparison passed is is_super_pred_of(super, sub)')
    ordp = OM.ordering_predicates(fx)
    chk.floor('TyParamOrdering predicates', len(ordp), 8)
    fn = fx.fn(FILE, 'Context::is_super_pred_of')
    params = [p.get('n') for p in fn['params']]
    ms = [n for n in T.stmts_of(fn['body']) if T.unsemi(n).get('k') == 'Match']
    if not chk.need(len(ms) == 1 and len(params) == 3, 'is_super_pred_of: expected (self, lhs, rhs) and one top-level match'):
        return 'anchor lost', {}
    m = T.unsemi(ms[0])
    scr = T.peel(m['x'])
    chk.need(scr.get('k') == 'Tup' and [T.show(a) for a in scr['a']] == params[1:], 'is_super_pred_of: scrutinee is not (lhs, rhs)')
    nrows = 0
    first_hit = set()
    for arm in m['arms']:
        rows = rows_of(arm)
        if not rows:
            continue
        if 'g' in arm:
            chk.undecide('arm %s has a guard: not judged' % T.show(arm['pat'])[:60])
            continue
        for (a1, c1, a2, c2) in rows:
            if (a1, a2) in first_hit:
                continue
            first_hit.add((a1, a2))
            nrows += 1
            tab, opaque = eval_body(arm['b'], c1 or '?1', c2 or '?2', ordp)
            inst = '%s:>%s' % (a1, a2)
            if tab is None:
                chk.lost.append('is_super_pred_of: unrecognised body for row %s: %s' % (inst, T.show(arm['b'])[:80]))
                continue
            if opaque:
                chk.undecide('row %s has an opaque disjunct (supertype_of_tp ..): only the comparison part is judged' % inst)
            bad = []
            for o in '<=>':
                sup_all, sup_any = OM.superset(a1, a2, o)
                if tab[o] and not sup_all:
                    bad.append(o)
            if bad:
                chk.bad('C03-R1', 'Context::is_super_pred_of', inst,
                        'row (%s c1, %s c2) answers "super" when c1 %s c2, but {x | x %s c1} does not contain {x | x %s c2} over the integers'
                        % (a1, a2, '/'.join(bad), sym(a1), sym(a2)), FILE, arm['l'])
            else:
                chk.ok('C03-R1', inst, sample='%s: true for c1 %s c2' % (inst, '/'.join(o for o in '<=>' if tab[o]) or 'never'))
    chk.floor('atom x atom rows', nrows, 12)
    # ---- R2
    for kind, want_outer in (('And', 'lhs'), ('Or', 'rhs')):
        arm = None
        for a in m['arms']:
            p = a['pat']
            if p.get('k') == 'PTuple' and len(p['p']) == 2 and all(T.last_seg(q.get('d', '')) == kind for q in p['p']):
                arm = a
        if not chk.need(arm is not None, 'is_super_pred_of: (%s, %s) arm not found' % (kind, kind)):
            continue
        env = {}
        for n in T.walk(arm['b']):
            if n.get('k') == 'Let' and n['pat'].get('k') == 'Bind' and 'init' in n:
                s = T.show(n['init'])
                env[n['pat']['n']] = 'lhs' if params[1] + '.' in s or '(' + params[1] in s else ('rhs' if params[2] + '.' in s else None)
        verdict = None
        for n in T.walk(arm['b']):
            if n.get('k') == 'Match' and n.get('src') == 'ForLoopDesugar':
                it = T.show(n['x'])
                outer = next((side for nm, side in env.items() if nm in it), None)
                if outer is None:
                    continue
                inner = None
                order_ok = None
                for c in T.calls(n):
                    if c.get('k') == 'MCall' and c['n'] in ('get_by', 'any', 'iter') and T.peel(c['r']).get('k') == 'Local' and T.peel(c['r'])['n'] in env and c['n'] == 'get_by':
                        inner = env[T.peel(c['r'])['n']]
                        clo = T.peel(c['a'][1]) if len(c['a']) > 1 else None
                        if clo and clo.get('k') == 'Closure':
                            ps = [p.get('n') for p in clo['params']]
                            call = [q for q in T.calls(clo['b']) if (T.cq(q) or '').endswith('is_super_pred_of')]
                            if call and len(ps) == 2:
                                args = [T.show(T.peel(a)) for a in call[0]['a']]
                                # get_by(value, |elem, value| ..): ps[0] ranges over the searched (inner) set, ps[1] is the outer element
                                sup_arg, sub_arg = args[0], args[1]
                                side = {ps[0]: inner, ps[1]: outer}
                                order_ok = side.get(sup_arg) == 'lhs' and side.get(sub_arg) == 'rhs'
                verdict = (outer, inner, order_ok)
        quant = 'all'
        if verdict is None:
            # iterator form:  X.iter().all(|x| Y.get_by(x, |y, x| is_super_pred_of(..)).is_some())   (`any` = existential outer quantifier)
            for n in T.walk(arm['b']):
                if n.get('k') == 'MCall' and n['n'] in ('all', 'any') and n['a'] and T.peel(n['a'][0]).get('k') == 'Closure':
                    it = T.show(n['r'])
                    outer = next((side for nm, side in env.items() if nm in it), None)
                    if outer is None:
                        continue
                    clo = T.peel(n['a'][0])
                    inner = order_ok = None
                    for c in T.calls(clo['b']):
                        if c.get('k') == 'MCall' and c['n'] == 'get_by' and T.peel(c['r']).get('k') == 'Local' and T.peel(c['r'])['n'] in env:
                            inner = env[T.peel(c['r'])['n']]
                            c2 = T.peel(c['a'][1]) if len(c['a']) > 1 else None
                            if c2 and c2.get('k') == 'Closure':
                                ps = [p.get('n') for p in c2['params']]
                                call = [q for q in T.calls(c2['b']) if (T.cq(q) or '').endswith('is_super_pred_of')]
                                if call and len(ps) == 2:
                                    args = [T.show(T.peel(a)) for a in call[0]['a']]
                                    side = {ps[0]: inner, ps[1]: outer}
                                    order_ok = side.get(args[0]) == 'lhs' and side.get(args[1]) == 'rhs'
                    if inner is not None:
                        verdict = (outer, inner, order_ok)
                        quant = n['n']
        inst = '(%s,%s)' % (kind, kind)
        if verdict is None or None in verdict[:2]:
            chk.lost.append('is_super_pred_of: cannot recognise the quantifier structure of the %s arm' % inst)
            continue
        outer, inner, order_ok = verdict
        if quant == 'any':
            chk.bad('C03-R2', 'Context::is_super_pred_of', inst + ':any', 'the %s arm accepts as soon as *one* element of the %s side is matched (`.any`): every element must be' % (inst, outer), FILE, arm['l'])
        elif outer == want_outer and inner != outer and order_ok:
            chk.ok('C03-R2', inst, sample='%s: for each %s-side element search the %s side with is_super_pred_of(super, sub)' % (inst, outer, inner))
        else:
            chk.bad('C03-R2', 'Context::is_super_pred_of', inst,
                    'the %s arm iterates the %s side and searches the %s side (is_super_pred_of(super, sub) argument order ok: %s); for %s the outer quantifier must range over the %s side'
                    % (inst, outer, inner, order_ok, 'conjunctions' if kind == 'And' else 'disjunctions', want_outer), FILE, arm['l'])
    # ---- the occurrence test that decides whether a refinement constrains its variable at all
    chk.rule('C03-mentions', 'Predicate::mentions (supertype_of treats a predicate that does not mention the refinement variable as no constraint) inspects every variant that carries '
                             'type parameters or sub-predicates: none of them falls into the neutral `_ => false` arm, and an arm for such a variant uses its subject or one of those fields')
    PRED = 'crates/erg_compiler/ty/predicate.rs'
    padt = [a for a in fx.adts('erg_compiler')['adts'] if a['path'].endswith('predicate::Predicate')]
    mf = fx.fn(PRED, 'Predicate::mentions')
    if chk.need(len(padt) == 1 and mf is not None, 'Predicate / Predicate::mentions not found'):
        kids = {v['n']: [f_['n'] for f_ in v['f'] if 'TyParam' in f_['t'] or 'Predicate' in f_['t']] for v in padt[0]['variants']}
        chk.floor('Predicate variants with sub-terms', len([k for k, v in kids.items() if v]), 12)
        mm = [n for n in T.stmts_of(mf['body']) if T.unsemi(n).get('k') == 'Match']
        if chk.need(len(mm) == 1, 'Predicate::mentions: expected one match'):
            handled = {}
            default = None
            for arm in T.unsemi(mm[0])['arms']:
                if arm['pat'].get('k') in ('Wild', 'Bind'):
                    default = arm
                for alt in (arm['pat']['p'] if arm['pat'].get('k') == 'POr' else [arm['pat']]):
                    for v in T.pat_variants(alt):
                        handled.setdefault(v.split('::')[-1], (arm, alt))
            for v, fields in sorted(kids.items()):
                if not fields:
                    continue
                if v not in handled:
                    if default is not None and VRlit_false(default['b']):
                        chk.bad('C03-mentions', 'Predicate::mentions', 'neutral-default:%s' % v, 'Predicate::%s carries %s but falls into the `_ => false` arm of mentions: a refinement '
                                'built from it is taken as unconstrained, so every value of the base type is accepted where it is required' % (v, ', '.join(fields)), PRED, default['l'])
                    elif default is None:
                        chk.bad('C03-mentions', 'Predicate::mentions', 'no-arm:%s' % v, 'no arm for Predicate::%s' % v, PRED, mf['line'])
                    else:
                        chk.ok('C03-mentions', (v, 'non-neutral default'))
                    continue
                arm, alt = handled[v]
                bound = {b if isinstance(b, str) else b.get('n') for b in T.pat_bindings(alt)}
                used = {x['n'] for x in T.walk(arm['b']) if x.get('k') == 'Local'}
                if bound & used:
                    chk.ok('C03-mentions', v, sample='mentions/%s inspects %s' % (v, ', '.join(sorted(bound & used))))
                else:
                    chk.bad('C03-mentions', 'Predicate::mentions', 'ignored:%s' % v, 'the arm of mentions for Predicate::%s binds nothing it uses' % v, PRED, arm['l'])
    # ---- a refinable base type is compared as a whole
    chk.rule('C03-base', 'in compare.rs, a RefinementType obtained with into_refinement() and bound to a local (Nat -> {I: Int | I >= 0}, Bool -> {I: Int | 0 <= I <= 1}) is used with its '
                         'predicate: the local is passed on whole, or its `.pred` is read — reading only `.t` forgets the constraint of the base type (`{I: Nat | I <= 10}` accepted -1)')
    CMP = 'crates/erg_compiler/context/compare.rs'
    nref = 0
    for f_ in fx.fns(CMP):
        for n in T.walk(f_['body']):
            if n.get('k') == 'Let' and n.get('init') is not None and n['pat'].get('k') == 'Bind':
                init = T.peel(n['init'])
                if init.get('k') == 'MCall' and init['n'] == 'into_refinement':
                    nm = n['pat']['n']
                    nid = n['pat'].get('id')
                    uses = [x for x in T.walk(f_['body']) if x.get('k') == 'Local' and x.get('id') == nid]
                    field_reads = {}
                    whole = 0
                    for fld in T.walk(f_['body']):
                        if fld.get('k') == 'Field' and T.peel(fld['x']).get('k') == 'Local' and T.peel(fld['x']).get('id') == nid:
                            field_reads[fld['n']] = field_reads.get(fld['n'], 0) + 1
                    whole = len(uses) - sum(field_reads.values())
                    nref += 1
                    where = T.norm(f_['path'])
                    if 'pred' in field_reads or whole > 0:
                        chk.ok('C03-base', (where, nm, n['l']), sample='%s: `%s` = ..into_refinement(): %s' % (where, nm, 'passed on whole' if whole > 0 else 'its .pred is read'))
                    else:
                        chk.bad('C03-base', where, 'pred-unused:%s' % nm, '%s binds `%s = ..into_refinement()` and reads only %s: the predicate that makes the base type a refinement '
                                '(I >= 0 for Nat) takes no part in the comparison' % (where, nm, ', '.join('.' + k for k in sorted(field_reads)) or 'nothing'), CMP, n['l'])
    chk.floor('into_refinement() locals in compare.rs', nref, 2)
    exact_rule(chk, fx)
    from sa.props.c06 import reduce_rule
    reduce_rule(chk, fx, 'C03-reduce')
    from sa.props.c32 import combinator_rule
    combinator_rule(chk, fx, rid='C03-comb')      # a refinement written `P and Q` must keep both conjuncts: the subtype test is only as sound as the predicate it is given
    return ('Row-by-row soundness of the comparison-atom arms of Context::is_super_pred_of under the three-orderings model (bodies recognised from typed HIR; the truth table of '
            'TyParamOrdering::is_lt/canbe_le/... is read from the source), and the quantifier structure of the And/Or arms. reduce_preds, Not, General* and unification are not decided.'), {}


def exact_rule(chk, fx):
    """bounds of refinement types are compared with ValueObj::try_cmp: two integers must be compared as integers"""
    from sa import matcheval as M
    VAL = 'crates/erg_compiler/ty/value.rs'
    chk.rule('C03-exact', 'ValueObj::try_cmp (the order behind try_compare of refinement bounds) decides a pair of integer values (Int / Nat in any combination) in an arm that converts '
                          'neither to f64 nor through a narrowing / sign-changing `as` cast: through f64, 2^53 and 2^53 + 1 are Equal, through `as i64` 2^64 - 1 is -1, `f x: {9007199254740993}` accepts 9007199254740992')
    f = fx.fn(VAL, 'ValueObj::try_cmp')
    ms = [m for m in T.walk(f['body']) if m.get('k') == 'Match' and m.get('src') == 'Normal' and T.peel(m['x']).get('k') == 'Tup']
    if not chk.need(len(ms) >= 1, 'try_cmp: no match over the pair (self, other)'):
        return
    m = ms[0]

    def guard_val(g):
        g = T.peel(g)
        if g.get('k') == 'Binary' and g['op'] == '&&':
            a, b = guard_val(g['x']), guard_val(g['y'])
            return None if a is None or b is None else a and b
        if g.get('k') == 'MCall' and g['n'] == 'is_num':
            return True
        return None

    types = fx.file(VAL)['types']
    INTS = {'i8': (8, 1), 'i16': (16, 1), 'i32': (32, 1), 'i64': (64, 1), 'i128': (128, 1), 'isize': (64, 1), 'u8': (8, 0), 'u16': (16, 0), 'u32': (32, 0), 'u64': (64, 0), 'u128': (128, 0), 'usize': (64, 0)}

    def lossy(b):
        for n in T.walk(b):
            if n.get('k') in ('Call', 'MCall') and 'f64' in (T.callee(n) or '') + T.show(n)[:40]:
                return T.show(n)[:50]
            if n.get('k') == 'Cast' and 'f64' in T.show(n):
                return T.show(n)[:50]
            if n.get('k') == 'Cast' and isinstance(n.get('from'), int) and isinstance(n.get('ty'), int):
                a, z = INTS.get(types[n['from']]), INTS.get(types[n['ty']])
                if a and z:
                    keeps = (a[1] == z[1] and z[0] >= a[0]) or (a[1] == 0 and z[1] == 1 and z[0] > a[0])
                    if not keeps:
                        return '%s (%s -> %s)' % (T.show(n)[:40], types[n['from']], types[n['ty']])
        return None
    adt = fx.adt('erg_compiler', 'ty::value::ValueObj')
    width = {v['n']: v['f'][0]['t'] for v in adt['variants'] if v['n'] in ('Int', 'Nat') and v.get('f')}
    if not chk.need(set(width) == {'Int', 'Nat'}, 'ValueObj::Int / ValueObj::Nat payload types not found'):
        return
    exact_in_f64 = {k: t in ('i8', 'i16', 'i32', 'u8', 'u16', 'u32') for k, t in width.items()}   # 53 bits of mantissa
    for pair in (('Int', 'Int'), ('Nat', 'Nat'), ('Int', 'Nat'), ('Nat', 'Int')):
        if all(exact_in_f64[x] for x in pair):
            chk.ok('C03-exact', '%s,%s' % pair, sample='(%s, %s): %s / %s convert to f64 exactly' % (pair + (width[pair[0]], width[pair[1]])))
            continue
        verdict = None
        for arm in m['arms']:
            try:
                hit = M.pat_matches(arm['pat'], pair)
            except M.Unknown:
                hit = None
            if hit is False:
                continue
            gv = guard_val(arm['g']) if 'g' in arm else True
            if hit is None or gv is None:
                # may match: lossy only matters if it does; keep looking but remember a lossy candidate
                if lossy(arm['b']):
                    verdict = ('maybe', arm, lossy(arm['b']))
                    break
                continue
            if gv is False:
                continue
            lz = lossy(arm['b'])
            verdict = ('lossy', arm, lz) if lz else ('exact', arm, None)
            break
        key = '%s,%s' % pair
        if verdict is None:
            chk.need(False, 'try_cmp: no arm found for the pair (%s)' % key)
        elif verdict[0] == 'exact':
            chk.ok('C03-exact', key, sample='(%s): %s' % (key, T.show(verdict[1]['b'])[:60]))
        else:
            chk.bad('C03-exact', 'ValueObj::try_cmp', 'pair:' + key, 'try_cmp compares (%s) through `%s`, a conversion that does not keep every value (f64 merges integers above 2^53, a narrowing '
                    'or sign-changing `as` wraps): a refinement bound is satisfied by values outside it' % (key, verdict[2]), VAL, verdict[1].get('l'))


def sym(a):
    return {'Equal': '==', 'NotEqual': '!=', 'GreaterEqual': '>=', 'LessEqual': '<='}[a]
