"""C21  ModuleGraph keeps `index[path] == position of node path`  (K7 coupled state)"""
from sa import facts as F, tree as T

FILE = 'crates/erg_compiler/module/graph.rs'
VEC_MUT = {'push', 'remove', 'clear', 'insert', 'swap_remove', 'retain', 'retain_mut', 'truncate', 'pop', 'drain', 'extend', 'append',
           'swap', 'reverse', 'sort', 'sort_by', 'sort_by_key', 'sort_unstable', 'sort_unstable_by', 'dedup', 'dedup_by', 'dedup_by_key',
           'split_off', 'rotate_left', 'rotate_right', 'resize', 'extend_from_slice', 'push_within_capacity'}
MAP_MUT = {'insert', 'remove', 'clear', 'values_mut', 'iter_mut', 'retain', 'extend', 'get_mut', 'entry', 'remove_entry', 'drain',
           'guaranteed_extend', 'linear_get_mut', 'get_mut_by', 'retain_mut'}


def self_field(n):
    """'graph' for an expression rooted at self.graph (through refs / method chains), else None"""
    ch = T.field_chain(n)
    if ch and len(ch) >= 2 and ch[0] == 'self':
        return ch[1]
    return None


def run(chk):
    fx = F.Facts()
    chk.rule('C21-K7', 'every method of ModuleGraph that changes the membership or order of the node vector `graph`, or assigns a Node::id, '
                       'also updates `index` on that path (index write in the same or an enclosing branch); mutating `depends_on` alone is exempt')
    adt = fx.adt('erg_compiler', 'module::graph::ModuleGraph')
    fields = {f['n']: f['t'] for f in adt['variants'][0]['f']}
    if not chk.need('graph' in fields and 'index' in fields, 'ModuleGraph no longer has fields graph and index'):
        return 'anchor lost', {}
    chk.need('Vec<' in fields['graph'] and 'Node<' in fields['graph'], 'ModuleGraph.graph is no longer a Vec<Node<..>>: %s' % fields['graph'])
    d = fx.file(FILE)
    types = d['types']
    methods = [f for f in d['fns'] if (f.get('self_ty') or '').split('::')[-1] == 'ModuleGraph' and f.get('dk') == 'AssocFn' and not f.get('impl_trait')]
    chk.floor('ModuleGraph methods', len(methods), 15)
    mutators = 0
    for f in methods:
        where = T.norm(f['path'])
        gmut, imut = [], []
        for n, ctx in T.walk_ctx(f['body']):
            k = n.get('k')
            if k == 'MCall':
                fld = self_field(n['r'])
                if fld == 'graph' and n['n'] in VEC_MUT:
                    gmut.append((n, ctx, 'self.graph.%s(..)' % n['n']))
                if fld == 'index' and n['n'] in MAP_MUT:
                    imut.append((n, ctx))
            elif k in ('Assign', 'AssignOp'):
                lhs = T.peel(n['x'])
                if lhs.get('k') == 'Field' and lhs['n'] == 'id' and 'tsort::Node<' in (types[lhs['bt']] or ''):
                    gmut.append((n, ctx, 'node.id = ..'))
                if lhs.get('k') == 'Field' and T.field_chain(lhs) and T.field_chain(lhs)[:2] == ['self', 'graph']:
                    gmut.append((n, ctx, 'self.graph = ..'))
                if lhs.get('k') == 'Field' and T.field_chain(lhs) and T.field_chain(lhs)[:2] == ['self', 'index']:
                    imut.append((n, ctx))
                if lhs.get('k') == 'Index' and self_field(lhs['x']) == 'graph':
                    gmut.append((n, ctx, 'self.graph[i] = ..'))
                if lhs.get('k') == 'Local' and lhs['n'] == 'self':   # *self = ...
                    # whole replacement: the new value must itself carry both fields (checked where it is built)
                    pass
            elif k == 'Struct' and n.get('d', '').endswith('ModuleGraph'):
                names = {x['n'] for x in n['f']}
                if 'graph' in names and 'index' not in names and 'base' not in n:
                    gmut.append((n, ctx, 'ModuleGraph{graph, ..}'))
        if gmut:
            mutators += 1
        for (n, ctx, what) in gmut:
            ok = any(is_prefix(ictx, ctx) for (_, ictx) in imut)
            if ok:
                chk.ok('C21-K7', (where, what), sample='%s: %s with an index update on the same path' % (where, what))
            else:
                chk.bad('C21-K7', where, what, '%s performs `%s` (%s) without updating `index`: index[path] no longer names the node' %
                        (where, what, T.show(n)), FILE, n['l'])
        if not gmut:
            chk.ok('C21-K7', (where, 'no graph mutation'))
    chk.floor('graph mutators', mutators, 4)
    # ---- edge sweep: edges may name paths that are not nodes (inc_ref registers only the referrer), so `remove(p)` must delete every edge to p
    # on every path, whether or not p is a node
    from sa.kinds import vspec as VS
    chk.rule('C21-sweep', 'ModuleGraph::remove deletes the edges pointing at the removed path on every path through the function (also when the path is not a registered node: '
                          'inc_ref registers only the referrer, so such edges exist)')
    rm = [f for f in methods if T.norm(f['path']) == 'ModuleGraph::remove']
    if chk.need(len(rm) == 1, 'ModuleGraph::remove not found'):
        def sweeps(n):
            return n.get('k') == 'MCall' and n['n'] in ('retain', 'remove', 'retain_mut') and 'depends_on' in T.show(n['r'])
        if VS.must_pass(rm[0], sweeps):
            chk.ok('C21-sweep', 'remove', sample='remove: depends_on.retain(|p| p != path) on every path')
        else:
            chk.bad('C21-sweep', 'ModuleGraph::remove', 'sweep', 'ModuleGraph::remove has a path that returns without deleting the edges to the removed path '
                    '(edges to unregistered paths survive: later queries and sort() still see them)', FILE, rm[0]['line'])
    from sa.props.c20 import acyclic_rules
    acyclic_rules(chk, fx, 'C21-cycle')
    query_rule(chk, fx)
    return ('Coupled-state rule over every method of module::graph::ModuleGraph (resolved receivers and field types from typed HIR); cycle refusal: single edge writer behind a '
            'transitive reachability test that is not weakened by a conjunct. '
            'Decides only the representation invariant index[path]==position; query answers, cycle refusal and topological order are not decided.'), {}


def is_prefix(a, b):
    """control context a encloses (or equals) b; loops and closures are transparent"""
    a = [c for c in a if c[0] in ('if', 'arm')]
    b = [c for c in b if c[0] in ('if', 'arm')]
    if len(a) > len(b):
        return False
    for x, y in zip(a, b):
        if x[0] != y[0] or x[1] is not y[1] or (x[0] == 'if' and x[2] != y[2]) or (x[0] == 'arm' and x[2] is not y[2]):
            return False
    return True


def query_rule(chk, fx):
    """an edge may point at a path that is no node (yet): inc_ref registers the referrer only"""
    chk.rule('C21-query', 'the transitive query answers from the edge sets alone: ModuleGraph::inc_ref registers only the referrer (add_node_if_none(referrer)) before it writes the edge, '
                          'so the target of an edge can be an unregistered path — then no exit of deep_depends_on / deep_depends_on_ may depend on `target` being in the node index '
                          '(depends_on, parents and ancestors answer true for such an edge; an early `return false` makes the transitive query disagree with them until the target is '
                          'registered)')
    inc = [f for f in fx.fns(FILE) if T.norm(f['path']) == 'ModuleGraph::inc_ref']
    if not chk.need(len(inc) == 1, 'ModuleGraph::inc_ref not found'):
        return
    registered = set()
    for c in T.calls(inc[0]['body']):
        if c.get('k') == 'MCall' and c['n'] in ('add_node_if_none', 'add_node') and c['a']:
            registered |= {x['n'] for x in T.walk(c['a'][0]) if x.get('k') == 'Local'}
    if 'depends_on' in registered:
        chk.ok('C21-query', 'targets-registered', sample='inc_ref registers the target of the edge as well')
        return
    n = 0
    for f in fx.fns(FILE):
        nm = T.norm(f['path'])
        if nm not in ('ModuleGraph::deep_depends_on', 'ModuleGraph::deep_depends_on_'):
            continue
        n += 1
        # names that stand for the target: the parameter and locals derived from it
        tnames = {'target'}
        for l in T.walk(f['body']):
            if l.get('k') == 'Let' and l.get('init') is not None and any(x.get('k') == 'Local' and x['n'] in tnames for x in T.walk(l['init'])):
                tnames |= set(T.pat_bindings(l['pat']))
        bad = None
        for i in T.walk(f['body']):
            if i.get('k') != 'If':
                continue
            for c in T.calls(i['c']):
                if c.get('k') == 'MCall' and c['n'] in ('contains_key', 'get', 'get_node', 'contains', 'get_mut_node', 'position', 'iter') and \
                        any(x.get('k') == 'Local' and x['n'] in tnames for a in c['a'] for x in T.walk(a)) and \
                        any(w in T.show(T.peel(c['r'])) for w in ('index', 'graph', 'self')) and 'depends_on' not in T.show(T.peel(c['r'])):
                    exits = [r for r in T.walk(i['t']) if r.get('k') == 'Ret'] or [i['t']]
                    bad = (c, i)
        if bad:
            chk.bad('C21-query', nm, 'target-must-be-node', '%s leaves early on `%s`: the answer depends on `target` being a registered node, but inc_ref writes edges to paths it does not '
                    'register — deep_depends_on(a, b) is false while depends_on(a, b) is true until b is registered' % (nm, T.show(bad[0])[:50]), FILE, bad[1].get('l'))
        else:
            chk.ok('C21-query', nm)
    chk.floor('transitive query functions', n, 2)
