"""C17  the transpiler's string escape table is a right inverse of the lexer's unescape table  (K1 across crates)"""
from sa import facts as F, tree as T

LEX = 'crates/erg_parser/lex.rs'
TR = 'crates/erg_compiler/transpile.rs'
UNSAFE = {'"': 'terminates the Python literal', '\\': 'starts an escape in the Python literal', '\n': 'line break inside a single-line literal',
          '\r': 'line break inside a single-line literal', '\0': 'NUL byte in source'}


def lexer_products(fx):
    """{escape char: produced string} from the escape matches of the string lexers, and the set of raw chars copied verbatim"""
    prod = {}
    for fname in ('Lexer::lex_single_str', 'Lexer::lex_multi_line_str', 'Lexer::lex_interpolation_mid'):
        f = fx.fn(LEX, fname)
        for n in T.walk(f['body']):
            if n.get('k') == 'Match' and n.get('src') == 'Normal' and T.peel(n['x']).get('k') == 'Local' and T.peel(n['x'])['n'] == 'next_c':
                for arm in n['arms']:
                    pats = arm['pat']['p'] if arm['pat'].get('k') == 'POr' else [arm['pat']]
                    for p in pats:
                        if p.get('k') != 'PLit' or 'char' not in (p.get('v') or {}):
                            continue
                        out = ''
                        for c in T.calls(arm['b']):
                            if c.get('k') == 'MCall' and c['n'] in ('push', 'push_str') and T.show(c['r']) == 's':
                                a = T.peel(c['a'][0])
                                v = a.get('v') or {}
                                if 'char' in v:
                                    out += v['char']
                                elif 'str' in v:
                                    out += v['str']
                                else:
                                    out += '\x01'      # computed character (\\x..): anything
                        prod.setdefault(p['v']['char'], set()).add(out)
    return prod


COUNTER = 'fresh_var_n'
# the one take whose name cannot clash with names taken before the bump: (function, callee) -> (required template, reason)
SCOPED = {('PyScriptGenerator::transpile_params', 'transpile_expr'): ('_', 'the name `_N` is a parameter of the def being generated; whatever the default value takes while it is '
                                                                       'transpiled names a parameter of another def or a module-level helper with another prefix')}


def fmt_literals(bs):
    """literal pieces of a lowered format_args! template (length-prefixed pieces, bytes >= 0x80 are argument ops)"""
    out, i = [], 0
    while i < len(bs) and bs[i] != 0:
        n = bs[i]
        if n < 0x80:
            out.append(bytes(bs[i + 1:i + 1 + n]).decode('utf-8', 'replace'))
            i += 1 + n
        else:
            i += 1
    return out


def templates_of(fn):
    """{line: first literal piece} for every format template of the function that mentions the counter (directly, or through a local bound to it)"""
    locs = set()
    for n in T.walk(fn['body']):
        if n.get('k') == 'Let' and n.get('init') is not None:
            i = T.peel(n['init'])
            if i.get('k') == 'Field' and i.get('n') == COUNTER and n['pat'].get('k') == 'Bind':
                locs.add(n['pat']['id'])
    lines = set()
    for n in T.walk(fn['body']):
        if n.get('k') == 'Tup' and any('FormatLiteral' in m or m.endswith('format_args') for m in (n.get('m') or [])):
            for a in n['a']:
                a = T.peel(a)
                if (a.get('k') == 'Field' and a.get('n') == COUNTER) or (a.get('k') == 'Local' and a.get('id') in locs):
                    lines.add(n.get('l'))
    out = {}
    for n in T.walk(fn['body']):
        if n.get('k') == 'Call' and (n.get('fn') or '').endswith('Arguments::<\'a>::new') and n.get('l') in lines:
            bs = (T.peel(n['a'][0]).get('v') or {}).get('bytes')
            if bs:
                lits = fmt_literals(bs)
                out[n['l']] = lits[0] if lits and bs[0] < 0x80 else ''
    return out


def types_of(fx):
    return fx.file(TR)['types']


def fresh_rule(chk, fx):
    """typestate over PyScriptGenerator's fresh-name counter: taken (read into a name) -> bumped, with nothing that can take another name in between"""
    from sa.kinds import callgraph as CG
    chk.rule('C17-fresh', 'generated Python names are unique: once PyScriptGenerator reads its counter fresh_var_n into a name, the counter is incremented before any call '
                          'that can itself take a name from the counter (resolved call graph), and before the function returns; otherwise two generated functions / temporaries '
                          'share a name and the later definition silently replaces the earlier one')
    d = fx.file(TR)
    fns = {T.norm(f['path']): f for f in d['fns'] if T.norm(f['path']).startswith('PyScriptGenerator::')}

    def is_counter(n):
        return n.get('k') == 'Field' and n.get('n') == COUNTER

    direct = {nm for nm, f in fns.items() if any(is_counter(n) for n in T.walk(f['body']))}
    direct.discard('PyScriptGenerator::fmt')
    chk.floor('PyScriptGenerator methods that take fresh names', len(direct), 7)
    g, _ = CG.graph(fx, 'erg_compiler')
    takers = set(direct)
    changed = True
    while changed:
        changed = False
        for nm in fns:
            if nm not in takers and any(c in takers for c in g.get(nm, ())):
                takers.add(nm)
                changed = True
    chk.analysed['methods that can reach a fresh-name site'] = len(takers)
    tpl = {nm: templates_of(fns[nm]) for nm in direct}
    chk.floor('fresh-name templates', sum(len(v) for v in tpl.values()), 9)
    reach_tpl = {}
    for nm in takers:
        rs = CG.reachable(g, [nm])
        reach_tpl[nm] = set().union(*[set(tpl[r].values()) for r in rs if r in tpl]) if rs else set()
    nsites = [0]

    def ev(n, st, fn):
        """evaluation-order walk; st = line of a read of the counter that has not been followed by an increment yet, or None"""
        k = n.get('k')
        if k == 'AssignOp' and is_counter(T.peel(n['x'])):
            st = ev(n['y'], st, fn)
            if st is not None:
                chk.ok('C17-fresh', (fn, 'bumped-after-take', nsites[0]))
            nsites[0] += 1
            return None
        if k == 'Assign' and is_counter(T.peel(n['x'])):
            return ev(n['y'], st, fn)
        if is_counter(n):
            return n.get('l') if st is None else st
        if k == 'If':
            st = ev(n['c'], st, fn)
            a = ev(n['t'], st, fn)
            b = ev(n['e'], st, fn) if n.get('e') else st
            return a if a is not None else b
        if k == 'Match':
            st = ev(n['x'], st, fn)
            outs = []
            for arm in n['arms']:
                s2 = st
                if arm.get('g'):
                    s2 = ev(arm['g'], s2, fn)
                outs.append(ev(arm['b'], s2, fn))
            for o in outs:
                if o is not None:
                    return o
            return None if outs else st
        if k == 'Ret':
            if n.get('x'):
                st = ev(n['x'], st, fn)
            if st is not None:
                chk.bad('C17-fresh', fn, 'return-before-bump', '%s returns after taking a name from fresh_var_n (line %s) without incrementing the counter: the next generated name '
                        'is the same' % (fn, st), TR, n.get('l'))
            return None
        for c in T.children(n):
            if 'k' in c or 'pat' in c or 'b' in c:
                st = ev(c, st, fn)
        if k in ('Call', 'MCall') and st is not None:
            cal = T.norm(T.callee(n) or '')
            mine = {t for l, t in tpl[fn].items() if l >= st} or set(tpl[fn].values())
            sc = SCOPED.get((fn, cal.split('::')[-1]))
            if cal in takers and sc and mine == {sc[0]}:
                chk.ok('C17-fresh', (fn, 'scoped', cal), sample='%s: %s' % (fn, sc[1]))
            elif cal in takers and (mine & reach_tpl.get(cal, set()) or '' in mine):
                chk.bad('C17-fresh', fn, 'call-before-bump:%s' % cal.split('::')[-1],
                        '%s reads fresh_var_n into a name (line %s) and calls %s before incrementing it: a name generated inside that call is identical, so one generated '
                        'definition overwrites the other in the emitted script' % (fn, st, cal), TR, n.get('l'))
        return st

    for nm in sorted(direct):
        f = fns[nm]
        st = ev(f['body'], None, nm)
        if st is not None:
            chk.bad('C17-fresh', nm, 'end-before-bump', '%s takes a name from fresh_var_n (line %s) and can reach its end without incrementing the counter' % (nm, st), TR, st)
    chk.floor('counter increments after a take', nsites[0], 10)


def all_templates(fn):
    """[(line, [literal pieces], starts_with_literal)] of every format template in the function"""
    out = []
    for n in T.walk(fn['body']):
        if n.get('k') == 'Call' and (n.get('fn') or '').endswith("Arguments::<'a>::new") and n.get('a'):
            bs = (T.peel(n['a'][0]).get('v') or {}).get('bytes')
            if bs:
                out.append((n.get('l'), fmt_literals(bs), bs[0] < 0x80))
    return out


def paren_rule(chk, fx):
    chk.rule('C17-paren', 'a Python expression the transpiler returns for an Erg expression is self-contained: every template that is a conditional expression (`X if C else Y`) is '
                          'wrapped in parentheses — it binds weaker than every operator, so `(if c, do 1, do 2) + 3` written as `1 if c else 2 + 3` computes another value')
    n = 0
    for f in fx.file(TR)['fns']:
        nm = T.norm(f['path'])
        if not nm.startswith('PyScriptGenerator::'):
            continue
        for line, lits, lit_first in all_templates(f):
            joined = '\x00'.join(lits)
            is_cond = any(l.strip() == 'if' or l.startswith(' if ') for l in lits) and any(' else ' in l or l.strip() == 'else' or l.startswith(' else') for l in lits) and '\n' not in joined and ':' not in joined
            is_lambda = False   # `(lambda ..:` is completed by later pushes: not a whole template, not judged here
            if not (is_cond or is_lambda):
                continue
            n += 1
            opened = lit_first and lits[0].startswith('(')
            closed = lits[-1].rstrip().endswith(')')
            key = '%s:%s' % (nm, 'cond' if is_cond else 'lambda')
            if opened and closed:
                chk.ok('C17-paren', (key, line), sample='%s: %r' % (nm, lits))
            else:
                chk.bad('C17-paren', nm, ('cond' if is_cond else 'lambda') + ':' + '|'.join(lits)[:40], '%s returns the template %r without parentheses: placed under an operator or a call '
                        'the %s swallows its neighbour (`x = (if c, do 1, do 2) + 3` prints 1 from the script, 4 from the bytecode)' % (nm, lits, 'conditional expression' if is_cond else 'lambda'), TR, line)
    chk.floor('conditional-expression templates of the transpiler', n, 2)


def _str_pieces(e):
    """pieces of a string-valued expression: literal text or '?' (run-time text); a list of alternatives (each a list of pieces)"""
    e = T.peel(e)
    k = e.get('k')
    if k == 'Lit' and isinstance(e.get('v'), dict):
        if 'str' in e['v']:
            return [[e['v']['str']]]
        if 'char' in e['v']:
            return [[e['v']['char']]]
    if k == 'MCall' and e['n'] in ('to_string', 'to_owned', 'into', 'clone', 'as_str') and not e['a']:
        return _str_pieces(e['r'])
    if k == 'Call' and T.last_seg(e.get('fn') or '') in ('from', 'to_string', 'to_owned') and len(e['a']) == 1:
        return _str_pieces(e['a'][0])
    if k == 'Match':
        out = []
        for a in e['arms']:
            b = T.peel(a['b'])
            if b.get('k') == 'Call' and 'panic' in (b.get('fn') or '') or any('unreachable' in m or 'panic' in m for m in (b.get('m') or [])):
                continue
            out += _str_pieces(a['b'])
        return out or [['?']]
    if k == 'If' and 'e' in e:
        return _str_pieces(e['t']) + _str_pieces(e['e'])
    if k == 'Block' and 'e' in e and not e.get('s'):
        return _str_pieces(e['e'])
    # format!(..): a block / call holding Arguments::new(template bytes, ..)
    for n in T.walk(e):
        if n.get('k') == 'Call' and (n.get('fn') or '').endswith("Arguments::<'a>::new") and n.get('a'):
            bs = (T.peel(n['a'][0]).get('v') or {}).get('bytes')
            if bs:
                pieces, i = [], 0
                while i < len(bs) and bs[i] != 0:
                    ln = bs[i]
                    if ln < 0x80:
                        pieces.append(bytes(bs[i + 1:i + 1 + ln]).decode('utf-8', 'replace'))
                        i += 1 + ln
                    else:
                        if not pieces or pieces[-1] != '?':
                            pieces.append('?')
                        i += 1
                return [pieces]
    return [['?']]


def _string_paths(fn, var_hint=None):
    """every way the function can build the string it returns: [[piece, ..], ..]"""
    results = []

    def run(stmts, state):
        """state: dict local-name -> pieces (list); returns list of (state, returned pieces | None)"""
        if not stmts:
            return [(state, None)]
        st, rest = T.unsemi(stmts[0]), stmts[1:]
        k = st.get('k')
        out = []
        if k == 'Let' and st.get('init') is not None and st['pat'].get('k') == 'Bind':
            for alt in _str_pieces(st['init']):
                s2 = dict(state)
                s2[st['pat']['n']] = list(alt)
                out += run(rest, s2)
            return out
        if k == 'AssignOp' and st['op'] in ('+', '+=') and T.peel(st['x']).get('k') == 'Local' and T.peel(st['x'])['n'] in state:
            nm = T.peel(st['x'])['n']
            for alt in _str_pieces(st['y']):
                s2 = dict(state)
                s2[nm] = state[nm] + list(alt)
                out += run(rest, s2)
            return out
        if k == 'MCall' and st['n'] in ('push', 'push_str') and T.peel(st['r']).get('k') == 'Local' and T.peel(st['r'])['n'] in state and st['a']:
            nm = T.peel(st['r'])['n']
            for alt in _str_pieces(st['a'][0]):
                s2 = dict(state)
                s2[nm] = state[nm] + list(alt)
                out += run(rest, s2)
            return out
        if k == 'If':
            branches = [st['t']] + ([st['e']] if 'e' in st else [{'k': 'Block', 's': []}])
            for b in branches:
                b = T.peel(b)
                inner = T.stmts_of(b) if b.get('k') == 'Block' else [b]
                for s2, ret in run(list(inner), dict(state)):
                    if ret is not None:
                        out.append((s2, ret))
                    else:
                        out += run(rest, s2)
            return out
        if k == 'Match' and rest == [] or (k == 'Match' and not rest):
            for a in st['arms']:
                b = T.peel(a['b'])
                inner = T.stmts_of(b) if b.get('k') == 'Block' else [b]
                out += run(list(inner), dict(state))
            return out
        if k == 'Ret':
            return [(state, value_of(st.get('x'), state))]
        if not rest:
            return [(state, value_of(st, state))]
        return run(rest, state)

    def value_of(e, state):
        e = T.peel(e)
        if e.get('k') == 'Local' and e['n'] in state:
            return state[e['n']]
        alts = _str_pieces(e)
        return alts[0] if len(alts) == 1 else ['?alt']
    body = T.peel(fn['body'])
    for s2, ret in run(list(T.stmts_of(body)) if body.get('k') == 'Block' else [body], {}):
        if ret is not None:
            results.append([p for p in ret if p != ''])
    return results


def enclosed_rule(chk, fx):
    import re
    chk.rule('C17-enclosed', 'the Python text PyScriptGenerator returns for an operator expression stands on its own under any neighbouring operator: every way transpile_binop and '
                             'transpile_unaryop build their result starts with `(` or `name(` and ends with `)` (string construction followed path by path: literals, format templates, '
                             '`+=` / push) — `-x ** 2` for Erg\'s `(-x) ** 2` is `-(x ** 2)` in Python')
    for name in ('transpile_binop', 'transpile_unaryop'):
        f = fx.fn(TR, 'PyScriptGenerator::' + name)
        paths = _string_paths(f)
        if not chk.need(paths, '%s: no way of building the result was recognised' % name):
            continue
        chk.count('result shapes of operator transpilers', len(paths))
        for pieces in paths:
            first, last = (pieces[0] if pieces else ''), (pieces[-1] if pieces else '')
            shape = ''.join(p if p != '?' else '…' for p in pieces)[:50]
            opened = first not in ('?', '?alt') and (first.startswith('(') or re.match(r'^[A-Za-z_][A-Za-z0-9_]*\(', first))
            closed = last not in ('?', '?alt') and last.rstrip().endswith(')')
            if opened and closed:
                chk.ok('C17-enclosed', (name, shape), sample='%s: %s' % (name, shape))
            else:
                chk.bad('C17-enclosed', 'PyScriptGenerator::' + name, 'open:' + shape[:30], '%s can return `%s`, which is not enclosed in parentheses: under a tighter-binding neighbour '
                        '(`**`, an attribute, a call) Python groups it differently — `(-x) ** 2` becomes `-x ** 2` = -(x ** 2)' % (name, shape), TR, f.get('line'))


def classbody_rule(chk, fx):
    chk.rule('C17-classbody', 'a method stays an attribute of its class: PyScriptGenerator::transpile_def writes `global <name>` (its device for definitions inside helper functions) only '
                              'on a path that excludes the level of a class body, and transpile_classdef marks that level around the block of methods — `global show` inside `class C:` '
                              'binds the method at module level and `c.show()` raises AttributeError')
    fd = fx.fn(TR, 'PyScriptGenerator::transpile_def')
    fc = fx.fn(TR, 'PyScriptGenerator::transpile_classdef')
    site = None
    for n, ctx in T.walk_ctx(fd['body']):
        if n.get('k') == 'Call' and (n.get('fn') or '').endswith("Arguments::<'a>::new") and n.get('a'):
            bs = (T.peel(n['a'][0]).get('v') or {}).get('bytes')
            if bs and any(l.startswith('global ') for l in fmt_literals(bs)):
                site = (n, ctx)
    if site is None:
        chk.ok('C17-classbody', 'no-global', sample='transpile_def writes no `global` statement')
        return
    n, ctx = site
    conds = [T.show(c[1]) for c in ctx if c[0] == 'if']
    fields = set()
    for c in ctx:
        if c[0] == 'if':
            for x in T.walk(c[1]):
                if x.get('k') == 'Field':
                    fields.add(x['n'])
    marker = sorted(f for f in fields if f != 'level' and f != 'globals')
    marked = [f for f in marker if any(a.get('k') in ('Assign',) and T.peel(a['x']).get('n') == f for a in T.walk(fc['body']))
              or any(c.get('k') == 'MCall' and c['n'] in ('replace', 'insert', 'take', 'push') and T.peel(c['r']).get('n') == f for c in T.calls(fc['body']))]
    if marked:
        chk.ok('C17-classbody', 'guarded', sample='`global` is written under %s; transpile_classdef sets %s' % (conds[:1], marked))
    else:
        chk.bad('C17-classbody', 'PyScriptGenerator::transpile_def', 'global-in-class-body', 'transpile_def writes `global <name>` for every definition below the top level (conditions: %s) '
                'and nothing transpile_classdef sets takes part in them: a method `show` of class C becomes a module-level function, `c.show()` raises AttributeError from the script '
                'while the bytecode prints the value' % (conds[:2] or 'none'), TR, n.get('l'))


def kwname_rule(chk, fx):
    chk.rule('C17-kwname', 'the two sides of a keyword argument agree on the Python name: PyScriptGenerator::transpile_params names a parameter with transpile_name (which mangles local '
                           'names with their definition site, `y_L1_C6`), so transpile_args must name the keyword of a call to an Erg subroutine through the same function — a name built '
                           'from the keyword text alone (`y__`) matches no parameter')
    fp = fx.fn(TR, 'PyScriptGenerator::transpile_params')
    fa = fx.fn(TR, 'PyScriptGenerator::transpile_args')
    namers = {'transpile_name', 'transpile_ident'}
    param_named = any(T.last_seg(T.callee(c) or c.get('n') or '') in namers for c in T.calls(fp['body']))
    if not chk.need(param_named, 'transpile_params no longer names parameters through transpile_name / transpile_ident'):
        return
    # the template that writes `name=value` for a keyword argument
    kw_sites = []
    for n in T.walk(fa['body']):
        if n.get('k') == 'Tup' and any('format_args' in m or 'FormatLiteral' in m for m in (n.get('m') or [])):
            if any('keyword' in T.show(a) for a in n['a']):
                kw_sites.append(n)
    if not chk.need(kw_sites, 'transpile_args: the template writing a keyword argument was not found'):
        return
    for n in kw_sites:
        through = any(T.last_seg(T.callee(c) or c.get('n') or '') in namers for a in n['a'] if 'keyword' in T.show(a) for c in T.calls(a))
        if through:
            chk.ok('C17-kwname', 'transpile_args')
        else:
            chk.bad('C17-kwname', 'PyScriptGenerator::transpile_args', 'keyword-text', 'transpile_args writes the keyword of a call from its text (`%s`) while transpile_params mangles the '
                    'parameter with its definition site: `p! x, y := 10 = ..` / `p! 1, y:=5` gives `def p..(x_L1_C3,y_L1_C6 = ..)` and the call `(p..)(Nat(1),y__=Nat(5),)`' %
                    next(T.show(a)[:40] for a in n['a'] if 'keyword' in T.show(a)), TR, n.get('l'))


def prelude_rule(chk, fx):
    import itertools
    from sa.kinds import prelude as P
    chk.rule('C17-prelude', 'the runtime modules are appended to the script prelude with their `from _erg_x import y` lines deleted, so for every order in which a program can trigger the '
                            'loaders (all permutations of all subsets of PyScriptGenerator::load_*_if_not) a module is appended only after the modules defining the names it needs while '
                            'it is being defined (base classes such as MutType / Int / Nat); and once the built-in types are loaded every deleted import is defined by the end of the '
                            'prelude — `r = 0..3` before any literal put _erg_int.py ahead of _erg_type.py: NameError: name \'MutType\' is not defined')
    mods = P.module_table(F.REPO)
    by_text = {src: m for m, (src, _, _) in mods.items()}
    lds = P.loaders(fx, TR, by_text)
    if not chk.need(len(lds) >= 5, 'PyScriptGenerator: fewer than 5 load_*_if_not functions found (%d)' % len(lds)):
        return
    unknown = [(k, op) for k, ops in lds.items() for op in _flat(ops) if op[0] == 'unknown' or (op[0] == 'append' and op[1] == '?')]
    if unknown:
        chk.need(False, 'loader with an unrecognised statement: %s' % (unknown[:3],))
        return
    # names whose import line replace_import deletes
    rp = fx.fn(TR, 'PyScriptGenerator::replace_import')
    stripped = set()
    for c in T.calls(rp['body']):
        if c.get('k') == 'MCall' and c['n'] == 'replace' and c['a']:
            v = (T.peel(c['a'][0]).get('v') or {}).get('str') or ''
            if ' import ' in v:
                stripped.add(v.split(' import ')[1].strip())
    chk.floor('import lines deleted by replace_import', len(stripped), 10)
    entries = [k for k in lds if any(op[0] == 'append' for op in _flat(lds[k])) or any(op[0] == 'call' for op in _flat(lds[k]))]
    norders = 0
    deftime, calltime = {}, {}
    for r in range(1, len(entries) + 1):
        for order in itertools.permutations(entries, r):
            norders += 1
            bad, seq = P.simulate(order, lds, mods, stripped)
            for m, name, line, before in bad:
                deftime.setdefault((m, name), (order, before, line))
            if 'load_builtin_types_if_not' in order:
                defined = set()
                for m in seq:
                    if m in mods:
                        defined |= mods[m][1]
                for m in seq:
                    if m not in mods:
                        continue
                    for node_name in _imported_names(mods[m][0]):
                        if node_name in stripped and node_name not in defined:
                            calltime.setdefault((m, node_name), order)
    chk.count('loader orders simulated', norders)
    for (m, name), (order, before, line) in sorted(deftime.items()):
        chk.bad('C17-prelude', 'PyScriptGenerator', 'deftime:%s needs %s' % (m, name), '%s.py is appended before the module that defines `%s`, which it needs at line %d while being defined '
                '(loader order %s; prelude so far: %s): the script stops with NameError before the program starts' % (m, name, line, ' > '.join(o[5:-7] for o in order), ', '.join(before) or 'empty'),
                TR, None)
    for (m, name), order in sorted(calltime.items()):
        chk.bad('C17-prelude', 'PyScriptGenerator', 'calltime:%s needs %s' % (m, name), '%s.py imports `%s` from a runtime module, the import line is deleted and no module defining it is '
                'ever appended (loader order %s): a NameError as soon as that code runs' % (m, name, ' > '.join(o[5:-7] for o in order)), TR, None)
    if not deftime and not calltime:
        chk.ok('C17-prelude', 'all-orders', sample='%d loader orders: every module follows its definition-time prerequisites' % norders)


def _flat(ops):
    for op in ops:
        yield op
        if op[0] == 'if':
            yield from _flat(op[3])
            yield from _flat(op[4])


def _imported_names(src):
    import ast
    out = []
    for st in ast.walk(ast.parse(src)):
        if isinstance(st, ast.ImportFrom) and (st.module or '').startswith('_erg_'):
            out += [a.name for a in st.names]
    return out


def run(chk):
    fx = F.Facts()
    chk.rule('C17-escape', 'every character the lexer\'s escape handlers can put into a string token that cannot stand raw inside a Python "..." literal '
                           '(quote, backslash, newline, CR, NUL) is in the domain of PyScriptGenerator::escape_str, and the backslash is escaped first')
    prod = lexer_products(fx)
    chk.floor('lexer escape kinds', len(prod), 8)
    produced = set()
    for k, outs in prod.items():
        for o in outs:
            produced |= set(o)
    esc = fx.fn(TR, 'PyScriptGenerator::escape_str')
    domain = []
    for c in T.calls(esc['body']):
        if c.get('k') == 'MCall' and c['n'] == 'replace' and c['a']:
            a = T.peel(c['a'][0])
            v = a.get('v') or {}
            domain.append(v.get('char') or v.get('str'))
    domain = [d for d in domain if d]
    # replacements applied to the string *value* before it is handed to escape_str (transpile_lit); method chains nest receiver-first,
    # so inside one chain the innermost replace runs first, and the whole pre-chain runs before escape_str
    pre = []
    lit_fn = fx.fn(TR, 'PyScriptGenerator::transpile_lit')
    from_value = False
    for n_ in T.walk(lit_fn['body']):
        if n_.get('k') == 'Let' and n_.get('init') is not None and 'escape_str' not in T.show(n_['init']):
            chain = [c for c in T.calls(n_['init']) if c.get('k') == 'MCall' and c['n'] == 'replace' and c['a']]
            if chain:
                for c in chain:
                    v = T.peel(c['a'][0]).get('v') or {}
                    pre.append(v.get('char') or v.get('str'))
                inner = chain[-1]['r']
                if 'token' not in T.show(inner):
                    from_value = True
    pre = [d for d in pre if d]
    if pre and not from_value:
        pre = []      # escaping the token text cannot tell the delimiters from the content
    own = list(domain)
    loop_form = False
    if not own:
        # single-pass form: `for c in s.chars() { match c { '\n' => out.push_str("\\n"), .., c => out.push(c) } }`
        chk.rule('C17-utf8', 'escape_str walks the characters of the literal, not its UTF-8 bytes: a byte pushed back with `b as char` turns every non-ASCII character into two or three '
                             'Latin-1 characters, so the script prints other text than the bytecode')
        for m in T.walk(esc['body']):
            if m.get('k') == 'Match' and m.get('src') == 'Normal':
                lits = []
                for arm in m['arms']:
                    for q in T.walk(arm['pat']):
                        if q.get('k') == 'PLit' and isinstance(q.get('v'), dict):
                            if 'char' in q['v']:
                                lits.append(q['v']['char'])
                            elif 'int' in q['v'] and 0 <= q['v']['int'] < 128:
                                lits.append(chr(q['v']['int']))
                            elif 'byte' in q['v'] and 0 <= q['v']['byte'] < 128:
                                lits.append(chr(q['v']['byte']))
                            elif 'bytes' in q['v'] and len(q['v']['bytes']) == 1:
                                lits.append(chr(q['v']['bytes'][0]))
                if len(lits) >= 3:
                    domain = lits
                    loop_form = True
        if loop_form:
            over_bytes = any(c.get('k') == 'MCall' and c['n'] in ('bytes', 'as_bytes', 'into_bytes') for c in T.calls(esc['body']))
            casts = [n for n in T.walk(esc['body']) if n.get('k') == 'Cast' and types_of(fx)[n['ty']] == 'char' and types_of(fx)[n['from']] == 'u8']
            if over_bytes and casts:
                chk.bad('C17-utf8', 'PyScriptGenerator::escape_str', 'byte-as-char', 'escape_str iterates the bytes of the literal and pushes `%s`: "é" (0xC3 0xA9) comes out as "Ã©" in the '
                        'transpiled script' % T.show(casts[0])[:30], TR, casts[0].get('l'))
            else:
                chk.ok('C17-utf8', 'chars')
    own_n = len(domain)
    domain = domain + pre
    chk.floor('escape_str replacements', len(domain), 3)
    # method chains are nested receiver-first: the innermost receiver is applied first; T.calls yields outermost first
    order_applied = (list(reversed(pre)) + list(reversed(domain[:own_n]))) if not loop_form else (list(reversed(pre)) or ['\\']) + domain      # a single pass cannot double an escape
    for ch, why in UNSAFE.items():
        inst = repr(ch)
        if ch not in produced and '\x01' not in produced:
            chk.ok('C17-escape', (inst, 'not produced'))
            continue
        if ch in domain:
            chk.ok('C17-escape', inst, sample='%s is escaped by escape_str' % inst)
        else:
            chk.bad('C17-escape', 'PyScriptGenerator::escape_str', 'unescaped:%s' % inst,
                    'a string token can contain %s (the lexer unescapes it) but escape_str does not escape it: %s, so the transpiled script differs from the bytecode or is not valid Python'
                    % (inst, why), TR, esc['line'])
    if '\\' in domain:
        if order_applied and order_applied[0] == '\\':
            chk.ok('C17-escape', 'backslash-first')
        else:
            chk.bad('C17-escape', 'PyScriptGenerator::escape_str', 'backslash-order', 'escape_str escapes the backslash after other characters: their escapes get doubled', TR, esc['line'])
    # the escape written for NUL must not be extensible by the character that follows it
    short = [n for n in T.walk(esc['body']) if n.get('k') == 'Lit' and isinstance(n.get('v'), dict) and n['v'].get('str') == '\\0']
    if short:
        chk.bad('C17-escape', 'PyScriptGenerator::escape_str', 'nul-octal', 'escape_str writes NUL as `\\0`: followed by a digit Python reads a longer octal escape (`"a\\01b"` has '
                'length 3 in the script, 4 in the bytecode); `\\x00` has a fixed width', TR, short[0].get('l'))
    else:
        chk.ok('C17-escape', 'nul-fixed-width')
    fresh_rule(chk, fx)
    paren_rule(chk, fx)
    prelude_rule(chk, fx)
    kwname_rule(chk, fx)
    classbody_rule(chk, fx)
    enclosed_rule(chk, fx)
    return ('Table rule across crates: the characters produced by the escape arms of the three string lexers (typed HIR) against the replace chain of PyScriptGenerator::escape_str. '
            'Behavioural equivalence of the transpiled script and the bytecode is not decided.'), {'exhaustive': True}
