"""C17  the transpiler's string escape table is a right inverse of the lexer's unescape table  (K1 across crates)"""
from sa import facts as F, tree as T

LEX = 'crates/erg_parser/lex.rs'
TR = 'crates/erg_compiler/transpile.rs'
UNSAFE = {'"': 'terminates the Python literal', '\\': 'starts an escape in the Python literal', '\n': 'line break inside a single-line literal',
          '\r': 'line break inside a single-line literal', '\0': 'NUL byte in source'}


def lexer_products(fx):
    """{escape char: produced string} from the escape matches of the string lexers, and the set of raw chars copied verbatim"""
    prod = {}
    for fname in ('Lexer::lex_single_str', 'Lexer::lex_multi_line_str', 'Lexer::lex_interpolation_mid'):
        f = fx.fn(LEX, fname)
        for n in T.walk(f['body']):
            if n.get('k') == 'Match' and n.get('src') == 'Normal' and T.peel(n['x']).get('k') == 'Local' and T.peel(n['x'])['n'] == 'next_c':
                for arm in n['arms']:
                    pats = arm['pat']['p'] if arm['pat'].get('k') == 'POr' else [arm['pat']]
                    for p in pats:
                        if p.get('k') != 'PLit' or 'char' not in (p.get('v') or {}):
                            continue
                        out = ''
                        for c in T.calls(arm['b']):
                            if c.get('k') == 'MCall' and c['n'] in ('push', 'push_str') and T.show(c['r']) == 's':
                                a = T.peel(c['a'][0])
                                v = a.get('v') or {}
                                if 'char' in v:
                                    out += v['char']
                                elif 'str' in v:
                                    out += v['str']
                                else:
                                    out += '\x01'      # computed character (\\x..): anything
                        prod.setdefault(p['v']['char'], set()).add(out)
    return prod


def run(chk):
    fx = F.Facts()
    chk.rule('C17-escape', 'every character the lexer\'s escape handlers can put into a string token that cannot stand raw inside a Python "..." literal '
                           '(quote, backslash, newline, CR, NUL) is in the domain of PyScriptGenerator::escape_str, and the backslash is escaped first')
    prod = lexer_products(fx)
    chk.floor('lexer escape kinds', len(prod), 8)
    produced = set()
    for k, outs in prod.items():
        for o in outs:
            produced |= set(o)
    esc = fx.fn(TR, 'PyScriptGenerator::escape_str')
    domain = []
    for c in T.calls(esc['body']):
        if c.get('k') == 'MCall' and c['n'] == 'replace' and c['a']:
            a = T.peel(c['a'][0])
            v = a.get('v') or {}
            domain.append(v.get('char') or v.get('str'))
    domain = [d for d in domain if d]
    chk.floor('escape_str replacements', len(domain), 3)
    # method chains are nested receiver-first: the innermost receiver is applied first; T.calls yields outermost first
    order_applied = list(reversed(domain))
    for ch, why in UNSAFE.items():
        inst = repr(ch)
        if ch not in produced and '\x01' not in produced:
            chk.ok('C17-escape', (inst, 'not produced'))
            continue
        if ch in domain:
            chk.ok('C17-escape', inst, sample='%s is escaped by escape_str' % inst)
        else:
            chk.bad('C17-escape', 'PyScriptGenerator::escape_str', 'unescaped:%s' % inst,
                    'a string token can contain %s (the lexer unescapes it) but escape_str does not escape it: %s, so the transpiled script differs from the bytecode or is not valid Python'
                    % (inst, why), TR, esc['line'])
    if '\\' in domain:
        if order_applied and order_applied[0] == '\\':
            chk.ok('C17-escape', 'backslash-first')
        else:
            chk.bad('C17-escape', 'PyScriptGenerator::escape_str', 'backslash-order', 'escape_str escapes the backslash after other characters: their escapes get doubled', TR, esc['line'])
    return ('Table rule across crates: the characters produced by the escape arms of the three string lexers (typed HIR) against the replace chain of PyScriptGenerator::escape_str. '
            'Behavioural equivalence of the transpiled script and the bytecode is not decided.'), {'exhaustive': True}
