"""C34  length-indexed list types: the length each List / List! operation is declared to produce is the length its run-time implementation produces
         (K1 table agreement: typed HIR of Context::init_builtin_classes  x  python ast of _erg_list.py  x  frozen semantics of the built-in list)"""
import ast
import os
from sa import facts as F, tree as T
from sa.kinds import optable as OT

CLASSES = OT.CLASSES
RUNTIME = 'crates/erg_compiler/lib/core/_erg_list.py'


# ---------------------------------------------------------------- polynomials over symbols (N = len(self), A0.. = first, second .. parameter)
class Poly:
    def __init__(self, terms=None):
        self.t = {k: v for k, v in (terms or {}).items() if v != 0}

    @staticmethod
    def const(c):
        return Poly({(): c})

    @staticmethod
    def sym(s):
        return Poly({(s,): 1})

    def __add__(self, o):
        r = dict(self.t)
        for k, v in o.t.items():
            r[k] = r.get(k, 0) + v
        return Poly(r)

    def __neg__(self):
        return Poly({k: -v for k, v in self.t.items()})

    def __sub__(self, o):
        return self + (-o)

    def __mul__(self, o):
        r = {}
        for k1, v1 in self.t.items():
            for k2, v2 in o.t.items():
                k = tuple(sorted(k1 + k2))
                r[k] = r.get(k, 0) + v1 * v2
        return Poly(r)

    def __eq__(self, o):
        return isinstance(o, Poly) and self.t == o.t

    def __hash__(self):
        return hash(tuple(sorted(self.t.items())))

    def syms(self):
        return {s for k in self.t for s in k}

    def __repr__(self):
        if not self.t:
            return '0'
        out = []
        for k, v in sorted(self.t.items(), key=lambda kv: (-len(kv[0]), kv[0])):
            m = '*'.join(k)
            if not k:
                out.append('%+d' % v)
            elif v == 1:
                out.append('+' + m)
            elif v == -1:
                out.append('-' + m)
            else:
                out.append('%+d*%s' % (v, m))
        return ' '.join(out).lstrip('+').strip()


# frozen semantics of the built-in list (language reference, Sequence Types): effect on len(self), length of the result
def builtin_effect(name, nlen, args):
    """-> (len(self) afterwards, len(result) or None); args: list of Poly-or-None (length of a list argument / value of an int argument)"""
    a0 = args[0] if args else None
    if name == 'append':
        return nlen + Poly.const(1), None
    if name == 'insert':
        return nlen + Poly.const(1), None
    if name in ('remove', 'pop', '__delitem__'):
        return nlen - Poly.const(1), None
    if name == 'clear':
        return Poly.const(0), None
    if name == 'extend':
        return (nlen + a0) if a0 is not None else None, None
    if name in ('sort', 'reverse', '__setitem__', 'count', 'index', '__contains__'):
        return nlen, None
    if name in ('copy', '__reversed__', '__iter__'):
        return nlen, nlen
    if name in ('__add__', '__iadd__'):
        return nlen, (nlen + a0) if a0 is not None else None
    if name in ('__mul__', '__rmul__'):
        return nlen, (nlen * a0) if a0 is not None else None
    return None, None


# ---------------------------------------------------------------- run-time side: abstract length of the values of a method of class List
class PyLen:
    def __init__(self, fn):
        self.fn = fn
        ps = [a.arg for a in fn.args.args]
        self.self_name = ps[0] if ps else 'self'
        self.params = ps[1:]
        self.lens = {self.self_name: Poly.sym('N')}
        for i, p in enumerate(self.params):
            self.lens[p] = Poly.sym('A%d' % i)       # the length of a list parameter / the value of an integer parameter
        self.unknown = []
        self.returns = []

    def length(self, e):
        """abstract length of the list denoted by e (or the value of an integer expression), None = unknown"""
        if isinstance(e, ast.Name):
            return self.lens.get(e.id)
        if isinstance(e, ast.Constant) and isinstance(e.value, int) and not isinstance(e.value, bool):
            return Poly.const(e.value)
        if isinstance(e, (ast.List, ast.Tuple)):
            if any(isinstance(x, ast.Starred) for x in e.elts):
                return None
            return Poly.const(len(e.elts))
        if isinstance(e, ast.BinOp) and isinstance(e.op, ast.Add):
            a, b = self.length(e.left), self.length(e.right)
            return a + b if a is not None and b is not None else None
        if isinstance(e, ast.BinOp) and isinstance(e.op, ast.Mult):
            a, b = self.length(e.left), self.length(e.right)
            return a * b if a is not None and b is not None else None
        if isinstance(e, ast.Call):
            f = e.func
            fname = ast.unparse(f)
            if fname in ('List', 'list', 'deepcopy', 'copy', 'copy.deepcopy', 'copy.copy', 'tuple', 'reversed', 'sorted') and len(e.args) == 1 and not e.keywords:
                return self.length(e.args[0])
            if fname == 'then__' and len(e.args) == 2 and ast.unparse(e.args[1]) in ('List', 'list'):
                return self.length(e.args[0])
            # list.__add__(self, x) / list.__mul__(self, n) / super().__add__(x)
            if isinstance(f, ast.Attribute):
                recv = ast.unparse(f.value)
                if recv == 'list' and e.args:
                    base = self.length(e.args[0])
                    if base is None:
                        return None
                    _, res = builtin_effect(f.attr, base, [self.length(a) for a in e.args[1:]])
                    return res
                if recv in ('super()',):
                    _, res = builtin_effect(f.attr, self.lens[self.self_name], [self.length(a) for a in e.args])
                    return res
                base = self.length(f.value)
                if base is not None and f.attr in ('copy', '__add__', '__mul__'):
                    _, res = builtin_effect(f.attr, base, [self.length(a) for a in e.args])
                    return res
        return None

    def mutate(self, call):
        """a statement-level call x.m(args) on a tracked list"""
        f = call.func
        if isinstance(f, ast.Attribute) and isinstance(f.value, ast.Name) and f.value.id in self.lens:
            v = f.value.id
            cur = self.lens[v]
            if cur is None:
                return
            after, _ = builtin_effect(f.attr, cur, [self.length(a) for a in call.args])
            self.lens[v] = after
            return
        # unknown call: anything passed by reference may change
        for a in ast.walk(call):
            if isinstance(a, ast.Name) and a.id in self.lens and a.id == self.self_name:
                self.lens[a.id] = None

    def assigned(self, stmts):
        out = set()
        for s in stmts:
            for n in ast.walk(s):
                if isinstance(n, ast.Call) and isinstance(n.func, ast.Attribute) and isinstance(n.func.value, ast.Name):
                    if builtin_effect(n.func.attr, Poly.sym('N'), [Poly.sym('X')])[0] != Poly.sym('N'):
                        out.add(n.func.value.id)
                if isinstance(n, (ast.Assign, ast.AugAssign)):
                    for t in (n.targets if isinstance(n, ast.Assign) else [n.target]):
                        for x in ast.walk(t):
                            if isinstance(x, ast.Name):
                                out.add(x.id)
                if isinstance(n, ast.Delete):
                    for t in n.targets:
                        for x in ast.walk(t):
                            if isinstance(x, ast.Name):
                                out.add(x.id)
        return out

    def run(self, stmts):
        for s in stmts:
            if isinstance(s, (ast.Import, ast.ImportFrom, ast.Pass)):
                continue
            if isinstance(s, ast.Expr) and isinstance(s.value, ast.Constant):
                continue
            if isinstance(s, ast.Expr) and isinstance(s.value, ast.Call):
                self.mutate(s.value)
                continue
            if isinstance(s, ast.Assign) and len(s.targets) == 1 and isinstance(s.targets[0], ast.Name):
                self.lens[s.targets[0].id] = self.length(s.value)
                continue
            if isinstance(s, ast.Assign) and len(s.targets) == 1 and isinstance(s.targets[0], ast.Subscript) and not isinstance(s.targets[0].slice, ast.Slice):
                continue      # x[i] = v keeps the length
            if isinstance(s, ast.Delete) and all(isinstance(t, ast.Subscript) and isinstance(t.value, ast.Name) and not isinstance(t.slice, ast.Slice) for t in s.targets):
                for t in s.targets:
                    if self.lens.get(t.value.id) is not None:
                        self.lens[t.value.id] = self.lens[t.value.id] - Poly.const(1)
                continue
            if isinstance(s, ast.Return):
                self.returns.append((self.length(s.value) if s.value is not None else None, dict(self.lens), s.lineno))
                continue
            if isinstance(s, ast.For) and isinstance(s.iter, ast.Call) and ast.unparse(s.iter.func) == 'range' and len(s.iter.args) == 1 and not s.orelse:
                n = self.length(s.iter.args[0])
                muts = self.assigned(s.body)
                before = dict(self.lens)
                sub = PyLen(self.fn)
                sub.lens = {k: (Poly.sym('@' + k) if k in muts else v) for k, v in self.lens.items()}
                sub.run(s.body)
                ok = n is not None and not sub.returns
                for v in muts:
                    if v not in before:
                        continue
                    after = sub.lens.get(v)
                    if not ok or after is None or before[v] is None:
                        self.lens[v] = None
                        continue
                    delta = after - Poly.sym('@' + v)
                    if any(x.startswith('@') for x in delta.syms()):
                        self.lens[v] = None       # the growth of one round depends on the lists that grow: not linear
                    else:
                        self.lens[v] = before[v] + n * delta
                continue
            # any other control flow: whatever it touches is unknown afterwards; returns inside are unknown
            for v in self.assigned([s]):
                if v in self.lens:
                    self.lens[v] = None
            for r in ast.walk(s):
                if isinstance(r, ast.Return):
                    self.returns.append((None, dict(self.lens), r.lineno))
        return self


# ---------------------------------------------------------------- declared side
def length_expr(e, names):
    """TyParam expression -> Poly | 'erased' | None"""
    e = T.peel(e)
    k = e.get('k')
    if k == 'MCall' and e.get('n') == 'clone':
        return length_expr(e['r'], names)
    if k == 'Local':
        return Poly.sym(names[e['n']]) if e['n'] in names else None
    if k == 'Binary':
        a, b = length_expr(e['x'], names), length_expr(e['y'], names)
        if not isinstance(a, Poly) or not isinstance(b, Poly):
            return None
        op = e.get('op')
        return {'+': a + b, 'Add': a + b, '-': a - b, 'Sub': a - b, '*': a * b, 'Mul': a * b}.get(op)
    if k == 'Call':
        fn = T.last_seg(e.get('fn') or '')
        if fn == 'value' and e['a']:
            v = T.lit_int(T.peel(e['a'][0]))
            return Poly.const(v) if v is not None else None
        if fn == 'erased':
            return 'erased'
    return None


class Decl:
    def __init__(self, fx):
        self.fx = fx
        self.rows = []
        self.consts = OT.const_strings(fx)
        f = fx.fn(CLASSES, 'Context::init_builtin_classes')
        self.fn = f
        self.walk_block(f['body'], {})

    def resolve(self, e, env, depth=0):
        """strip .clone() / .quantify() and follow let-bound locals to the expression that builds the type"""
        e = T.peel(e)
        while depth < 8:
            if e.get('k') == 'MCall' and e.get('n') in ('clone', 'quantify', 'into'):
                e = T.peel(e['r'])
            elif e.get('k') == 'Local' and e['n'] in env:
                e = T.peel(env[e['n']])
            else:
                break
            depth += 1
        return e

    def walk_block(self, block, env):
        env = dict(env)
        for st in T.stmts_of(block):
            st = T.unsemi(st)
            k = st.get('k')
            if k == 'Let' and st.get('init') is not None and st['pat'].get('k') == 'Bind':
                env[st['pat']['n']] = st['init']
                # a `let x = if COND { .. } else { .. }` keeps both: not needed here
                continue
            if k == 'If':
                self.walk_block(st['t'], env)
                if st.get('e') and st['e'].get('k') == 'Block':
                    self.walk_block(st['e'], env)
                continue
            if k == 'Block':
                self.walk_block(st, env)
                continue
            if k == 'MCall' and st.get('n', '').lstrip('_').startswith('register'):
                self.registration(st, env)

    def registration(self, st, env):
        recv = T.show(T.peel(st['r']))
        meth = st['n']
        args = st['a']
        if meth in ('register_py_builtin', 'register_builtin_erg_impl', 'register_builtin_py_impl') and len(args) >= 2:
            name, ty = args[0], args[1]
            py = None
            for a in args[2:]:
                a = T.peel(a)
                if a.get('k') == 'Call' and T.last_seg(a.get('fn') or '') == 'Some' and a['a']:
                    py = self.resolve(a['a'][0], {})
            self.rows.append({'recv': recv, 'how': meth, 'name': T.show(T.peel(name)), 'py': T.show(py) if py else None, 'ty': self.resolve(ty, env), 'env': env, 'l': st['l']})
        elif meth in ('register_builtin_const', '_register_builtin_const') and len(args) >= 4:
            ty = None
            a2 = T.peel(args[2])
            if a2.get('k') == 'Call' and T.last_seg(a2.get('fn') or '') == 'Some' and a2['a']:
                ty = self.resolve(a2['a'][0], env)
            py = None
            if len(args) >= 5:
                a4 = T.peel(args[4])
                if a4.get('k') == 'Call' and T.last_seg(a4.get('fn') or '') == 'Some' and a4['a']:
                    py = self.resolve(a4['a'][0], {})
            if ty is not None:
                self.rows.append({'recv': recv, 'how': meth, 'name': T.show(T.peel(args[0])), 'py': T.show(py) if py else None, 'ty': ty, 'env': env, 'l': st['l']})
        elif meth == 'register_trait_methods' and len(args) >= 2:
            inner = T.show(T.peel(args[1]))
            for r in self.rows:
                if r['recv'] == inner:
                    r['recv'] = recv

    def string(self, const):
        return self.consts.get(const, None)


SUBR = ('no_var_fn_met', 'fn_met', 'pr_met', 'fn0_met', 'fn1_met', 'pr0_met', 'pr1_met', 'fn1_kw_met', 'pr1_kw_met', 'fn2_met', 'no_var_pr_met')


def analyse_type(decl, row):
    """-> dict(self_before, self_after, ret, arg_syms) with Poly / 'erased' / None (not a list) entries, or None when the type is not built by a method constructor"""
    ty = row['ty']
    env = row['env']
    if ty.get('k') != 'Call' or T.last_seg(ty.get('fn') or '') not in SUBR:
        return None
    args = ty['a']
    names = {'N': 'N'}

    def list_len(e, allow_bind=None):
        """length parameter of a list type expression, None if e is not a (sized) list type"""
        e = decl.resolve(e, env)
        if e.get('k') != 'Call':
            return None
        fn = T.last_seg(e.get('fn') or '')
        if fn in ('list_t', 'out_list_t', 'list_mut') and len(e['a']) == 2:
            return length_expr(e['a'][1], names)
        if fn in ('unknown_len_list_t', 'out_unknown_len_list_t', 'unknown_len_list_mut'):
            return 'erased'
        return None
    # parameters first: they bind M (a list of length M, or a singleton Nat M)
    idx = 0
    for a in args[1:-1]:
        a = T.peel(a)
        elems = []
        if a.get('k') == 'MacCall' or a.get('k') == 'Call' or a.get('k') == 'MCall' or a.get('k') == 'Array':
            elems = [x for x in T.walk(a) if x.get('k') == 'Call' and T.last_seg(x.get('fn') or '') in ('kw', 'pos', 'anon', 'kw_default')]
        if T.last_seg(a.get('fn') or '') in ('kw', 'pos', 'anon'):
            elems = [a]
        if not elems and a.get('k') != 'Call':
            # fn1_met(self, T, ret): a bare type
            elems = [None]
        for el in elems:
            for x in (T.walk(el) if el is not None else T.walk(a)):
                if x.get('k') == 'Local' and x['n'] in ('M',) and 'M' not in names:
                    names['M'] = 'A%d' % idx
            idx += 1
    sb = sa = None
    s0 = decl.resolve(args[0], env)
    if s0.get('k') == 'Call' and T.last_seg(s0.get('fn') or '') == 'ref_mut' and len(s0['a']) == 2:
        sb = list_len(s0['a'][0])
        aft = T.peel(s0['a'][1])
        if aft.get('k') == 'Call' and T.last_seg(aft.get('fn') or '') == 'Some':
            sa = list_len(aft['a'][0])
        else:
            sa = 'same'
    elif s0.get('k') == 'Call' and T.last_seg(s0.get('fn') or '') == 'ref_':
        sb = list_len(s0['a'][0])
        sa = 'same'
    else:
        sb = list_len(s0)
        sa = 'same'
    ret = list_len(args[-1])
    return {'self_before': sb, 'self_after': sa, 'ret': ret, 'names': names}


def literal_rule(chk, fx):
    LOWER = 'crates/erg_compiler/lower.rs'
    chk.rule('C34-lit', 'the length parameter of the type given to a list literal `[e1, .., en]` is the number of lowered elements stored in the same hir::NormalList: '
                        'list_t(elem_t, TyParam::value(X.len())) where X is the argument list handed to hir::NormalList::new')
    f = fx.fn(LOWER, 'GenericASTLowerer::lower_normal_list')
    if not chk.need(f is not None, 'lower_normal_list not found'):
        return
    env = {}
    for n in T.walk(f['body']):
        if n.get('k') == 'Let' and n.get('init') is not None and n['pat'].get('k') == 'Bind':
            env.setdefault(n['pat']['id'], n['init'])
    lts = [c for c in T.calls(f['body']) if c.get('k') == 'Call' and T.last_seg(c.get('fn') or '') == 'list_t' and len(c['a']) == 2]
    news = [c for c in T.calls(f['body']) if c.get('k') == 'Call' and T.norm(T.callee(c) or '').endswith('NormalList::new')]
    if not chk.need(len(lts) >= 1 and len(news) == 1, 'lower_normal_list: list_t(..) / NormalList::new(..) not found (%d, %d)' % (len(lts), len(news))):
        return
    stored = [T.peel(a) for a in news[0]['a']]
    stored_ids = {a.get('id') for a in stored if a.get('k') == 'Local'}
    for lt in lts:
        e = T.peel(lt['a'][1])
        hops = 0
        while e.get('k') == 'Local' and e.get('id') in env and hops < 4:
            e = T.peel(env[e['id']])
            hops += 1
        good = False
        what = T.show(e)
        if e.get('k') == 'Call' and T.last_seg(e.get('fn') or '') == 'value' and e['a']:
            x = T.peel(e['a'][0])
            hops = 0
            while x.get('k') == 'Local' and x.get('id') in env and x.get('id') not in stored_ids and hops < 4:
                x = T.peel(env[x['id']])
                hops += 1
            if x.get('k') == 'MCall' and x.get('n') == 'len' and not x['a']:
                r = T.peel(x['r'])
                if r.get('k') == 'Local' and r.get('id') in stored_ids:
                    good = True
        if good:
            chk.ok('C34-lit', 'lower_normal_list', sample='list literal: List(T, %s)' % what)
        else:
            chk.bad('C34-lit', 'GenericASTLowerer::lower_normal_list', 'length', 'the length of a list literal\'s type is `%s`, not the number of elements stored in the lowered list' % what,
                    LOWER, lt['l'])


def run(chk):
    fx = F.Facts()
    chk.rule('C34-len', 'for every method of List / List! whose declared type computes a length (N + M, N + 1, N * M, N - 1, 0): the run-time implementation it is bound to '
                        '(the method of class List in _erg_list.py, abstractly interpreted over list lengths, or the built-in list method by the language reference) produces exactly '
                        'that length — for the returned list, and for the receiver after a `!` method. A disagreement makes the checker accept an index the list does not have')
    chk.rule('C34-idx', 'the index type of List.__getitem__ is the refinement {I: Nat | I <= N - 1}: the largest accepted index is the last element')
    decl = Decl(fx)
    rows = [r for r in decl.rows if r['recv'] in ('list_', 'list_mut_')]
    chk.floor('List / List! registrations', len(rows), 30)
    tree = ast.parse(open(os.path.join(F.REPO, RUNTIME), encoding='utf-8').read())
    cls = [n for n in tree.body if isinstance(n, ast.ClassDef) and n.name == 'List']
    if not chk.need(len(cls) == 1, '_erg_list.py: class List not found'):
        return 'anchor lost', {}
    methods = {m.name: m for m in cls[0].body if isinstance(m, ast.FunctionDef)}
    ndep = 0
    for r in rows:
        info = analyse_type(decl, r)
        if info is None:
            continue
        dep = [(w, info[w]) for w in ('ret', 'self_after') if isinstance(info[w], Poly)]
        if not dep:
            continue
        ndep += 1
        erg_name = decl.string(r['name']) or r['name']
        py_name = decl.string(r['py']) if r['py'] else None
        if r['py'] and py_name is None:
            py_name = r['py'].strip('"')
        # operator registrations (`__add__`) carry their own name
        rt_name = py_name or erg_name
        rt_name = rt_name.rstrip('!')
        where = 'List' + ('!' if r['recv'] == 'list_mut_' else '') + '.' + erg_name
        m = methods.get(rt_name)
        nargs = len([s for s in info['names'].values() if s.startswith('A')])
        if m is not None:
            st = PyLen(m).run(m.body)
            got_ret = {x[0] for x in st.returns} if st.returns else {None}
            got_self = {x[1].get(st.self_name) for x in st.returns} if st.returns else {st.lens.get(st.self_name)}
            impl = '%s:%s.%s' % (RUNTIME.split('/')[-1], 'List', rt_name)
            # an immutable method works on a copy of the receiver (the code generator wraps the receiver in List(..)): its result is what counts
        else:
            after, res = builtin_effect(rt_name, Poly.sym('N'), [Poly.sym('A0')] if info['names'].get('M') else [])
            if after is None and res is None:
                chk.bad('C34-len', where, 'no-implementation', '%s is declared with a computed length but `%s` is neither a method of class List in _erg_list.py nor a built-in '
                        'list method with known semantics' % (where, rt_name), CLASSES, r['l'])
                continue
            got_ret, got_self = {res}, {after}
            impl = 'built-in list.%s' % rt_name
        for which, want in dep:
            got = got_ret if which == 'ret' else got_self
            inst = '%s:%s' % (where, which)
            if got == {want}:
                chk.ok('C34-len', inst, sample='%s: declared %s = %s; %s gives %s' % (where, 'len(result)' if which == 'ret' else 'len(self) afterwards', want, impl, want))
            elif None in got:
                chk.need(False, '%s: the length produced by %s could not be computed (declared: %s)' % (where, impl, want))
            else:
                chk.bad('C34-len', where, 'length:%s' % which, '%s is declared to make %s = %s, but %s makes it %s: the inferred length-indexed type does not describe the run-time list, '
                        'so an index accepted as in range may not exist (or a valid one is rejected)'
                        % (where, 'the length of the result' if which == 'ret' else 'the length of the receiver', want, impl, ' / '.join(sorted(map(repr, got)))), CLASSES, r['l'])
    chk.floor('List / List! methods with a computed length', ndep, 10)
    # ---- the index bound of __getitem__
    f = decl.fn
    found = False
    for n in T.walk(f['body']):
        if n.get('k') == 'Call' and T.norm(T.callee(n) or '') in ('Predicate::le', 'Predicate::lt', 'Predicate::ge', 'Predicate::gt') and len(n['a']) == 2:
            e = length_expr(n['a'][1], {'N': 'N'})
            if isinstance(e, Poly) and 'N' in e.syms():
                found = True
                op = T.norm(T.callee(n)).split('::')[-1]
                okk = (op == 'le' and e == Poly.sym('N') - Poly.const(1)) or (op == 'lt' and e == Poly.sym('N'))
                if okk:
                    chk.ok('C34-idx', 'getitem-bound', sample='index type {I: Nat | I %s %s}' % ('<=' if op == 'le' else '<', e))
                else:
                    chk.bad('C34-idx', 'Context::init_builtin_classes', 'getitem-bound', 'the index accepted by List.__getitem__ is bounded by `I %s %s`: %s'
                            % (op, e, 'an index equal to the length is accepted and raises IndexError at run time' if (op, e) in (('le', Poly.sym('N')),) else
                               'the bound is not the last element N - 1'), CLASSES, n['l'])
    chk.need(found, 'the refinement bound of the List.__getitem__ index was not found')
    literal_rule(chk, fx)
    # the declared lengths N + M, N - 1, N * M are evaluated at type level by the constant folder
    chk.rule('C34-eval', 'the operators that appear in the declared lengths (+, -, *) are evaluated at type level by ValueObj::try_add / try_sub / try_mul: every numeric arm of '
                         'these applies its own operator to its operands in the order of the pattern (shares the engine of C04-R1 / C04-R1b)')
    from sa.props import c04
    types4 = fx.file(c04.VALUE)['types']
    n = c04.fold_arms(chk, fx, types4, {k: v for k, v in c04.OPCLASS.items() if k in ('try_add', 'try_sub', 'try_mul')}, r1='C34-eval', r1b='C34-eval', audit=False)
    chk.floor('length-arithmetic arms analysed', n, 25)
    dict_rule(chk, fx)
    return ('Table agreement between the dependent List signatures (typed HIR of Context::init_builtin_classes, let-bound type expressions resolved) and the run-time list '
            'operations (python ast of _erg_list.py interpreted over symbolic lengths; built-in list methods by a frozen table). Only the length clause of the property '
            '("length-indexed list types", "an index the checker accepts as in range ... is in range at run time") is decided, and only as far as the declarations go: '
            'soundness of substitution / unification / evaluation of these signatures during inference is not decided.'), {'exhaustive': True}


def dict_rule(chk, fx):
    """which value a duplicated key keeps when two dicts are concatenated: the checker's constant folding and the runtime class must agree"""
    import ast, os
    from sa import facts as F_
    DICT = 'crates/erg_common/dict.rs'
    chk.rule('C34-dict', 'the type the checker computes for a concatenation of two dict constants holds the value the program computes: Dict::merge (the body of Dict::concat, used by the '
                         'compile-time `concat` / `+` of dict values) and Dict.concat of _erg_dict.py agree on the winner of a duplicated key — `extend` / insert overwrite (the right '
                         'operand wins, like `{**self, **other}`), `entry(k).or_insert(v)` / guaranteed_extend keep the left value')

    def rust_winner(fname, depth=0):
        f = [g for g in fx.file(DICT)['fns'] if T.norm(g['path']) == 'Dict::' + fname]
        if len(f) != 1 or depth > 3:
            return None
        for c in T.calls(f[0]['body']):
            nm = c['n'] if c.get('k') == 'MCall' else T.last_seg(T.callee(c) or '')
            if nm in ('or_insert', 'or_insert_with', 'or_default'):
                return 'left'
        for c in T.calls(f[0]['body']):
            nm = c['n'] if c.get('k') == 'MCall' else T.last_seg(T.callee(c) or '')
            recv = T.show(T.peel(c['r'])) if c.get('k') == 'MCall' else ''
            if nm in ('extend', 'insert') and recv.endswith('dict'):
                return 'right'
            if nm in ('merge', 'guaranteed_extend', 'extend', 'concat') and nm != fname and recv in ('self', ''):
                w = rust_winner(nm, depth + 1)
                if w:
                    return w
        return None
    rw = rust_winner('concat') or rust_winner('merge')
    src = open(os.path.join(F_.REPO, 'crates/erg_compiler/lib/core/_erg_dict.py'), encoding='utf-8').read()
    pw = None
    for cls in ast.parse(src).body:
        if isinstance(cls, ast.ClassDef):
            for fdef in cls.body:
                if isinstance(fdef, ast.FunctionDef) and fdef.name == 'concat' and len(fdef.args.args) == 2:
                    me, you = [a.arg for a in fdef.args.args]
                    for d in ast.walk(fdef):
                        if isinstance(d, ast.Dict) and len(d.keys) == 2 and all(k is None for k in d.keys) and all(isinstance(v, ast.Name) for v in d.values):
                            order = [v.id for v in d.values]
                            pw = 'right' if order == [me, you] else 'left' if order == [you, me] else None
                        if isinstance(d, ast.BinOp) and isinstance(d.op, ast.BitOr) and isinstance(d.left, ast.Name) and isinstance(d.right, ast.Name):
                            pw = 'right' if (d.left.id, d.right.id) == (me, you) else 'left'
    if not chk.need(rw is not None and pw is not None, 'Dict::concat / _erg_dict.Dict.concat: the winner of a duplicated key could not be determined (rust=%s python=%s)' % (rw, pw)):
        return
    if rw == pw:
        chk.ok('C34-dict', 'duplicate-key', sample='both sides: the %s operand wins' % rw)
    else:
        chk.bad('C34-dict', 'Dict::merge', 'duplicate-key:%s-vs-%s' % (rw, pw), 'compile-time dict concatenation keeps the %s value of a duplicated key, the runtime class the %s one: '
                '`merged = {"a": 1, "b": 3}.concat {"a": 7}` is typed with `"a": {1}` while `merged["a"]` is 7 at run time' % (rw, pw), DICT, None)
