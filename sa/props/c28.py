"""C28  The language server's document copy matches the client's  (K5/K3 on pos_to_byte_index, K7 on the file cache)"""
from sa import facts as F, tree as T
from sa.kinds import vspec as VS

UTIL = 'crates/els/util.rs'
CACHE = 'crates/els/file_cache.rs'


def _accepts_crate(fx):
    import inspect
    return len(inspect.signature(fx.fn).parameters) >= 3


def run(chk):
    fx = F.Facts()
    chk.rule('C28-R1', 'pos_to_byte_index counts columns in UTF-16 code units: every increment of the column counter derives from char::len_utf16 (or a 0x10000 comparison)')
    chk.rule('C28-R2', 'pos_to_byte_index returns only char-boundary byte indices: an index taken from char_indices(), that plus len_utf8(), src.len(), or 0 — never `index + literal`')
    chk.rule('C28-R3', 'a character offset past the end of a line stops at the line end: the newline branch can return while the target line is current')
    chk.rule('C28-R4', 'a content change without a range replaces the whole document: the `range == None` path of incremental_update assigns the change text')
    chk.rule('C28-R5', 'the cache text and the VFS are updated together: every function assigning FileCacheEntry.code (or inserting an entry) also calls VFS.update')
    f = fx.fn(UTIL, 'util::pos_to_byte_index')
    src = f['params'][0].get('n')
    # the column counter: a local compared with pos.character
    col = None
    for n in T.walk(f['body']):
        if n.get('k') == 'Binary' and n['op'] in ('==', '>=', '>', '<', '<=') and 'character' in T.show(n['y']) + T.show(n['x']):
            for side in (n['x'], n['y']):
                s = T.peel(side)
                if s.get('k') == 'Local':
                    col = s['n']
    if not chk.need(col is not None, 'pos_to_byte_index: no local is compared with pos.character'):
        return 'anchor lost', {}
    incs = [n for n in T.walk(f['body']) if n.get('k') in ('AssignOp', 'Assign') and T.show(n['x']) == col and not (n['k'] == 'Assign' and T.lit_int(n['y']) == 0)]
    chk.floor('column counter updates', len(incs), 1)
    for n in incs:
        s = T.show(n['y'])
        if 'len_utf16' in s or 'encode_utf16' in s or '65536' in s or '0x10000' in s.lower():
            chk.ok('C28-R1', T.show(n), sample='pos_to_byte_index: `%s`' % T.show(n))
        else:
            chk.bad('C28-R1', 'util::pos_to_byte_index', 'col-increment:%s' % T.show(n), 'the column counter advances by `%s` per character: LSP columns are UTF-16 code units, so positions after an astral '
                    'character (2 units) are mapped to the wrong byte' % s, UTIL, n['l'])
    # R2 returned values
    idx_locals = set()
    for n in T.walk(f['body']):
        if n.get('k') == 'Match' and n.get('src') == 'ForLoopDesugar' and 'char_indices' in T.show(n['x']):
            for m in T.walk(n):
                if m.get('k') == 'Match' and m is not n:
                    for arm in m['arms']:
                        b = T.pat_bindings(arm['pat'])
                        if len(b) >= 1:
                            idx_locals.add(b[0])
    rets = [T.peel(n['x']) for n in T.walk(f['body']) if n.get('k') == 'Ret' and 'x' in n]
    tail = f['body'].get('e')
    if tail is not None:
        rets.append(T.peel(tail))
    chk.floor('return expressions', len(rets), 2)
    for r in rets:
        s = T.show(r)
        ok = (r.get('k') == 'Local' and r['n'] in idx_locals) or (r.get('k') == 'MCall' and r['n'] == 'len' and T.show(r['r']) == src) or T.lit_int(r) == 0 \
            or (r.get('k') == 'Binary' and r['op'] == '+' and T.peel(r['x']).get('k') == 'Local' and T.peel(r['x'])['n'] in idx_locals and 'len_utf8' in T.show(r['y']))
        if ok:
            chk.ok('C28-R2', s, sample='returns `%s`' % s)
        else:
            chk.bad('C28-R2', 'util::pos_to_byte_index', 'return:%s' % s, 'pos_to_byte_index returns `%s`, which need not be a char boundary (String::replace_range panics on a non-boundary index, '
                    'e.g. at the end of a document ending in a multi-byte character)' % s, UTIL, r.get('l'))
    # R3
    stops = False
    for n, ctx in T.walk_ctx(f['body']):
        if n.get('k') == 'Ret' and any(c[0] == 'if' and c[2] is True and "'\\n'" in T.show(c[1]) for c in ctx) and any(c[0] == 'if' and 'line' in T.show(c[1]) for c in ctx):
            stops = True
    if stops:
        chk.ok('C28-R3', 'newline-stop', sample='newline branch returns when the target line is current')
    else:
        chk.bad('C28-R3', 'util::pos_to_byte_index', 'newline-stop', 'when the character offset exceeds the length of the target line the scan runs on into the following lines '
                '(the LSP says it means the end of that line)', UTIL, f['line'])
    # R4
    g = fx.fn(CACHE, 'FileCache::incremental_update')
    lets = [n for n in T.walk(g['body']) if n.get('k') == 'Let' and 'els' in n and 'range' in T.show(n.get('init') or {})]
    iflets = [n for n in T.walk(g['body']) if n.get('k') == 'If' and 'range' in T.show(n['c']) and any(c.get('k') == 'LetCond' for c in T.walk(n['c']))]
    matches = [n for n in T.walk(g['body']) if n.get('k') == 'Match' and n.get('src') == 'Normal' and T.show(n['x']).endswith('.range')]
    none_path = None
    if lets:
        none_path = lets[0]['els']
    elif iflets and 'e' in iflets[0]:
        none_path = iflets[0]['e']
    elif matches:
        for arm in matches[0]['arms']:
            if any(v.endswith('::None') or v == '_' for v in T.pat_variants(arm['pat'])):
                none_path = arm['b']
    if none_path is None:
        chk.lost.append('incremental_update: cannot find the handling of a change without a range')
    else:
        assigns = [n for n in T.walk(none_path) if n.get('k') == 'Assign' and 'text' in T.show(n['y'])]
        if assigns:
            chk.ok('C28-R4', 'full-text', sample='range == None: `%s`' % T.show(assigns[0]))
        else:
            chk.bad('C28-R4', 'FileCache::incremental_update', 'full-text', 'a content change without a range is skipped (`%s`): the server keeps the old text although the client replaced the document'
                    % T.show(none_path), CACHE, none_path.get('l') or g['line'])
    # R6: every ranged change is located in, and applied to, the same working copy (earlier changes of the notification shift later ranges)
    chk.rule('C28-R6', 'in incremental_update the text passed to pos_to_byte_index is the very string that replace_range mutates (the working copy that already holds the earlier '
                       'changes of the same notification)')
    targets = {T.show(T.peel(c['r'])) for c in T.calls(g['body']) if c.get('k') == 'MCall' and c['n'] == 'replace_range'}
    convs = [c for c in T.calls(g['body']) if (T.cq(c) or '').endswith('pos_to_byte_index')]
    if chk.need(len(targets) == 1 and len(convs) >= 2, 'incremental_update: expected one replace_range target and two position conversions'):
        tgt = targets.pop()
        for c in convs:
            src_ = T.show(T.peel(c['a'][0]))
            if src_ == tgt:
                chk.ok('C28-R6', T.show(c), sample='pos_to_byte_index(&%s, ..) and %s.replace_range(..)' % (src_, tgt))
            else:
                chk.bad('C28-R6', 'FileCache::incremental_update', 'offsets-from:%s' % src_, 'byte offsets are computed in `%s` but applied to `%s`: with several changes in one '
                        'notification the later ranges are located in stale text' % (src_, tgt), CACHE, c['l'])
    # R5
    writers = 0
    for fn in fx.fns(CACHE):
        if (fn.get('self_ty') or '').split('::')[-1] != 'FileCache':
            continue
        writes = [n for n in T.walk(fn['body']) if (n.get('k') == 'Assign' and T.show(n['x']).endswith('.code')) or
                  (n.get('k') == 'Struct' and n.get('d', '').endswith('FileCacheEntry') and any(x['n'] == 'code' for x in n['f']))]
        if not writes:
            continue
        writers += 1
        where = T.norm(fn['path'])
        vfs = [c for c in T.calls(fn['body']) if c.get('k') == 'MCall' and c['n'] == 'update' and 'VFS' in T.show(c['r'])]
        if vfs:
            chk.ok('C28-R5', where, sample='%s: writes the cached text and calls VFS.update' % where)
        else:
            chk.bad('C28-R5', where, 'code-without-VFS', '%s assigns the cached document text without VFS.update: the compiler reads a stale copy' % where, CACHE, writes[0]['l'])
    chk.floor('functions writing the cached text', writers, 2)
    # ---- R7: the change notification always reaches the cached copy
    chk.rule('C28-R7', 'every didChange notification is applied to the cached document: in Server::handle_notification, between the deserialisation of the parameters and '
                       '`file_cache.incremental_update(params)` there is no `?` / return on a call that can fail (a callee that contains `?` or builds an Err); a skipped update leaves '
                       'the server editing a stale copy from then on')
    SRV = 'crates/els/server.rs'
    hn = fx.fn(SRV, 'Server::handle_notification', 'els') if _accepts_crate(fx) else fx.fn(SRV, 'Server::handle_notification')
    if chk.need(hn is not None, 'Server::handle_notification not found'):
        arm = None
        for m in T.walk(hn['body']):
            if m.get('k') == 'Match':
                for a in m['arms']:
                    lits = [x.get('v', {}).get('str') for x in T.walk(a['pat']) if x.get('k') == 'PLit' and isinstance(x.get('v'), dict)]
                    if 'textDocument/didChange' in lits:
                        arm = a
        if chk.need(arm is not None, 'the "textDocument/didChange" arm was not found'):
            upd = [c for c in T.calls(arm['b']) if c.get('k') == 'MCall' and c['n'] == 'incremental_update']
            if chk.need(len(upd) == 1, 'didChange: expected one incremental_update call (%d)' % len(upd)):
                upd_line = upd[0]['l']
                els_fns = {}
                import json as _j, os as _o
                idx = _j.load(open(_o.path.join(fx.dir, 'els', 'index.json')))
                for rel in idx['files']:
                    for f2 in fx.file(rel, 'els')['fns']:
                        els_fns.setdefault(T.norm(f2['path']), f2)

                def may_fail(fn2):
                    for x in T.walk(fn2['body']):
                        if x.get('k') == 'Match' and x.get('src') == 'Try':
                            return 'contains `?`'
                        if x.get('k') == 'Call' and (x.get('fn') or '').endswith('::Err') and x.get('dk', '').startswith('Ctor'):
                            return 'builds an Err'
                    return None
                nexit = 0
                for n in T.walk(arm['b']):
                    if n.get('k') == 'Match' and n.get('src') == 'Try' and n.get('l', 0) <= upd_line:
                        src = T.peel(n['x'])
                        # `branch(..)` wrapper of the desugaring
                        inner = [c for c in T.calls(src) if c.get('k') in ('MCall', 'Call') and not (c.get('fn') or '').endswith('branch')]
                        callee = None
                        for c in inner:
                            nm = T.norm(T.callee(c) or '')
                            if nm in els_fns:
                                callee = nm
                                break
                        if any('deserialize' in (T.callee(c) or '') for c in inner):
                            chk.ok('C28-R7', 'params', sample='the parameters are deserialised first: nothing to apply without them')
                            continue
                        nexit += 1
                        if callee is None:
                            chk.bad('C28-R7', 'Server::handle_notification', 'early-exit:%s' % T.show(src)[:30], 'didChange: `%s?` can leave the handler before incremental_update and '
                                    'its callee is not a function of this crate whose failure modes can be read' % T.show(src)[:50], SRV, n.get('l'))
                            continue
                        why = may_fail(els_fns[callee])
                        if why:
                            chk.bad('C28-R7', 'Server::handle_notification', 'early-exit:%s' % callee.split('::')[-1], 'didChange runs `%s(..)?` before file_cache.incremental_update(params) '
                                    'and %s %s: when it fails the edit is never applied and every later edit lands in a stale copy' % (callee.split('::')[-1], callee, why), SRV, n.get('l'))
                        else:
                            chk.ok('C28-R7', callee, sample='%s cannot fail (no `?`, no Err): the `?` after it never skips the update' % callee)
                    if n.get('k') == 'Ret' and n.get('l', 0) < upd_line and not any(x is n for t_ in T.walk(arm['b']) if t_.get('k') == 'Match' and t_.get('src') == 'Try' for x in T.walk(t_)):
                        chk.bad('C28-R7', 'Server::handle_notification', 'return-before-update', 'didChange returns before incremental_update', SRV, n.get('l'))
                chk.floor('fallible steps before the update', nexit, 1)
    order_rule(chk, fx)
    return ('Structural rules on els::util::pos_to_byte_index (units of the column counter, forms of returned indices, line clamp), on the no-range path of incremental_update '
            'and a coupled-state rule for the file cache / VFS. Equality of documents over edit histories is not decided.'), {}


def order_rule(chk, fx):
    chk.rule('C28-R8', 'the content changes of one didChange notification are applied in the order of the array, each to the result of the previous one (LSP 3.17, '
                       'DidChangeTextDocumentParams): the loop of FileCache::incremental_update runs over `params.content_changes` as received — nothing on the way from the parameter to '
                       'the loop sorts, reverses, filters or truncates it; with the changes sorted bottom-up, two edits whose ranges refer to successive states land in the wrong lines')
    f = fx.fn(CACHE, 'FileCache::incremental_update')
    REORDER = {'sort', 'sort_by', 'sort_by_key', 'sort_unstable', 'sort_unstable_by', 'sort_unstable_by_key', 'sort_by_cached_key', 'reverse', 'rev', 'retain', 'dedup', 'dedup_by',
               'dedup_by_key', 'filter', 'filter_map', 'skip', 'take', 'step_by', 'swap', 'rotate_left', 'rotate_right', 'truncate', 'drain', 'pop', 'remove', 'swap_remove', 'split_off',
               'skip_while', 'take_while', 'last', 'nth', 'first'}
    lets = {}
    for n in T.walk(f['body']):
        if n.get('k') == 'Let' and n.get('init') is not None:
            for b in T.walk(n['pat']):
                if b.get('k') == 'Bind':
                    lets[b['id']] = n['init']

    def from_changes(e, seen=()):
        if 'content_changes' in T.show(e):
            return True
        return any(x.get('k') == 'Local' and x.get('id') in lets and x['id'] not in seen and from_changes(lets[x['id']], seen + (x['id'],)) for x in T.walk(e))
    loops = [m for m in T.walk(f['body']) if m.get('k') == 'Match' and m.get('src') == 'ForLoopDesugar' and (T.callee(T.peel(m['x'])) or '').endswith('into_iter') and from_changes(m['x'])]
    if not chk.need(len(loops) >= 1, 'incremental_update: no loop over the content changes'):
        return
    offenders = []
    for c in T.calls(f['body']):
        if c.get('k') == 'MCall' and c['n'] in REORDER and from_changes(c['r']):
            # inside the loop body the per-change code may index / slice the *text*; only operations on the change list count
            if any(c is x for lp in loops for a in lp['arms'] for x in T.walk(a['b'])) and 'content_changes' not in T.show(c['r']) and not any(
                    x.get('k') == 'Local' and x.get('id') in lets and from_changes(lets[x['id']]) for x in T.walk(c['r'])):
                continue
            offenders.append(c)
    if offenders:
        c = offenders[0]
        chk.bad('C28-R8', 'FileCache::incremental_update', 'reordered:' + c['n'], 'incremental_update calls `%s` on the list of content changes before applying them: the changes are no longer '
                'applied in array order — client "# note\\na = 1\\nyb = 2\\n.." vs server "# note\\na = 1\\nb = 2\\nyc = 3\\n" for an insert above a later edit' % T.show(c)[:60], CACHE, c.get('l'))
    else:
        chk.ok('C28-R8', 'array-order', sample='for change in %s' % T.show(loops[0]['x'])[:60])
