"""C11  Operator expressions parse by the documented precedence table  (K1)"""
from sa import facts as F, tree as T

TOKEN = 'crates/erg_parser/token.rs'
PARSE = 'crates/erg_parser/parse.rs'
LEX = 'crates/erg_parser/lex.rs'

# the documented order, highest first (each inner list binds equally)
ORDER = [
    ['Dot'],
    ['Pow'],
    ['PrePlus', 'PreMinus', 'PreBitNot'],
    ['Star', 'Slash', 'FloorDiv', 'Mod'],
    ['Plus', 'Minus'],
    ['Shl', 'Shr'],
    ['BitAnd'],
    ['BitXor'],
    ['BitOr'],
    ['Closed', 'LeftOpen', 'RightOpen', 'Open'],
    ['Less', 'Gre', 'LessEq', 'GreEq', 'DblEq', 'NotEq', 'InOp', 'NotInOp', 'ContainsOp', 'IsOp', 'IsNotOp'],
    ['AndOp'],
    ['OrOp'],
]
PREFIX = ['PrePlus', 'PreMinus', 'PreBitNot']
BINARY = [k for lvl in ORDER for k in lvl if k not in PREFIX and k != 'Dot']


def run(chk):
    fx = F.Facts()
    chk.rule('C11-R1', 'TokenKind::precedence orders the operator classes as documented: every operator has a precedence, equal inside a class, '
                       'strictly decreasing from class to class (member access > ** > prefix > * / // % > + - > shifts > && > ^^ > || > ranges > comparisons > and > or)')
    chk.rule('C11-R2', 'no binary operator is in TokenKind::is_right_associative')
    chk.rule('C11-R3', 'TokenKind::category maps every listed binary operator to BinOp and the prefix operators to UnaryOp')
    chk.rule('C11-R4', 'every reduction loop of the parser compares stacked.precedence() >= incoming.precedence() (left grouping)')
    chk.rule('C11-R5', "in Lexer, `-` becomes part of a numeric literal (lex_num('-')) only under op_fix()==Prefix and a digit peeked; Infix gives Minus")
    adt = fx.adt('erg_parser', 'token::TokenKind')
    kinds = {v['n'] for v in adt['variants']}
    chk.floor('TokenKind variants', len(kinds), 80)
    for k in BINARY + PREFIX + ['Dot']:
        chk.need(k in kinds, 'TokenKind::%s no longer exists' % k)

    # ---- R1
    fn = fx.fn(TOKEN, 'TokenKind::precedence')
    ms = [n for n in T.walk(fn['body']) if n.get('k') == 'Match']
    prec = {}
    if chk.need(len(ms) == 1, 'precedence: expected one match'):
        for arm in ms[0]['arms']:
            v = T.lit_int(arm['b'])
            if v is None:
                continue
            for p in T.pat_variants(arm['pat']):
                prec.setdefault(T.last_seg(p), v)
        chk.floor('precedence rows', len(prec), 40)
        for lvl in ORDER:
            for k in lvl:
                if k not in prec:
                    chk.bad('C11-R1', 'TokenKind::precedence', 'missing:' + k, 'operator %s has no precedence' % k, TOKEN, fn['line'])
            for k in lvl[1:]:
                if k in prec and lvl[0] in prec:
                    if prec[k] == prec[lvl[0]]:
                        chk.ok('C11-R1', ('eq', lvl[0], k))
                    else:
                        chk.bad('C11-R1', 'TokenKind::precedence', 'eq:%s=%s' % (lvl[0], k),
                                '%s (%d) and %s (%d) must bind equally' % (lvl[0], prec[lvl[0]], k, prec[k]), TOKEN, fn['line'])
        for hi, lo in zip(ORDER, ORDER[1:]):
            a, b = hi[0], lo[0]
            if a in prec and b in prec:
                if prec[a] > prec[b]:
                    chk.ok('C11-R1', ('gt', a, b), sample='precedence(%s)=%d > precedence(%s)=%d' % (a, prec[a], b, prec[b]))
                else:
                    chk.bad('C11-R1', 'TokenKind::precedence', 'gt:%s>%s' % (a, b),
                            '%s (%d) must bind tighter than %s (%d)' % (a, prec[a], b, prec[b]), TOKEN, fn['line'])
        # no other BinOp-category operator may sit strictly inside the documented band with a conflicting level:
        # (not judged: arrows, colon, comma … are below `or` by the same table; reported as evidence)
        chk.notes.append({'precedence table': prec})

    # ---- R2
    fn = fx.fn(TOKEN, 'TokenKind::is_right_associative')
    ms = [n for n in T.walk(fn['body']) if n.get('k') == 'Match']
    if chk.need(len(ms) == 1, 'is_right_associative: expected one matches!'):
        ra = set()
        for arm in ms[0]['arms']:
            b = T.peel(arm['b'])
            if b.get('k') == 'Lit' and b['v'].get('bool') is True:
                ra |= {T.last_seg(p) for p in T.pat_variants(arm['pat'])}
        for k in BINARY:
            if k in ra:
                chk.bad('C11-R2', 'TokenKind::is_right_associative', k, 'binary operator %s is right-associative' % k, TOKEN, fn['line'])
            else:
                chk.ok('C11-R2', k)
        chk.notes.append({'right associative kinds': sorted(ra)})

    # ---- R3
    fn = fx.fn(TOKEN, 'TokenKind::category')
    ms = [n for n in T.walk(fn['body']) if n.get('k') == 'Match']
    if chk.need(len(ms) == 1, 'category: expected one match'):
        cat, default = {}, None
        for arm in ms[0]['arms']:
            b = T.peel(arm['b'])
            if b.get('k') == 'Block':
                ss = T.stmts_of(b)
                b = T.peel(ss[0]) if len(ss) == 1 else b
            if b.get('k') != 'Path':
                continue
            c = T.last_seg(b['d'])
            vs = T.pat_variants(arm['pat'])
            if vs == {'_'}:
                default = c
            else:
                for p in vs:
                    cat.setdefault(T.last_seg(p), c)
        chk.floor('category rows', len(cat), 40)
        for k in BINARY:
            c = cat.get(k, default)
            if c == 'BinOp':
                chk.ok('C11-R3', k)
            else:
                chk.bad('C11-R3', 'TokenKind::category', k, 'binary operator %s has category %s, not BinOp: the reduction loop ignores its precedence' % (k, c), TOKEN, fn['line'])
        for k in PREFIX:
            c = cat.get(k, default)
            if c == 'UnaryOp':
                chk.ok('C11-R3', k)
            else:
                chk.bad('C11-R3', 'TokenKind::category', k, 'prefix operator %s has category %s, not UnaryOp' % (k, c), TOKEN, fn['line'])

    # ---- R4 comparator sites
    sites = 0
    for f in fx.fns(PARSE):
        types = fx.file(PARSE)['types']
        # locals bound to a precedence() result
        prec_locals = {}
        stacked_locals = set()
        for n in T.walk(f['body']):
            if n.get('k') == 'Let' and 'init' in n and n['pat'].get('k') == 'Bind':
                if is_prec_call(n['init']):
                    prec_locals[n['pat']['n']] = base_local(n['init'])
            if n.get('k') == 'LetCond':
                # while let Some(ExprOrOp::Op(prev_op)) = stack.get(..)
                init = T.peel(n['init'])
                if init.get('k') == 'MCall' and init['n'] in ('get', 'last', 'get_mut', 'last_mut') and 'ExprOrOp' in (T.ty(init, types) or ''):
                    stacked_locals.update(T.pat_bindings(n['pat']))
        for n in T.walk(f['body']):
            if n.get('k') == 'Binary' and n['op'] in ('>=', '>', '<=', '<', '==', '!='):
                lx, ly = operand_origin(n['x'], prec_locals), operand_origin(n['y'], prec_locals)
                if lx is None or ly is None:
                    continue
                sites += 1
                sx, sy = lx in stacked_locals, ly in stacked_locals
                where = T.norm(f['path'])
                inst = '%s %s %s' % ('stacked' if sx else 'incoming', n['op'], 'stacked' if sy else 'incoming')
                if sx == sy:
                    chk.lost.append('%s: cannot tell stacked from incoming operator in `%s`' % (where, T.show(n)))
                    continue
                ok = (sx and n['op'] == '>=') or (sy and n['op'] == '<=')
                if ok:
                    chk.ok('C11-R4', (where, sites), sample='%s: %s' % (where, T.show(n)))
                else:
                    chk.bad('C11-R4', where, inst, 'reduction loop compares `%s`: equal-precedence operators would not group to the left' % T.show(n), PARSE, n['l'])
    chk.floor('precedence comparator sites', sites, 2)
    # ---- R4b: the reduction loop may stop on the stack length only when no `expr op expr` triple is left (len < 3)
    chk.rule('C11-R4b', 'inside a reduction loop (`while let Some(Op(prev)) = stack.get(stack.len() - 2)`) an exit on the stack length fires only when fewer than three '
                        'elements remain (`stack.len() <= c` needs c < 3): stopping earlier leaves a reducible `expr op expr` triple and groups it to the right; '
                        'the two loops (try_reduce_chunk / try_reduce_expr) use the same bound')
    bounds = {}
    for f in fx.fns(PARSE):
        for n in T.walk(f['body']):
            if n.get('k') == 'Loop' and n.get('src') == 'While':
                conds = [c for c in T.walk(n['b']) if c.get('k') == 'LetCond' and 'stack.get(' in T.show(c['init']).replace(' ', '') and 'len()-2' in T.show(c['init']).replace(' ', '')]
                if not conds:
                    continue
                if not any(is_prec_call(x) for x in T.walk(n['b'])):
                    continue
                where = T.norm(f['path'])
                for c, ctx in T.walk_ctx(n['b']):
                    if c.get('k') == 'If' and any(b.get('k') == 'Break' for b in T.walk(c['t'])):
                        cc = T.peel(c['c'])
                        if cc.get('k') == 'Binary' and cc['op'] in ('<=', '<', '==') and T.show(T.peel(cc['x'])) == 'stack.len()' and T.lit_int(cc['y']) is not None:
                            lim = T.lit_int(cc['y']) + (1 if cc['op'] in ('<=', '==') else 0)     # exits when len < lim
                            bounds.setdefault(where, []).append((lim, cc, c['l']))
    chk.floor('reduction loops with a length exit', len(bounds), 2)
    for where, bs in sorted(bounds.items()):
        for (lim, cc, line) in bs:
            if lim <= 3:
                chk.ok('C11-R4b', (where, T.show(cc)), sample='%s: `if %s { break }` stops only when no triple is left' % (where, T.show(cc)))
            else:
                chk.bad('C11-R4b', where, 'length-exit:%s' % T.show(cc), '%s leaves its reduction loop on `%s` although an `expr op expr` triple is still on the stack: '
                        'e.g. `a - b * c - d` groups as `a - ((b*c) - d)`' % (where, T.show(cc)), PARSE, line)
    lims = {tuple(sorted(l for l, _, _ in bs)) for bs in bounds.values()}
    if len(lims) > 1:
        chk.bad('C11-R4b', 'erg_parser::parse', 'sibling-bounds', 'the two reduction loops use different length bounds %s' % sorted(lims), PARSE, None)

    # ---- R5
    lexfile = fx.file(LEX)
    found = 0
    infix_ok = False
    for f in lexfile['fns']:
        for n, ctx in T.walk_ctx(f['body']):
            if n.get('k') == 'MCall' and n['n'] == 'lex_num' and n['a'] and char_lit(n['a'][0]) == '-':
                found += 1
                has_prefix = any(c[0] == 'arm' and is_opfix(c[1]) and any(p.endswith('OpFix::Prefix') or p.endswith('::Some') for p in pats_all(c[2]['pat']))
                                 and 'OpFix::Prefix' in T.show(c[2]['pat']) for c in ctx)
                has_digit = any(c[0] == 'if' and c[2] is True and 'is_ascii_digit' in T.show(c[1]) and 'peek_cur_ch' in T.show(c[1]) for c in ctx)
                where = T.norm(f['path'])
                if has_prefix and has_digit:
                    chk.ok('C11-R5', 'lex_num-guard', sample="%s: lex_num('-') under %s" % (where, ' && '.join(T.conds(ctx)[-2:])))
                else:
                    chk.bad('C11-R5', where, "lex_num('-')", "`-` is lexed into a numeric literal without %s" %
                            ('the Prefix position test' if not has_prefix else 'a digit being peeked'), LEX, n['l'])
            if n.get('k') == 'MCall' and n['n'] == 'accept' and n['a'] and T.show(T.peel(n['a'][0])).endswith('Minus') and 'PreMinus' not in T.show(n['a'][0]):
                if any(c[0] == 'arm' and is_opfix(c[1]) and 'OpFix::Infix' in T.show(c[2]['pat']) for c in ctx):
                    infix_ok = True
    chk.floor("lex_num('-') sites", found, 1)
    if infix_ok:
        chk.ok('C11-R5', 'infix-minus', sample='op_fix()==Infix => accept(Minus)')
    else:
        chk.bad('C11-R5', 'Lexer', 'infix-minus', 'no `accept(Minus, "-")` under op_fix() == Some(Infix)', LEX, None)
    word_rule(chk, fx)
    return ('Table rules over the resolved match arms of TokenKind::precedence / category / is_right_associative, the precedence comparators of the two '
            'reduction loops in erg_parser::parse and the `-` arm of the lexer. Decides the table and comparator; the stack handling of the reduction '
            'loops beyond the comparator is not decided.'), {'exhaustive': True}


def is_prec_call(e):
    e = T.peel(e)
    return e.get('k') == 'MCall' and e['n'] == 'precedence' and (T.cq(e) or '').endswith('::precedence')


def base_local(e):
    e = T.peel(e)
    while e.get('k') in ('MCall', 'Field'):
        e = T.peel(e['r'] if e['k'] == 'MCall' else e['x'])
    return e.get('n') if e.get('k') == 'Local' else None


def operand_origin(e, prec_locals):
    e = T.peel(e)
    if is_prec_call(e):
        return base_local(e)
    if e.get('k') == 'Local' and e['n'] in prec_locals:
        return prec_locals[e['n']]
    return None


def char_lit(e):
    e = T.peel(e)
    if e.get('k') == 'Lit' and isinstance(e.get('v'), dict):
        return e['v'].get('char')
    return None


def is_opfix(m):
    x = T.peel(m['x'])
    return x.get('k') == 'MCall' and x['n'] == 'op_fix'


def pats_all(p):
    return [q.get('d', '') for q in T.walk(p) if 'd' in q]


def word_rule(chk, fx, rid='C11-word'):
    """the precedence table is indexed by token kinds: a word operator must get its operator kind wherever it stands"""
    chk.rule(rid, 'the token kind of a word (and, or, in, notin, contains, is!, isnot!, ref ..) is a function of the word alone: the kind Lexer::lex_symbol hands to the token is taken from '
                  'its `match` over the text and from nothing else — no look at the character that follows or at the token before; `x and(y or z)` must parse like `x and (y or z)` '
                  '(with `and` demoted to a Symbol before `(` it becomes the call `x(and(..))`)')
    f = [g for g in fx.file(LEX)['fns'] if T.norm(g['path']) == 'Lexer::lex_symbol']
    if not chk.need(len(f) == 1, 'Lexer::lex_symbol not found'):
        return
    f = f[0]
    lets = {}
    for n in T.walk(f['body']):
        if n.get('k') == 'Let' and n.get('init') is not None:
            for b in T.walk(n['pat']):
                if b.get('k') == 'Bind':
                    lets[b['id']] = n['init']
    emits = [c for c in T.calls(f['body']) if c.get('k') == 'MCall' and c['n'] in ('emit_singleline_token', 'emit_multiline_token') and len(c['a']) >= 2]
    kinds = []
    for c in emits:
        a = T.peel(c['a'][0])
        # the last emit of the function: the word itself (earlier ones are error tokens)
        kinds.append((c, a))
    if not chk.need(kinds, 'lex_symbol: no token emission found'):
        return
    c, a = kinds[-1]
    CONTEXT = ('peek_cur_ch', 'peek_next_ch', 'peek_prev_ch', 'peek_prev_prev_ch', 'prev_token', 'cursor', 'chars')

    def context_in(e, seen=()):
        for x in T.walk(e):
            if x.get('k') == 'MCall' and x['n'] in CONTEXT:
                return T.show(x)[:40]
            if x.get('k') == 'Field' and x.get('n') in CONTEXT:
                return T.show(x)[:40]
            if x.get('k') == 'Local' and x.get('id') in lets and x['id'] not in seen:
                r = context_in(lets[x['id']], seen + (x['id'],))
                if r:
                    return r
        return None
    ctxt = context_in(a)
    table = any(m.get('k') == 'Match' and sum(1 for arm in m['arms'] if arm['pat'].get('k') == 'PLit' or arm['pat'].get('k') == 'POr') >= 8 for m in T.walk(f['body']))
    if not chk.need(table, 'lex_symbol: the match over the text of the word was not found'):
        return
    if ctxt:
        chk.bad(rid, 'Lexer::lex_symbol', 'context-dependent-kind', 'the kind of a word token depends on `%s`: a word operator followed by `(` (or in another context) is lexed as a plain '
                'symbol, so the parser never looks it up in the precedence table — `x and(y or z)` becomes `x(and(or(y, z)))`, `i + j contains(k)` becomes `+(i, j(contains(k)))`' % ctxt,
                LEX, c.get('l'))
    else:
        chk.ok(rid, 'kind-from-text', sample='emit(%s, ..): decided by the match over the text' % T.show(a)[:30])
