"""C18  every literal / value text reaching the JSON output passes a JSON encoder  (flow rule inside JsonGenerator)"""
from sa import facts as F, tree as T

TR = 'crates/erg_compiler/transpile.rs'


def is_encoder_call(n, encoders):
    if n.get('k') in ('Call', 'MCall'):
        q = T.cq(n) or ''
        if q in encoders or 'serde_json' in (T.callee(n) or ''):
            return True
    return False


def find_encoders(fx):
    """functions of transpile.rs that escape `"` (map '"' to '\\"') or map True/None to true/null: JSON encoders"""
    enc = set()
    for f in fx.fns(TR):
        lits = [T.peel(a).get('v', {}) for c in T.calls(f['body']) if c.get('k') == 'MCall' and c['n'] == 'replace' for a in c['a']]
        strs = {v.get('str') or v.get('char') for v in lits if isinstance(v, dict)}
        allstr = {x.get('v', {}).get('str') for x in T.walk(f['body']) if x.get('k') == 'Lit' and isinstance(x.get('v'), dict)}
        if ('"' in strs and '\\"' in strs) or ({'true', 'false', 'null'} <= allstr):
            enc.add(T.norm(f['path']))
    return enc


# RFC 8259 section 7: the two-character escapes and the characters that MUST be escaped
JSON_ESC = {'"': '\\"', '\\': '\\\\', '/': '\\/', '\b': '\\b', '\f': '\\f', '\n': '\\n', '\r': '\\r', '\t': '\\t'}
MUST_ESCAPE = ['"', '\\'] + [chr(i) for i in range(0x20)]


def _fmt_placeholders(bs):
    """lowered format_args! template -> (literal pieces, [(zero_pad, width)]) ; None when the encoding is not understood"""
    lits, phs, i = [], [], 0
    while i < len(bs) and bs[i] != 0:
        b = bs[i]
        if b < 0x80:
            lits.append(bytes(bs[i + 1:i + 1 + b]).decode('utf-8', 'replace'))
            i += 1 + b
        elif b == 0xC0:
            phs.append((False, None))
            i += 1
        elif b & 0xC0 == 0xC0:
            i += 1
            flags = width = None
            if b & 1:
                flags = int.from_bytes(bytes(bs[i:i + 4]), 'little')
                i += 4
            if b & 2:
                width = int.from_bytes(bytes(bs[i:i + 2]), 'little')
                i += 2
            if b & 4:
                i += 2
            if b & 8:
                i += 2
            phs.append((bool(flags is not None and (flags >> 24) & 1), width))
        else:
            return None
    return lits, phs


def encoder_rules(chk, fx, enc):
    chk.rule('C18-string', 'the JSON string encoder maps `"` and `\\` to their two-character escapes, every other explicit arm to the escape RFC 8259 gives for that character, every '
                           'control character below U+0020 to an escape (explicit arm or `\\u` + 4 zero-padded hex digits), and puts the result between double quotes')
    chk.rule('C18-value', 'the JSON value encoder maps Bool to true/false, None to null, non-finite floats to null, strings and record / dict keys through the string encoder, '
                          'and the elements of lists, tuples, records and dicts through itself')
    cands = []
    for f in fx.fns(TR):
        for m in T.walk(f['body']):
            if m.get('k') == 'Match' and m.get('src') == 'Normal':
                chars = [a['pat']['v']['char'] for a in m['arms'] if a['pat'].get('k') == 'PLit' and 'char' in (a['pat'].get('v') or {})]
                if '"' in chars:
                    cands.append((f, m))
    if not chk.need(len(cands) == 1, 'the JSON string encoder (a match over a char with an arm for \'"\') was not found uniquely in transpile.rs (%d)' % len(cands)):
        return
    f, m = cands[0]
    where = T.norm(f['path'])
    covered = set()
    for a in m['arms']:
        pat = a['pat']
        pushed = [T.peel(c['a'][0]).get('v', {}) for c in T.calls(a['b']) if c.get('k') == 'MCall' and c['n'] in ('push_str', 'push') and c['a']]
        if pat.get('k') == 'PLit' and 'char' in (pat.get('v') or {}) and not a.get('g'):
            ch = pat['v']['char']
            out = ''.join((v.get('str') or v.get('char') or '') for v in pushed if isinstance(v, dict))
            inst = 'arm:%r' % ch
            if out == JSON_ESC.get(ch):
                covered.add(ch)
                chk.ok('C18-string', inst, sample='%r -> %s' % (ch, out))
            elif ch < ' ' and out.lower() == '\\u%04x' % ord(ch):
                covered.add(ch)
                chk.ok('C18-string', inst)
            else:
                chk.bad('C18-string', where, inst, 'the string encoder writes %r for the character %r; JSON requires %s' % (out, ch, JSON_ESC.get(ch) or ('\\u%04x' % ord(ch))), TR, a['l'])
        elif pat.get('k') == 'Bind' and a.get('g'):
            g = T.peel(a['g'])
            bound = None
            if g.get('k') == 'Binary' and g.get('op') in ('<', '<=', 'Lt', 'Le'):
                v = T.lit_int(T.peel(g['y']))
                if v is not None and pat['n'] in T.show(g['x']):
                    bound = v if g['op'] in ('<', 'Lt') else v + 1
            tpl = None
            hexarg = False
            for c in T.calls(a['b']):
                if c.get('k') == 'Call' and (c.get('fn') or '').endswith("Arguments::<'a>::new"):
                    tpl = (T.peel(c['a'][0]).get('v') or {}).get('bytes')
                if c.get('k') == 'Call' and (c.get('fn') or '').endswith(('new_lower_hex', 'new_upper_hex')):
                    hexarg = True
            dec = _fmt_placeholders(tpl) if tpl else None
            good = bool(dec and dec[0] == ['\\u'] and len(dec[1]) == 1 and dec[1][0] == (True, 4) and hexarg)
            if bound is not None and good:
                covered |= {chr(i) for i in range(min(bound, 0x20))}
                chk.ok('C18-string', 'arm:control', sample='c < %#x -> \\u + 4 zero-padded hex digits' % bound)
            elif bound is not None:
                chk.bad('C18-string', where, 'arm:control', 'the arm for control characters (below %#x) does not write `\\u` followed by exactly four zero-padded hex digits' % bound, TR, a['l'])
    missing = [c for c in MUST_ESCAPE if c not in covered]
    if missing:
        chk.bad('C18-string', where, 'unescaped', 'the string encoder leaves %s unescaped: the output is not valid JSON for strings containing them'
                % ', '.join(repr(c) for c in missing[:6]), TR, f['line'])
    else:
        chk.ok('C18-string', 'mandatory', sample='all %d characters that must be escaped are' % len(MUST_ESCAPE))
    quotes = [c for c in T.calls(f['body']) if c.get('k') == 'MCall' and c['n'] == 'push' and (T.peel(c['a'][0]).get('v') or {}).get('char') == '"'
              and not any(c is x for a in m['arms'] for x in T.walk(a['b']))]
    if len(quotes) == 2 and quotes[0]['l'] < m['l'] < quotes[1]['l']:
        chk.ok('C18-string', 'quotes')
    else:
        chk.bad('C18-string', where, 'quotes', 'the string encoder does not put the escaped text between two double quotes', TR, f['line'])
    # ---- value encoder
    senc = where
    vcands = [g for g in fx.fns(TR) if {'true', 'false', 'null'} <= {x.get('v', {}).get('str') for x in T.walk(g['body']) if x.get('k') == 'Lit' and isinstance(x.get('v'), dict)}]
    if not chk.need(len(vcands) == 1, 'the JSON value encoder (true / false / null) was not found uniquely (%d)' % len(vcands)):
        return
    vf = vcands[0]
    vname = T.norm(vf['path'])
    vm = [x for x in T.walk(vf['body']) if x.get('k') == 'Match' and x.get('src') == 'Normal']
    if not chk.need(vm, 'value encoder: no match'):
        return
    vm = vm[0]

    def lit_strs(n):
        return [x['v']['str'] for x in T.walk(n) if x.get('k') == 'Lit' and isinstance(x.get('v'), dict) and 'str' in x['v']]

    def calls_to(n, name):
        return [c for c in T.calls(n) if T.norm(T.callee(c) or '') == name or (T.callee(c) or '').endswith('::' + name.split('::')[-1])]
    seen = set()
    for a in vm['arms']:
        vs = [v.split('::')[-1] for v in T.pat_variants(a['pat'])]
        ps = json_pat = T.show(a['pat']) if hasattr(T, 'show') else ''
        body = a['b']
        for v in vs:
            if v == 'Bool':
                lit = [x['v'].get('bool') for x in T.walk(a['pat']) if x.get('k') == 'PLit' and isinstance(x.get('v'), dict)]
                want = {True: 'true', False: 'false'}.get(lit[0]) if lit else None
                got = lit_strs(body)
                inst = 'Bool(%s)' % (lit[0] if lit else '?')
                seen.add(inst)
                if want and got == [want]:
                    chk.ok('C18-value', inst, sample='%s -> %s' % (inst, want))
                else:
                    chk.bad('C18-value', vname, inst, 'the value encoder writes %s for %s' % (got, inst), TR, a['l'])
            elif v == 'None':
                seen.add('None')
                if lit_strs(body) == ['null']:
                    chk.ok('C18-value', 'None', sample='None -> null')
                else:
                    chk.bad('C18-value', vname, 'None', 'the value encoder writes %s for None' % lit_strs(body), TR, a['l'])
            elif v == 'Str':
                seen.add('Str')
                if calls_to(body, senc):
                    chk.ok('C18-value', 'Str', sample='Str -> %s(..)' % senc.split('::')[-1])
                else:
                    chk.bad('C18-value', vname, 'Str', 'a string value does not pass the string encoder', TR, a['l'])
            elif v in ('List', 'Tuple', 'Dict', 'Record', 'Set'):
                seen.add(v)
                rec = calls_to(body, vname) or [x for x in T.walk(body) if x.get('k') == 'Path' and (x.get('d') or '').endswith(vname.split('::')[-1])]
                keys_ok = True
                if v in ('Dict', 'Record'):
                    keys_ok = bool(calls_to(body, senc))
                if rec and keys_ok:
                    chk.ok('C18-value', v, sample='%s -> elements through %s%s' % (v, vname.split('::')[-1], ', keys through the string encoder' if v in ('Dict', 'Record') else ''))
                else:
                    chk.bad('C18-value', vname, v, 'the %s arm of the value encoder %s' % (v, 'does not encode its elements recursively' if not rec else 'writes keys without the string encoder'),
                            TR, a['l'])
            elif v == 'Float':
                inst = 'Float:' + ('guarded' if a.get('g') else 'rest')
                seen.add(inst)
                if a.get('g'):
                    # the text of a finite float is what one `{:?}` / `{}` formatting gives (Rust prints a JSON number: digits, `.`, `e`, `-`); any edit of that text
                    # afterwards (push / insert / replace / a second template around it) must keep it a number for every value, which is not decided: reported
                    edits = [c_ for c_ in T.calls(body) if c_.get('k') == 'MCall' and c_['n'] in ('push', 'push_str', 'insert', 'insert_str', 'replace', 'replacen', 'trim_end_matches',
                                                                                                 'trim_start_matches', 'truncate', 'pop', 'remove', 'extend')]
                    if 'is_finite' in T.show(a['g']) and not edits:
                        chk.ok('C18-value', inst)
                    elif edits:
                        chk.bad('C18-value', vname, 'Float:edited', 'the Float arm of the value encoder edits the formatted number afterwards (`%s`): the Debug text of a float is not always '
                                'positional — 1e16 and 1e-7 have no `.`, so appending `.0` gives `1e16.0`, which is not a JSON number' % T.show(edits[0])[:40], TR, a['l'])
                    else:
                        chk.bad('C18-value', vname, inst, 'the guarded Float arm does not test is_finite()', TR, a['l'])
                else:
                    if lit_strs(body) == ['null']:
                        chk.ok('C18-value', inst, sample='non-finite Float -> null')
                    else:
                        chk.bad('C18-value', vname, inst, 'a Float that may be inf / nan is written as %s' % (lit_strs(body) or 'its Display text'), TR, a['l'])
    for need_ in ('Bool(True)', 'Bool(False)', 'None', 'Str', 'List', 'Tuple', 'Dict', 'Record'):
        if need_ not in seen:
            chk.bad('C18-value', vname, 'missing:' + need_, 'the value encoder has no arm for %s: it falls into the generic arm' % need_, TR, vf['line'])
    chk.floor('value encoder arms recognised', len(seen), 8)


def member_rule(chk, fx):
    chk.rule('C18-members', 'the object written by JsonGenerator::transpile has a separator exactly between two members: the `,` is produced by joining the non-empty member texts, or '
                            'is appended under a test of the member that follows it — a chunk that yields no member (a private binding) must not leave a dangling `,`')
    f = fx.fn(TR, 'JsonGenerator::transpile')
    joins = [c for c in T.calls(f['body']) if c.get('k') == 'MCall' and c['n'] == 'join' and c['a'] and ',' in ((T.peel(c['a'][0]).get('v') or {}).get('str') or '')]
    pushes = [n for n in T.walk(f['body']) if n.get('k') == 'AssignOp' and n.get('op') == '+=' and ',' in ((T.peel(n['y']).get('v') or {}).get('str') or '')]
    pushes += [c for c in T.calls(f['body']) if c.get('k') == 'MCall' and c['n'] in ('push_str', 'push') and c['a'] and ',' in str((T.peel(c['a'][0]).get('v') or {}).get('str') or (T.peel(c['a'][0]).get('v') or {}).get('char') or '')]
    if not chk.need(joins or pushes, 'JsonGenerator::transpile: no separator is written'):
        return
    for j in joins:
        # the joined collection must have been filtered for empty members
        src = T.show(j['r'])
        env = VSlet(f)
        chain = T.show(env.get(T.peel(j['r']).get('n'), j['r'])) if T.peel(j['r']).get('k') == 'Local' else src
        if 'filter' in chain and 'is_empty' in chain:
            chk.ok('C18-members', 'join', sample='members.join(",\\n") over the non-empty member texts')
        else:
            chk.bad('C18-members', 'JsonGenerator::transpile', 'join-unfiltered', 'the member texts are joined without removing the empty ones: a chunk that yields no member leaves `,,` or a '
                    'trailing `,`', TR, j.get('l'))
    for p_ in pushes:
        # the separator is appended: its condition must look at the member that follows (a local bound to transpile_expr(..) earlier in the same iteration)
        ok_ = False
        for n, ctx in T.walk_ctx(f['body']):
            if n is p_:
                for c in ctx:
                    if c[0] == 'if':
                        locs = [x for x in T.walk(c[1]) if x.get('k') == 'Local']
                        for l_ in locs:
                            binding = [b for b in T.walk(f['body']) if b.get('k') == 'Let' and b['pat'].get('k') == 'Bind' and b['pat'].get('id') == l_.get('id')]
                            if binding and any(cc.get('k') == 'MCall' and cc['n'] == 'transpile_expr' for cc in T.calls(binding[0].get('init') or {})) and binding[0]['l'] <= p_.get('l', 0):
                                ok_ = True
        if ok_:
            chk.ok('C18-members', ('push', p_.get('l')))
        else:
            chk.bad('C18-members', 'JsonGenerator::transpile', 'separator-before-member', 'a `,` is appended before it is known whether the chunk that follows yields a member (the test looks at '
                    'the previous chunk): `.a = 1` followed by a private `b = 2` gives `{"a": 1,\\n\\n}`, which is not JSON', TR, p_.get('l'))


def VSlet(f):
    from sa.kinds import vspec as VS
    return VS.let_env(f)


def run(chk):
    fx = F.Facts()
    chk.rule('C18-encode', 'in JsonGenerator every piece of source text or value text that flows into the output (Literal token content, <ValueObj as Display>::to_string) '
                           'passes through a JSON encoder (a function that escapes `"` and maps True/False/None to true/false/null, or serde_json)')
    fns = [f for f in fx.fns(TR) if (f.get('self_ty') or '').split('::')[-1] == 'JsonGenerator']
    chk.floor('JsonGenerator methods', len(fns), 5)
    types = fx.file(TR)['types']
    enc = find_encoders(fx)
    chk.analysed['json encoder functions found'] = len(enc)
    sources = 0
    for f in fns:
        name = f['path'].rsplit('::', 1)[-1]
        if name not in ('transpile_expr', 'transpile_def', 'transpile'):
            continue
        where = T.norm(f['path'])
        for n in T.walk(f['body']):
            # (a) unencoded conversions of a value / literal text into output text
            if n.get('k') == 'MCall' and n['n'] == 'to_string':
                rt = (types[n['rt']] or '')
                recv = T.show(n['r'])
                kind = 'value:' + recv if 'ValueObj' in rt else ('literal:' + recv if recv.endswith('token.content') else None)
                if kind is None:
                    continue
                sources += 1
                wrapped = any(is_encoder_call(m, enc) and any(x is n for a in m['a'] for x in T.walk(a)) for m in T.walk(f['body']))
                if wrapped:
                    chk.ok('C18-encode', (where, kind), sample='%s: %s passes through an encoder' % (where, kind))
                else:
                    chk.bad('C18-encode', where, kind, '%s writes `%s` into the JSON output without encoding: True/False/None, strings with quotes or control characters '
                            'produce invalid or different JSON' % (where, T.show(n)), TR, n['l'])
            # (b) encoded conversions
            if is_encoder_call(n, enc) and n.get('k') == 'Call' and n['a']:
                at = types[T.peel(n['a'][0]).get('ty', 0)] if isinstance(T.peel(n['a'][0]).get('ty'), int) else ''
                if 'ValueObj' in (at or '') or 'Str' in (at or '') or 'str' in (at or ''):
                    sources += 1
                    chk.ok('C18-encode', (where, 'encoded:' + T.show(n['a'][0])), sample='%s: %s' % (where, T.show(n)))
        # the Literal arm must not fall back to the raw token text
        for m in [x for x in T.walk(f['body']) if x.get('k') == 'Match' and x.get('src') == 'Normal']:
            for arm in m['arms']:
                if any(v.endswith('hir::Expr::Literal') for v in T.pat_variants(arm['pat'])):
                    if any(is_encoder_call(c, enc) for c in T.calls(arm['b'])):
                        chk.ok('C18-encode', (where, 'Literal-arm'))
                    elif not any(c.get('k') == 'MCall' and c['n'] == 'to_string' for c in T.calls(arm['b'])):
                        chk.lost.append('%s: the Expr::Literal arm produces its text in an unrecognised way' % where)
    encoder_rules(chk, fx, enc)
    member_rule(chk, fx)
    return ('Flow rule inside JsonGenerator (typed HIR: receiver types of to_string), a table rule on the string encoder against the escapes of RFC 8259, and a per-variant rule on '
            'the value encoder. That the values equal the initializers (constant evaluation) is not decided.'), {}
    return ('Flow rule inside JsonGenerator (typed HIR: receiver types of to_string). Decides that value text is encoded; that the values equal the initializers is not decided.'), {}
