"""C18  every literal / value text reaching the JSON output passes a JSON encoder  (flow rule inside JsonGenerator)"""
from sa import facts as F, tree as T

TR = 'crates/erg_compiler/transpile.rs'


def is_encoder_call(n, encoders):
    if n.get('k') in ('Call', 'MCall'):
        q = T.cq(n) or ''
        if q in encoders or 'serde_json' in (T.callee(n) or ''):
            return True
    return False


def find_encoders(fx):
    """functions of transpile.rs that escape `"` (map '"' to '\\"') or map True/None to true/null: JSON encoders"""
    enc = set()
    for f in fx.fns(TR):
        lits = [T.peel(a).get('v', {}) for c in T.calls(f['body']) if c.get('k') == 'MCall' and c['n'] == 'replace' for a in c['a']]
        strs = {v.get('str') or v.get('char') for v in lits if isinstance(v, dict)}
        allstr = {x.get('v', {}).get('str') for x in T.walk(f['body']) if x.get('k') == 'Lit' and isinstance(x.get('v'), dict)}
        if ('"' in strs and '\\"' in strs) or ({'true', 'false', 'null'} <= allstr):
            enc.add(T.norm(f['path']))
    return enc


def run(chk):
    fx = F.Facts()
    chk.rule('C18-encode', 'in JsonGenerator every piece of source text or value text that flows into the output (Literal token content, <ValueObj as Display>::to_string) '
                           'passes through a JSON encoder (a function that escapes `"` and maps True/False/None to true/false/null, or serde_json)')
    fns = [f for f in fx.fns(TR) if (f.get('self_ty') or '').split('::')[-1] == 'JsonGenerator']
    chk.floor('JsonGenerator methods', len(fns), 5)
    types = fx.file(TR)['types']
    enc = find_encoders(fx)
    chk.analysed['json encoder functions found'] = len(enc)
    sources = 0
    for f in fns:
        name = f['path'].rsplit('::', 1)[-1]
        if name not in ('transpile_expr', 'transpile_def', 'transpile'):
            continue
        where = T.norm(f['path'])
        for n in T.walk(f['body']):
            # (a) unencoded conversions of a value / literal text into output text
            if n.get('k') == 'MCall' and n['n'] == 'to_string':
                rt = (types[n['rt']] or '')
                recv = T.show(n['r'])
                kind = 'value:' + recv if 'ValueObj' in rt else ('literal:' + recv if recv.endswith('token.content') else None)
                if kind is None:
                    continue
                sources += 1
                wrapped = any(is_encoder_call(m, enc) and any(x is n for a in m['a'] for x in T.walk(a)) for m in T.walk(f['body']))
                if wrapped:
                    chk.ok('C18-encode', (where, kind), sample='%s: %s passes through an encoder' % (where, kind))
                else:
                    chk.bad('C18-encode', where, kind, '%s writes `%s` into the JSON output without encoding: True/False/None, strings with quotes or control characters '
                            'produce invalid or different JSON' % (where, T.show(n)), TR, n['l'])
            # (b) encoded conversions
            if is_encoder_call(n, enc) and n.get('k') == 'Call' and n['a']:
                at = types[T.peel(n['a'][0]).get('ty', 0)] if isinstance(T.peel(n['a'][0]).get('ty'), int) else ''
                if 'ValueObj' in (at or '') or 'Str' in (at or '') or 'str' in (at or ''):
                    sources += 1
                    chk.ok('C18-encode', (where, 'encoded:' + T.show(n['a'][0])), sample='%s: %s' % (where, T.show(n)))
        # the Literal arm must not fall back to the raw token text
        for m in [x for x in T.walk(f['body']) if x.get('k') == 'Match' and x.get('src') == 'Normal']:
            for arm in m['arms']:
                if any(v.endswith('hir::Expr::Literal') for v in T.pat_variants(arm['pat'])):
                    if any(is_encoder_call(c, enc) for c in T.calls(arm['b'])):
                        chk.ok('C18-encode', (where, 'Literal-arm'))
                    elif not any(c.get('k') == 'MCall' and c['n'] == 'to_string' for c in T.calls(arm['b'])):
                        chk.lost.append('%s: the Expr::Literal arm produces its text in an unrecognised way' % where)
    return ('Flow rule inside JsonGenerator (typed HIR: receiver types of to_string). Decides that value text is encoded; that the values equal the initializers is not decided.'), {}
