"""C33  a match is accepted only through the exhaustiveness test  (K2 dominance in Context::get_match_call_t)"""
from sa import facts as F, tree as T
from sa.kinds import vspec as VS

FILE = 'crates/erg_compiler/context/inquire.rs'


def is_ok(e):
    e = T.peel(e)
    return e.get('k') == 'Call' and (e.get('fn') or '').endswith('::Ok')


def run(chk):
    fx = F.Facts()
    chk.rule('C33-dom', 'in Context::get_match_call_t every `Ok(..)` exit is dominated by the call sub_unify(scrutinee type, union of the arm pattern types) having succeeded: '
                        'the Err edge of that call pushes match_error and returns Err')
    chk.rule('C33-union', 'the second argument of that sub_unify is the union accumulated over *all* arm patterns (self.union(&acc, &arm_t) inside the loop over the arms)')
    f = fx.fn(FILE, 'Context::get_match_call_t')
    calls = [c for c in T.calls(f['body']) if (T.cq(c) or '').endswith('Context::sub_unify')]
    if not chk.need(len(calls) >= 1, 'get_match_call_t: no sub_unify call'):
        return 'anchor lost', {}
    target = calls[0]
    union_local = T.show(T.peel(target['a'][1])) if len(target['a']) >= 2 else None

    def pred(n):
        return n is target
    # the check must be in an `if let Err(..) = sub_unify(..) { ...; return Err }` (or `?`): the state only becomes "passed" on the success edge
    guarded = False
    deferred = [False]
    for n, ctx in T.walk_ctx(f['body']):
        if n.get('k') == 'If' and any(x is target for x in T.walk(n['c'])):
            lc = [x for x in T.walk(n['c']) if x.get('k') == 'LetCond']
            if lc and any(v.endswith('::Err') for v in T.pat_variants(lc[0]['pat'])):
                rets = [r for r in T.walk(n['t']) if r.get('k') == 'Ret' and not is_ok(r.get('x') or {})]
                pushes = [c for c in T.calls(n['t']) if 'match_error' in (T.cq(c) or '')]
                if rets and pushes and not any(r.get('k') == 'Ret' and is_ok(r.get('x') or {}) for r in T.walk(n['t'])):
                    guarded = True
                elif pushes and not rets:
                    # the error is only recorded: acceptable iff every Ok exit is under `errs.is_empty()`
                    from sa.props.c05 import errs_empty_refine
                    d2 = VS.Dominates(lambda x: False, is_ok, errs_empty_refine)
                    if not d2.run(f) and d2.good_exits >= 1:
                        guarded = True
                        deferred[0] = True
        if n.get('k') == 'Match' and n.get('src') == 'Try' and any(x is target for x in T.walk(n['x'])):
            guarded = True
    if guarded:
        chk.ok('C33-dom', 'err-edge', sample='if let Err(err) = self.sub_unify(target, &union, ..) { errs.push(match_error(..)); return Err(..) }')
    else:
        chk.bad('C33-dom', 'Context::get_match_call_t', 'err-edge', 'the failure of sub_unify(scrutinee, union of patterns) no longer leads to match_error + `return Err`: '
                'a non-exhaustive match is accepted', FILE, target['l'])
    dom = VS.Dominates(pred, is_ok)
    bad = dom.run(f)
    if deferred[0]:
        bad = []      # the Ok exits are guarded by `errs.is_empty()` instead (checked above)
    chk.floor('Ok exits of get_match_call_t', dom.good_exits + len(bad), 1)
    if bad:
        for b in bad:
            chk.bad('C33-dom', 'Context::get_match_call_t', 'ok-before-check', 'an `Ok(..)` result is returned on a path that does not pass the exhaustiveness test sub_unify(scrutinee, union)',
                    FILE, b.get('l'))
    else:
        chk.ok('C33-dom', 'ok-exits', sample='%d Ok exit(s), all after the exhaustiveness test' % dom.good_exits)
    # union accumulation
    acc = False
    for n, ctx in T.walk_ctx(f['body']):
        if n.get('k') == 'Assign' and T.show(T.peel(n['x'])) == union_local:
            y = T.peel(n['y'])
            if y.get('k') == 'MCall' and y['n'] == 'union' and union_local in T.show(y) and any(c[0] == 'loop' for c in ctx):
                acc = True
    if acc:
        chk.ok('C33-union', union_local, sample='%s = self.union(&%s, &arm_t) for every arm' % (union_local, union_local))
    else:
        chk.bad('C33-union', 'Context::get_match_call_t', 'union', 'the type compared with the scrutinee (`%s`) is not accumulated with self.union over all arms' % union_local, FILE, target['l'])
    return ('Dominance rule over the structured HIR of Context::get_match_call_t. Soundness of sub_unify / union and the run-time arm tests are not decided.'), {}
