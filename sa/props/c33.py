"""C33  a match is accepted only through the exhaustiveness test  (K2 dominance in Context::get_match_call_t)"""
from sa import facts as F, tree as T
from sa.kinds import vspec as VS

FILE = 'crates/erg_compiler/context/inquire.rs'


def is_ok(e):
    e = T.peel(e)
    return e.get('k') == 'Call' and (e.get('fn') or '').endswith('::Ok')


TOKENS = ('Closed', 'LeftOpen', 'RightOpen', 'Open')


def _arm_token(arm):
    vs = [v.split('::')[-1] for v in T.pat_variants(arm['pat'])]
    return vs[0] if len(vs) == 1 and vs[0] in TOKENS else None


def guard_rule(chk, fx):
    CG = 'crates/erg_compiler/codegen.rs'
    chk.rule('C33-guard', 'the run-time test of an arm is evaluated on the scrutinee as it is: in PyCodeGenerator::emit_match_pattern both kinds of generated guard — `%p in T` '
                          '(ContainsOp) and `%p == literal` (DblEq) — have the static type of the scrutinee side reset to Obj before the guard is emitted, so the value is not first '
                          'converted to the arm\'s type (`Nat("a")` raises ValueError although a later arm matches)')
    f = fx.fn(CG, 'PyCodeGenerator::emit_match_pattern')
    seen = {}
    for n in T.walk(f['body']):
        if n.get('k') != 'If':
            continue
        lc = [x for x in T.walk(n['c']) if x.get('k') == 'LetCond']
        if not lc:
            continue
        kinds = {(x.get('d') or '').split('::')[-1] for x in T.walk(lc[0]['pat']) if x.get('k') in ('PPath', 'PStruct', 'PTupleStruct') and 'TokenKind::' in (x.get('d') or '')}
        assigns = [a for a in T.walk(n['t']) if a.get('k') == 'Assign' and T.peel(a['y']).get('k') == 'Path' and (T.peel(a['y']).get('d') or '').endswith('Type::Obj')]
        for k_ in kinds:
            seen[k_] = seen.get(k_, False) or bool(assigns)
    for k_, what in (('ContainsOp', '`%p in T`'), ('DblEq', '`%p == literal`')):
        if seen.get(k_):
            chk.ok('C33-guard', k_, sample='%s guards: the operand type is reset to Obj' % what)
        else:
            chk.bad('C33-guard', 'PyCodeGenerator::emit_match_pattern', 'typed-operand:' + k_, 'the %s guard of a match arm is emitted with its operand still typed as the arm pattern: the '
                    'scrutinee is converted to that type first, and a value of another member of the scrutinee union (a Str, None) raises ValueError / TypeError before the arm that '
                    'would match it is tried' % what, CG, f['line'])


def interval_rule(chk, fx):
    """the static meaning of an interval type (`l<..<r` as a refinement predicate) against the run-time test emitted for the same operator (the Range class's __contains__)"""
    import ast
    from sa.kinds import optable as OT
    chk.rule('C33-interval', 'for each interval operator (.., <.., ..<, <..<) the refinement type built by ty::constructors::interval excludes exactly the ends that the run-time '
                             'class emitted for that operator (codegen emit_binop / transpiler -> _erg_range.py __contains__) excludes: `succ(l)` iff `start < item`, `pred(r)` iff '
                             '`item < end`; otherwise the exhaustiveness test accepts an arm for a value its run-time guard rejects')
    CONS = 'crates/erg_compiler/ty/constructors.rs'
    f = fx.fn(CONS, 'interval')
    if not chk.need(f is not None, 'ty::constructors::interval not found'):
        return
    static = {}
    for m in T.walk(f['body']):
        if m.get('k') != 'Match' or m.get('src') != 'Normal':
            continue
        for arm in m['arms']:
            vs = [v.split('::')[-1] for v in T.pat_variants(arm['pat'])]
            if len(vs) != 1 or vs[0] not in TOKENS:
                continue
            op = vs[0]
            for c in T.calls(arm['b']):
                nm = T.norm(T.callee(c) or '')
                if nm in ('Predicate::ge', 'Predicate::gt', 'Predicate::le', 'Predicate::lt') and len(c['a']) >= 2:
                    bound = T.peel(c['a'][1])
                    wrapped = None
                    if bound.get('k') == 'Call':
                        wrapped = T.norm(T.callee(bound) or '').split('::')[-1]
                    side = 'l' if nm[-2] == 'g' else 'r'
                    strict = (nm[-1] == 't') or (wrapped == ('succ' if side == 'l' else 'pred'))
                    if wrapped in ('succ', 'pred') and wrapped != ('succ' if side == 'l' else 'pred'):
                        chk.bad('C33-interval', 'ty::constructors::interval', 'wrong-shift:%s:%s' % (op, side),
                                'the %s bound of IntervalOp::%s is shifted with %s: it widens the interval instead of narrowing it' % (side, op, wrapped), CONS, c.get('l'))
                    static.setdefault(op, {}).setdefault(side, set()).add(strict)
    if not chk.need(set(static) == set(TOKENS), 'interval(): arms found for %s only' % sorted(static)):
        return
    # token -> IntervalOp
    INST = 'crates/erg_compiler/context/instantiate_spec.rs'
    tok2op = {}
    for fn_ in fx.fns(INST):
        for m in T.walk(fn_['body']):
            if m.get('k') != 'Match':
                continue
            got = {}
            for arm in m['arms']:
                t = _arm_token(arm)
                b = T.peel(arm['b'])
                if t and b.get('k') == 'Path' and 'IntervalOp::' in (b.get('d') or ''):
                    got[t] = b['d'].split('::')[-1]
            if len(got) == 4:
                tok2op = got
    if not chk.need(len(tok2op) == 4, 'the TokenKind -> IntervalOp table of instantiate_spec.rs was not found'):
        return
    # token -> run-time class, in both back ends
    def class_table(relfile, fnname):
        f2 = fx.fn(relfile, fnname)
        out = {}
        if not f2:
            return out
        for m in T.walk(f2['body']):
            if m.get('k') != 'Match':
                continue
            for arm in m['arms']:
                t = _arm_token(arm)
                if not t:
                    continue
                for x in T.walk(arm['b']):
                    v = (x.get('v') or {}).get('str') if x.get('k') == 'Lit' else None
                    if v and v.rstrip('(').endswith('Range'):
                        out.setdefault(t, set()).add(v.rstrip('('))
        return out
    tables = {'codegen': class_table('crates/erg_compiler/codegen.rs', 'PyCodeGenerator::emit_binop'),
              'transpile': class_table('crates/erg_compiler/transpile.rs', 'PyScriptGenerator::transpile_binop')}
    classes = OT.runtime_classes()

    def runtime_strict(cls):
        m = None
        for c in OT.mro(classes, cls):
            m = classes[c]['methods'].get('__contains__')
            if m and not (len(m.body) == 1 and isinstance(m.body[0], ast.Pass)):
                break
        if m is None:
            return None
        res = {}
        for cmp_ in ast.walk(m):
            if not isinstance(cmp_, ast.Compare):
                continue
            terms = [cmp_.left] + list(cmp_.comparators)
            for i, op in enumerate(cmp_.ops):
                a, b = ast.unparse(terms[i]), ast.unparse(terms[i + 1])
                if isinstance(op, (ast.Lt, ast.LtE)):
                    lo, hi = a, b
                elif isinstance(op, (ast.Gt, ast.GtE)):
                    lo, hi = b, a
                else:
                    continue
                strict = isinstance(op, (ast.Lt, ast.Gt))
                if lo == 'self.start':
                    res.setdefault('l', set()).add(strict)
                if hi == 'self.end':
                    res.setdefault('r', set()).add(strict)
        return res
    for be, tab in tables.items():
        if not chk.need(set(tab) == set(TOKENS) and all(len(v) == 1 for v in tab.values()), '%s: the interval-operator -> Range class table was not found (%s)' % (be, tab)):
            continue
        for t in TOKENS:
            cls = next(iter(tab[t]))
            rs = runtime_strict(cls)
            if not chk.need(rs is not None and set(rs) == {'l', 'r'} and all(len(v) == 1 for v in rs.values()), '%s.__contains__: bounds not recognised (%s)' % (cls, rs)):
                continue
            op = tok2op[t]
            for side in ('l', 'r'):
                ss = static[op].get(side, set())
                r_strict = next(iter(rs[side]))
                inst = '%s:%s:%s' % (be, t, side)
                if ss == {r_strict}:
                    chk.ok('C33-interval', inst, sample='%s -> IntervalOp::%s / %s: %s end %s on both sides' % (t, op, cls, 'left' if side == 'l' else 'right',
                                                                                                                   'excluded' if r_strict else 'included'))
                else:
                    chk.bad('C33-interval', 'ty::constructors::interval', 'end:%s:%s' % (t, side),
                            'operator %s: the type built for IntervalOp::%s %s its %s end, but %s.__contains__ (%s back end) %s it: an arm of this type is counted as covering a '
                            'value its run-time test rejects (or the reverse)' % (t, op, 'excludes' if True in ss and len(ss) == 1 else 'includes (on some arm)',
                                                                                   'left' if side == 'l' else 'right', cls, be, 'excludes' if r_strict else 'includes'), CONS, f['line'])


def run(chk):
    fx = F.Facts()
    chk.rule('C33-dom', 'in Context::get_match_call_t every `Ok(..)` exit is dominated by the call sub_unify(scrutinee type, union of the arm pattern types) having succeeded: '
                        'the Err edge of that call pushes match_error and returns Err')
    chk.rule('C33-union', 'the second argument of that sub_unify is the union accumulated over *all* arm patterns (self.union(&acc, &arm_t) inside the loop over the arms)')
    f = fx.fn(FILE, 'Context::get_match_call_t')
    calls = [c for c in T.calls(f['body']) if (T.cq(c) or '').endswith('Context::sub_unify')]
    if not chk.need(len(calls) >= 1, 'get_match_call_t: no sub_unify call'):
        return 'anchor lost', {}
    target = calls[0]
    union_local = T.show(T.peel(target['a'][1])) if len(target['a']) >= 2 else None

    def pred(n):
        return n is target
    # the check must be in an `if let Err(..) = sub_unify(..) { ...; return Err }` (or `?`): the state only becomes "passed" on the success edge
    guarded = False
    deferred = [False]
    for n, ctx in T.walk_ctx(f['body']):
        if n.get('k') == 'If' and any(x is target for x in T.walk(n['c'])):
            lc = [x for x in T.walk(n['c']) if x.get('k') == 'LetCond']
            if lc and any(v.endswith('::Err') for v in T.pat_variants(lc[0]['pat'])):
                rets = [r for r in T.walk(n['t']) if r.get('k') == 'Ret' and not is_ok(r.get('x') or {})]
                pushes = [c for c in T.calls(n['t']) if 'match_error' in (T.cq(c) or '')]
                if rets and pushes and not any(r.get('k') == 'Ret' and is_ok(r.get('x') or {}) for r in T.walk(n['t'])):
                    guarded = True
                elif pushes and not rets:
                    # the error is only recorded: acceptable iff every Ok exit is under `errs.is_empty()`
                    from sa.props.c05 import errs_empty_refine
                    d2 = VS.Dominates(lambda x: False, is_ok, errs_empty_refine)
                    if not d2.run(f) and d2.good_exits >= 1:
                        guarded = True
                        deferred[0] = True
        if n.get('k') == 'Match' and n.get('src') == 'Try' and any(x is target for x in T.walk(n['x'])):
            guarded = True
    if guarded:
        chk.ok('C33-dom', 'err-edge', sample='if let Err(err) = self.sub_unify(target, &union, ..) { errs.push(match_error(..)); return Err(..) }')
    else:
        chk.bad('C33-dom', 'Context::get_match_call_t', 'err-edge', 'the failure of sub_unify(scrutinee, union of patterns) no longer leads to match_error + `return Err`: '
                'a non-exhaustive match is accepted', FILE, target['l'])
    dom = VS.Dominates(pred, is_ok)
    bad = dom.run(f)
    if deferred[0]:
        bad = []      # the Ok exits are guarded by `errs.is_empty()` instead (checked above)
    chk.floor('Ok exits of get_match_call_t', dom.good_exits + len(bad), 1)
    if bad:
        for b in bad:
            chk.bad('C33-dom', 'Context::get_match_call_t', 'ok-before-check', 'an `Ok(..)` result is returned on a path that does not pass the exhaustiveness test sub_unify(scrutinee, union)',
                    FILE, b.get('l'))
    else:
        chk.ok('C33-dom', 'ok-exits', sample='%d Ok exit(s), all after the exhaustiveness test' % dom.good_exits)
    # union accumulation
    acc = False
    for n, ctx in T.walk_ctx(f['body']):
        if n.get('k') == 'Assign' and T.show(T.peel(n['x'])) == union_local:
            y = T.peel(n['y'])
            if y.get('k') == 'MCall' and y['n'] == 'union' and union_local in T.show(y) and any(c[0] == 'loop' for c in ctx):
                acc = True
    if acc:
        chk.ok('C33-union', union_local, sample='%s = self.union(&%s, &arm_t) for every arm' % (union_local, union_local))
    else:
        chk.bad('C33-union', 'Context::get_match_call_t', 'union', 'the type compared with the scrutinee (`%s`) is not accumulated with self.union over all arms' % union_local, FILE, target['l'])
    interval_rule(chk, fx)
    guard_rule(chk, fx)
    # the exhaustiveness test is `scrutinee type <: union of the arm types`: its union arms decide whether every member of a scrutinee union is covered
    chk.rule('C33-union', 'in Context::structural_supertype_of every arm whose sub side is a union answers for all its members, every arm whose super side is a union for some member '
                          '(shared with C06-union): with `any` on the sub side the literal arms for one member of `{"a", "b"} or Int` count as covering the whole scrutinee')
    from sa.props import c06
    f6 = fx.fn(c06.COMPARE, 'Context::structural_supertype_of')
    ms6 = [n for n in T.walk(f6['body']) if n.get('k') == 'Match' and n.get('src') == 'Normal']
    if chk.need(ms6, 'structural_supertype_of: no match'):
        c06.quantifier_structure(chk, max(ms6, key=lambda n: len(n['arms'])), 'C33-union')
    c06.widen_rule(chk, fx, 'C33-widen')
    absorb_rule(chk, fx)
    return ('Dominance rule over the structured HIR of Context::get_match_call_t, and a table-agreement rule (typed HIR + python ast) over the four interval operators. '
            'Soundness of sub_unify / union for other pattern types is not decided.'), {}
    return ('Dominance rule over the structured HIR of Context::get_match_call_t. Soundness of sub_unify / union and the run-time arm tests are not decided.'), {}


def absorb_rule(chk, fx):
    """the type compared with the scrutinee is built with Context::union: it must not grow beyond the set union of the arm types"""
    from sa.props import c06
    chk.rule('C33-absorb', 'Context::union merges a refinement (a literal / enum / interval type) into the other operand only when that operand contains the whole base type of the '
                           'refinement: the arm `(Refinement(r), other)` that answers `union(other, r.t)` is guarded by an equality of the two classes or by `other :> r.t` — under '
                           '`other <: r.t` the result is the base type itself (`{-1} or Nat` becomes Int), and a match with the arms `-1` and `(n: Nat)` over Int counts as exhaustive')
    f = fx.fn(c06.COMPARE, 'Context::union')
    ms = [n for n in T.walk(f['body']) if n.get('k') == 'Match' and n.get('src') == 'Normal']
    if not chk.need(ms, 'Context::union: no match'):
        return
    m = max(ms, key=lambda n: len(n['arms']))
    n = 0
    for arm in m['arms']:
        alts = arm['pat']['p'] if arm['pat'].get('k') == 'POr' else [arm['pat']]
        binds = None
        for alt in alts:
            if alt.get('k') == 'PTuple' and len(alt.get('p', [])) == 2:
                kinds = [(''.join(T.last_seg(v) for v in T.pat_variants(q)) or 'bind') for q in alt['p']]
                if 'Refinement' in kinds[0] + kinds[1] and any(q.get('k') == 'Bind' for q in alt['p']):
                    rname = [b for q in alt['p'] if q.get('k') != 'Bind' for b in T.pat_bindings(q)]
                    oname = [q['n'] for q in alt['p'] if q.get('k') == 'Bind']
                    if rname and oname:
                        binds = (rname[0], oname[0])
        if not binds:
            continue
        body = T.show(arm['b']).replace(' ', '')
        rn, on = binds
        # does the arm answer with the union of `other` and the base type of the refinement?
        if ('union(%s,&%s.t)' % (on, rn)) not in body and ('union(&%s.t,%s)' % (rn, on)) not in body:
            continue
        n += 1
        g = arm.get('g')
        gs = T.show(g).replace(' ', '') if g is not None else ''
        same_class = ('%s.qual_name()==%s.t.qual_name()' % (on, rn)) in gs or ('%s.t.qual_name()==%s.qual_name()' % (rn, on)) in gs
        contains = ('supertype_of(%s,&%s.t)' % (on, rn)) in gs or ('subtype_of(&%s.t,%s)' % (rn, on)) in gs
        inverse = ('subtype_of(%s,&%s.t)' % (on, rn)) in gs or ('supertype_of(&%s.t,%s)' % (rn, on)) in gs
        if (same_class or contains) and not inverse:
            chk.ok('C33-absorb', 'refinement-absorbed', sample='guard: %s' % T.show(g)[:70])
        else:
            chk.bad('C33-absorb', 'Context::union', 'absorbed-into-subclass' if inverse else 'unguarded-absorb', 'Context::union answers `union(%s, %s.t)` for a refinement and another type %s: the '
                    'refinement is replaced by its whole base class although the other type does not contain it — `{-1} or Nat` becomes Int, so `match x: -1 -> ..; (n: Nat) -> ..` '
                    'over Int is accepted and -2 runs the last arm' % (on, rn, 'under the guard `%s`' % T.show(g)[:60] if g is not None else 'without a guard'), c06.COMPARE, arm.get('l'))
    chk.floor('refinement-absorbing arms of Context::union', n, 1)
