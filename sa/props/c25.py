"""C25  REPL framing: Rust client and Python server agree, use exact-length I/O, and never write a length that differs from the payload  (K1 Rust<->Python + pyast)"""
import ast, os
from sa import facts as F, tree as T
from sa.facts import REPO

RS = 'src/dummy.rs'
PY = 'src/scripts/repl_server.py'
WIDTH = {'u8': 1, 'u16': 2, 'u32': 4, 'u64': 8, 'i8': 1, 'i16': 2, 'i32': 4, 'i64': 8}


def run(chk):
    fx = F.Facts()
    chk.rule('C25-R1', 'dummy::Inst discriminants == INST constants of repl_server.py; From<u8> table inverse of the discriminants; both sides frame a message as '
                       '1 byte instruction + 2 bytes big-endian size + payload')
    chk.rule('C25-R2', 'exact-length I/O: MessageStream (Rust) uses only read_exact / write_all on the stream; in repl_server.py every socket.recv(n) is in a loop that '
                       'accumulates to n (or uses MSG_WAITALL) and every send is sendall')
    chk.rule('C25-R3', 'the size field always equals the number of payload bytes written: a clamped size must be accompanied by truncating / rejecting the payload (Rust); '
                       'len.to_bytes(2, ..) must be guarded against > 65535 (Python)')
    src = open(os.path.join(REPO, PY), encoding='utf-8').read()
    tree = ast.parse(src)
    # ---------------- R1 tables
    adt = fx.adt('erg', 'dummy::Inst')
    rs = {v['n'].upper(): v['discr'] for v in adt['variants']}
    py = {}
    for cls in [n for n in tree.body if isinstance(n, ast.ClassDef) and n.name == 'INST']:
        for st in cls.body:
            if isinstance(st, ast.Assign) and isinstance(st.value, ast.Constant) and isinstance(st.value.value, int):
                py[st.targets[0].id] = st.value.value
    chk.floor('Inst variants', len(rs), 6)
    chk.floor('INST constants', len(py), 6)
    for name in sorted(set(rs) | set(py)):
        if rs.get(name) == py.get(name):
            chk.ok('C25-R1', name, sample='Inst::%s = INST.%s = %s' % (name.title(), name, rs[name]))
        else:
            chk.bad('C25-R1', 'dummy::Inst', name, 'instruction %s is %s in dummy.rs and %s in repl_server.py' % (name, rs.get(name), py.get(name)), RS, adt['line'])
    frm = fx.fns_matching(RS, lambda f: f['path'].endswith('::from') and 'Inst' in (f.get('self_ty') or ''))
    if chk.need(len(frm) == 1, 'From<u8> for Inst not found'):
        ms = [n for n in T.walk(frm[0]['body']) if n.get('k') == 'Match']
        rows = 0
        for arm in ms[0]['arms'] if ms else []:
            b = T.peel(arm['b'])
            if arm['pat'].get('k') == 'PLit' and b.get('k') == 'Path':
                rows += 1
                nm = T.last_seg(b['d']).upper()
                if rs.get(nm) == arm['pat']['v'].get('int'):
                    chk.ok('C25-R1', ('from', nm))
                else:
                    chk.bad('C25-R1', 'Inst::from', nm, 'byte %s decodes to Inst::%s whose discriminant is %s' % (arm['pat']['v'].get('int'), nm, rs.get(nm)), RS, arm['l'])
        chk.floor('From<u8> rows', rows, 6)
    # frame layout, Rust
    msg = fx.adt('erg', 'dummy::Message')
    size_t = {f['n']: f['t'] for f in msg['variants'][0]['f']}.get('size')
    chk.need(size_t in WIDTH, 'Message.size has unexpected type %s' % size_t)
    send = fx.fn(RS, 'MessageStream::send_msg')
    types = fx.file(RS)['types']
    layout = []
    for c in T.calls(send['body']):
        if c.get('k') == 'MCall' and c['n'] in ('to_be_bytes', 'to_le_bytes', 'to_ne_bytes'):
            layout.append((WIDTH.get((types[c['rt']] or '').lstrip('&'), '?'), c['n'][3:5]))
    if layout == [(1, 'be'), (2, 'be')]:
        chk.ok('C25-R1', 'rust-send-layout', sample='send_msg: u8.to_be_bytes ++ u16.to_be_bytes ++ data')
    else:
        chk.bad('C25-R1', 'MessageStream::send_msg', 'layout', 'header written as %s, expected [(1,be),(2,be)]' % layout, RS, send['line'])
    recv = fx.fn(RS, 'MessageStream::recv_msg')
    rl = []
    for c in T.calls(recv['body']):
        q = T.callee(c) or ''
        if q.endswith('from_be_bytes') or q.endswith('from_le_bytes'):
            rl.append((WIDTH.get(T.norm(q).split('::')[0], '?'), q[-8:-6]))
    if rl == [(1, 'be'), (2, 'be')]:
        chk.ok('C25-R1', 'rust-recv-layout', sample='recv_msg: u8::from_be_bytes, u16::from_be_bytes')
    else:
        chk.bad('C25-R1', 'MessageStream::recv_msg', 'layout', 'header read as %s, expected [(1,be),(2,be)]' % rl, RS, recv['line'])
    # frame layout, Python
    ms_cls = [n for n in tree.body if isinstance(n, ast.ClassDef) and n.name == 'MessageStream']
    if not chk.need(len(ms_cls) == 1, 'class MessageStream not found in repl_server.py'):
        return 'anchor lost', {}
    meth = {n.name: n for n in ms_cls[0].body if isinstance(n, ast.FunctionDef)}
    chk.need('send_msg' in meth and 'recv_msg' in meth, 'MessageStream.send_msg / recv_msg not found')
    tb = []
    for n in ast.walk(meth['send_msg']):
        if isinstance(n, ast.Call) and isinstance(n.func, ast.Attribute) and n.func.attr == 'to_bytes' and len(n.args) >= 2:
            if isinstance(n.args[0], ast.Constant) and isinstance(n.args[1], ast.Constant):
                tb.append((n.args[0].value, n.args[1].value, n.lineno))
    def struct_layout(fn, which):
        """[(width, 'big'|'little', signed)] of a struct.pack / struct.unpack call in fn, else None"""
        for c in ast.walk(fn):
            if isinstance(c, ast.Call) and isinstance(c.func, ast.Attribute) and c.func.attr == which and ast.unparse(c.func.value) == 'struct' and c.args \
                    and isinstance(c.args[0], ast.Constant) and isinstance(c.args[0].value, str):
                fmt = c.args[0].value
                order = 'big' if fmt[:1] in ('>', '!') else ('little' if fmt[:1] == '<' else 'native')
                codes = fmt[1:] if fmt[:1] in '<>!=@' else fmt
                widths = {'B': (1, False), 'b': (1, True), 'H': (2, False), 'h': (2, True), 'I': (4, False), 'i': (4, True), 'L': (4, False), 'l': (4, True), 'Q': (8, False), 'q': (8, True)}
                if all(ch in widths for ch in codes):
                    return [(widths[ch][0], order, widths[ch][1]) for ch in codes], c
        return None
    WANT = [(1, 'big', False), (2, 'big', False)]
    sp = struct_layout(meth['send_msg'], 'pack')
    su = struct_layout(meth['recv_msg'], 'unpack')
    if sp is not None:
        if sp[0] == WANT:
            chk.ok('C25-R1', 'py-send-layout', sample='send_msg: struct.pack(%r, ..)' % sp[1].args[0].value)
        else:
            chk.bad('C25-R1', 'repl_server.MessageStream.send_msg', 'layout', 'the header is packed as %s (width, byte order, signed); the Rust side reads u8 + big-endian u16' % sp[0],
                    PY, sp[1].lineno)
    elif [(a, b) for a, b, _ in tb] == [(1, 'big'), (2, 'big')]:
        chk.ok('C25-R1', 'py-send-layout', sample="send_msg: inst.to_bytes(1,'big') + len.to_bytes(2,'big') + data")
    else:
        chk.bad('C25-R1', 'repl_server.MessageStream.send_msg', 'layout', 'header written as %s' % [(a, b) for a, b, _ in tb], PY, meth['send_msg'].lineno)
    fb = []
    for n in ast.walk(meth['recv_msg']):
        if isinstance(n, ast.Call) and isinstance(n.func, ast.Attribute) and n.func.attr == 'from_bytes' and len(n.args) >= 2:
            sl = n.args[0]
            if isinstance(sl, ast.Subscript) and isinstance(sl.slice, ast.Slice) and isinstance(n.args[1], ast.Constant):
                lo = sl.slice.lower.value if isinstance(sl.slice.lower, ast.Constant) else 0
                hi = sl.slice.upper.value if isinstance(sl.slice.upper, ast.Constant) else None
                fb.append((lo, hi, n.args[1].value))
    if su is not None:
        if su[0] == WANT:
            chk.ok('C25-R1', 'py-recv-layout', sample='recv_msg: struct.unpack(%r, ..)' % su[1].args[0].value)
        else:
            chk.bad('C25-R1', 'repl_server.MessageStream.recv_msg', 'layout', 'the header is unpacked as %s (width, byte order, signed); the Rust side writes u8 + big-endian u16: '
                    '%s' % (su[0], 'a size of 32768 or more reads as negative and the payload is taken for new frames' if any(sg for _, _, sg in su[0]) else 'the fields do not line up'),
                    PY, su[1].lineno)
    elif fb == [(0, 1, 'big'), (1, 3, 'big')]:
        chk.ok('C25-R1', 'py-recv-layout', sample="recv_msg: int.from_bytes(buf[:1],'big'), int.from_bytes(buf[1:3],'big')")
    else:
        chk.bad('C25-R1', 'repl_server.MessageStream.recv_msg', 'layout', 'header read as %s' % fb, PY, meth['recv_msg'].lineno)
    # ---------------- R2 exact I/O
    io_calls = 0
    for f in fx.fns(RS):
        if 'MessageStream' not in (f.get('self_ty') or ''):
            continue
        for c in T.calls(f['body']):
            if c.get('k') == 'MCall' and T.field_chain(c['r']) == ['self', 'stream'] or (c.get('k') == 'MCall' and T.show(c['r']) == 'self.stream'):
                io_calls += 1
                if c['n'] in ('read_exact', 'write_all', 'flush', 'shutdown'):
                    chk.ok('C25-R2', (T.norm(f['path']), c['n']), sample='%s: self.stream.%s' % (T.norm(f['path']), c['n']))
                else:
                    chk.bad('C25-R2', T.norm(f['path']), 'stream.' + c['n'], 'MessageStream uses `%s` on the stream: a short read/write desynchronises the framing' % c['n'], RS, c['l'])
    chk.floor('rust stream I/O calls', io_calls, 4)
    parents = {}
    for n in ast.walk(ms_cls[0]):
        for ch in ast.iter_child_nodes(n):
            parents[ch] = n
    pyio = 0
    for n in ast.walk(ms_cls[0]):
        if isinstance(n, ast.Call) and isinstance(n.func, ast.Attribute) and n.func.attr in ('recv', 'send', 'sendall', 'recv_into', 'read', 'write'):
            base = ast.unparse(n.func.value)
            if 'socket' not in base and 'sock' not in base and 'file' not in base:
                continue
            pyio += 1
            fn_ = n
            while fn_ is not None and not isinstance(fn_, ast.FunctionDef):
                fn_ = parents.get(fn_)
            where = 'repl_server.MessageStream.%s' % (fn_.name if fn_ else '?')
            if n.func.attr == 'sendall':
                chk.ok('C25-R2', (where, 'sendall'), sample=where + ': sendall')
            elif n.func.attr == 'send':
                chk.bad('C25-R2', where, 'send', '`socket.send` may write only part of the frame; sendall is required', PY, n.lineno)
            elif n.func.attr in ('recv', 'recv_into'):
                in_loop = False
                p = parents.get(n)
                while p is not None and not isinstance(p, ast.FunctionDef):
                    if isinstance(p, (ast.While, ast.For)):
                        in_loop = True
                    p = parents.get(p)
                waitall = any('MSG_WAITALL' in ast.unparse(a) for a in n.args[1:])
                if in_loop or waitall:
                    chk.ok('C25-R2', (where, 'recv'), sample=where + ': recv in an accumulating loop')
                else:
                    chk.bad('C25-R2', where, 'recv(%s)' % ast.unparse(n.args[0]) if n.args else 'recv', '`socket.recv(%s)` outside an accumulating loop may return fewer bytes than the frame part it reads'
                            % (ast.unparse(n.args[0]) if n.args else ''), PY, n.lineno)
    chk.floor('python socket I/O calls', pyio, 2)
    # ---------------- R3 size == payload
    new = fx.fn(RS, 'Message::new')
    clamps = []
    for n, ctx in T.walk_ctx(new['body']):
        if n.get('k') == 'Path' and n.get('d', '').endswith('::MAX') and 'u16' in n.get('d', ''):
            if any(c[0] == 'if' and c[2] is True for c in ctx):
                clamps.append((n, ctx))
    trunc = [c for c in T.calls(new['body']) if c.get('k') == 'MCall' and c['n'] in ('truncate', 'drain', 'split_off', 'resize')]
    errs = [n for n in T.walk(new['body']) if n.get('k') == 'Ret' or (n.get('k') == 'Call' and (n.get('fn') or '').endswith('::Err'))]
    if clamps and not trunc and not errs:
        chk.bad('C25-R3', 'Message::new', 'clamp', 'Message::new clamps `size` to u16::MAX but keeps the whole payload: send_msg then writes more payload bytes than the header announces', RS, clamps[0][0]['l'])
    else:
        chk.ok('C25-R3', 'Message::new', sample='Message::new: size == data.len() on every path')
    # the length encoded must be the length of the very bytes object that is written as payload
    assigns = {}
    for n in ast.walk(meth['send_msg']):
        if isinstance(n, ast.Assign) and len(n.targets) == 1 and isinstance(n.targets[0], ast.Name):
            assigns[n.targets[0].id] = n.value

    def resolve(e, depth=0):
        while isinstance(e, ast.Name) and e.id in assigns and depth < 5:
            e = assigns[e.id]
            depth += 1
        return e
    for n in ast.walk(meth['send_msg']):
        if isinstance(n, ast.Call) and isinstance(n.func, ast.Attribute) and n.func.attr == 'to_bytes' and n.args and isinstance(n.args[0], ast.Constant) and n.args[0].value == 2:
            length_expr = resolve(n.func.value)
            # payload = the last operand of the `+` chain passed to send/sendall (or assigned and then sent)
            payload = None
            for c in ast.walk(meth['send_msg']):
                if isinstance(c, ast.Call) and isinstance(c.func, ast.Attribute) and c.func.attr in ('send', 'sendall') and c.args:
                    e = resolve(c.args[0])
                    if isinstance(e, ast.BinOp) and isinstance(e.op, ast.Add):
                        payload = e.right
            if payload is None:
                chk.lost.append('repl_server.send_msg: cannot find the payload operand of the frame')
                break
            ok = isinstance(length_expr, ast.Call) and isinstance(length_expr.func, ast.Name) and length_expr.func.id == 'len' and length_expr.args and \
                ast.dump(resolve(length_expr.args[0])) == ast.dump(resolve(payload))
            if ok:
                chk.ok('C25-R3', 'py-size-is-len-of-payload', sample='send_msg: size = len(%s), payload = %s' % (ast.unparse(length_expr.args[0]), ast.unparse(payload)))
            else:
                chk.bad('C25-R3', 'repl_server.MessageStream.send_msg', 'size!=len(payload)', 'send_msg writes the size field from `%s` but the payload written is `%s`: '
                        'for non-ASCII text the announced length differs from the bytes sent' % (ast.unparse(length_expr), ast.unparse(resolve(payload))), PY, n.lineno)
    guarded = False
    for n in ast.walk(meth['send_msg']):
        if isinstance(n, (ast.If, ast.Assert, ast.While)) and ('65535' in ast.unparse(n.test) or '0xffff' in ast.unparse(n.test).lower() or '1 << 16' in ast.unparse(n.test)):
            guarded = True
    if sp is not None and len(sp[1].args) >= 3:
        length_expr = resolve(sp[1].args[2])
        payload = None
        for c in ast.walk(meth['send_msg']):
            if isinstance(c, ast.Call) and isinstance(c.func, ast.Attribute) and c.func.attr in ('send', 'sendall') and c.args:
                e = resolve(c.args[0])
                if isinstance(e, ast.BinOp) and isinstance(e.op, ast.Add):
                    payload = e.right
        okp = payload is not None and isinstance(length_expr, ast.Call) and isinstance(length_expr.func, ast.Name) and length_expr.func.id == 'len' and length_expr.args and \
            ast.dump(resolve(length_expr.args[0])) == ast.dump(resolve(payload))
        if okp:
            chk.ok('C25-R3', 'py-size-is-len-of-payload', sample='send_msg: size = len(%s)' % ast.unparse(length_expr.args[0]))
        else:
            chk.bad('C25-R3', 'repl_server.MessageStream.send_msg', 'size!=len(payload)', 'send_msg packs the size field from `%s` but the payload written is `%s`'
                    % (ast.unparse(length_expr), ast.unparse(resolve(payload)) if payload is not None else '?'), PY, sp[1].lineno)
        tb = tb + [(w, o, sp[1].lineno) for (w, o, sg) in sp[0]]
    width2 = [t for t in tb if t[0] == 2]
    if width2 and not guarded:
        chk.bad('C25-R3', 'repl_server.MessageStream.send_msg', 'to_bytes(2)', 'send_msg encodes len(data) with to_bytes(2, ..) without bounding it: an output over 65535 bytes raises OverflowError '
                'inside the server loop and no reply frame is sent', PY, width2[0][2])
    else:
        chk.ok('C25-R3', 'py-send-size')
    recv_loop_rule(chk, tree)
    return ('Protocol table and I/O discipline comparison between src/dummy.rs (typed HIR, ADT discriminants) and src/scripts/repl_server.py (python ast). '
            'Decides framing agreement, exact-length I/O and size==payload; the correspondence of results to inputs in DummyVM::eval is not decided.'), {}


class _Abort(Exception):
    pass


def _simulate_recv(fdef, n, pieces):
    """abstractly run `_recv_exact(self, n)` (python ast) on a socket that hands out `pieces` (lengths): byte strings are modelled by their lengths.
    returns (length returned, bytes taken from the socket) or raises _Abort(reason)"""
    stream = list(pieces)
    taken = [0]

    def recv(k):
        if k is None or k <= 0 or not stream:
            return 0
        got = min(k, stream[0])
        stream[0] -= got
        if stream[0] == 0:
            stream.pop(0)
        taken[0] += got
        return got
    params = [a.arg for a in fdef.args.args]
    env = {params[-1]: n}
    steps = [0]

    def ev(e):
        if isinstance(e, ast.Constant):
            if isinstance(e.value, (int, bool)):
                return int(e.value)
            if isinstance(e.value, (bytes, str)):
                return len(e.value)
            raise _Abort('constant')
        if isinstance(e, ast.Name):
            if e.id in env:
                return env[e.id]
            raise _Abort('name ' + e.id)
        if isinstance(e, ast.BinOp) and isinstance(e.op, (ast.Add, ast.Sub)):
            a, b = ev(e.left), ev(e.right)
            return a + b if isinstance(e.op, ast.Add) else a - b
        if isinstance(e, ast.UnaryOp) and isinstance(e.op, ast.Not):
            return 0 if ev(e.operand) else 1
        if isinstance(e, ast.Compare) and len(e.ops) == 1:
            a, b = ev(e.left), ev(e.comparators[0])
            return int({ast.Lt: a < b, ast.LtE: a <= b, ast.Gt: a > b, ast.GtE: a >= b, ast.Eq: a == b, ast.NotEq: a != b}[type(e.ops[0])])
        if isinstance(e, ast.Call):
            f = e.func
            if isinstance(f, ast.Name) and f.id == 'len' and len(e.args) == 1:
                return ev(e.args[0])
            if isinstance(f, ast.Name) and f.id in ('bytearray', 'bytes') and not e.args:
                return 0
            if isinstance(f, ast.Name) and f.id in ('bytearray', 'bytes', 'min', 'max') and e.args:
                vals = [ev(a) for a in e.args]
                return min(vals) if f.id == 'min' else max(vals) if f.id == 'max' else vals[0]
            if isinstance(f, ast.Attribute) and f.attr == 'recv':
                return recv(ev(e.args[0]) if e.args else None)
            if isinstance(f, ast.Attribute) and f.attr in ('extend', 'append') and isinstance(f.value, ast.Name) and len(e.args) == 1:
                env[f.value.id] = env[f.value.id] + ev(e.args[0])
                return 0
        raise _Abort('expression ' + ast.unparse(e)[:30])

    class _Ret(Exception):
        def __init__(self, v):
            self.v = v

    def run(stmts):
        for st in stmts:
            steps[0] += 1
            if steps[0] > 400:
                raise _Abort('does not terminate')
            if isinstance(st, ast.Assign) and len(st.targets) == 1 and isinstance(st.targets[0], ast.Name):
                env[st.targets[0].id] = ev(st.value)
            elif isinstance(st, ast.AugAssign) and isinstance(st.target, ast.Name) and isinstance(st.op, (ast.Add, ast.Sub)):
                v = ev(st.value)
                env[st.target.id] = env[st.target.id] + v if isinstance(st.op, ast.Add) else env[st.target.id] - v
            elif isinstance(st, ast.Expr):
                if not (isinstance(st.value, ast.Constant)):
                    ev(st.value)
            elif isinstance(st, ast.While):
                while ev(st.test):
                    steps[0] += 1
                    if steps[0] > 400:
                        raise _Abort('does not terminate')
                    run(st.body)
            elif isinstance(st, ast.If):
                run(st.body if ev(st.test) else st.orelse)
            elif isinstance(st, ast.Raise):
                raise _Abort('raises')
            elif isinstance(st, ast.Return):
                raise _Ret(ev(st.value) if st.value is not None else 0)
            else:
                raise _Abort('statement ' + type(st).__name__)
    try:
        run(fdef.body)
    except _Ret as r:
        return r.v, taken[0]
    raise _Abort('no return')


def recv_loop_rule(chk, tree):
    import itertools
    chk.rule('C25-R4', 'the partial-read loop of the Python server returns exactly the n bytes it was asked for and takes no more than n from the socket, however the stream is cut into '
                       'segments: MessageStream._recv_exact is interpreted (python ast, byte strings modelled by their lengths) for n = 1..5 over every segmentation of n + 2 bytes — '
                       'a loop that subtracts the accumulated length instead of the last chunk stops early as soon as a read arrives in three pieces, and the rest is parsed as the '
                       'next header')
    fdefs = [f for c in tree.body if isinstance(c, ast.ClassDef) for f in c.body if isinstance(f, ast.FunctionDef) and any(
        isinstance(x, ast.Call) and isinstance(x.func, ast.Attribute) and x.func.attr == 'recv' for x in ast.walk(f)) and any(isinstance(x, ast.While) for x in ast.walk(f))]
    if not chk.need(len(fdefs) >= 1, 'repl_server.py: no method with a recv loop'):
        return
    nsim = 0
    for fdef in fdefs:
        bad = None
        try:
            for n in range(1, 6):
                total = n + 2
                for cuts in itertools.product((0, 1), repeat=total - 1):
                    pieces, cur = [], 1
                    for c in cuts:
                        if c:
                            pieces.append(cur)
                            cur = 1
                        else:
                            cur += 1
                    pieces.append(cur)
                    try:
                        got, taken = _simulate_recv(fdef, n, pieces)
                    except _Abort as a:
                        if str(a) in ('raises', 'does not terminate'):
                            got, taken = str(a), None
                        else:
                            raise
                    nsim += 1
                    if (got, taken) != (n, n) and bad is None:
                        bad = (n, pieces, got, taken)
        except _Abort as a:
            chk.need(False, 'repl_server.%s: cannot interpret the receive loop (%s)' % (fdef.name, a))
            continue
        if bad:
            chk.bad('C25-R4', 'repl_server.MessageStream.' + fdef.name, 'inexact-read', '%s(%d) on a stream delivered as segments %s returns %s byte(s) and takes %s from the socket: a message '
                    'that arrives in several segments is truncated and the remainder is decoded as the next message' % (fdef.name, bad[0], bad[1], bad[2], bad[3]), PY, fdef.lineno)
        else:
            chk.ok('C25-R4', fdef.name, sample='%s: exact for every segmentation' % fdef.name)
    chk.count('receive-loop simulations', nsim)
