"""C02  no value-constraint error from Erg's runtime classes in a well-typed program  (pyast + declared-output sign rule)"""
import ast
from sa import facts as F, tree as T
from sa.kinds import optable as OT
from sa.props import c26


def run(chk):
    fx = F.Facts()
    chk.rule('C02-kind', 'a declared operator Output can hold the kind of number Python computes: integral classes only for integral results, no real class where a complex result is '
                         'possible (negative base, non-integral Float exponent) — shared with C26-kind')
    chk.rule('C02-sign', 'a declared operator Output is Nat only where Python\'s result is non-negative for all operands of the declared classes '
                         '(the generated code wraps results in the constructor of the static type, and Nat\'s constructor raises ValueError)')
    chk.rule('C02-wrap', 'in a runtime class whose constructor raises on a value constraint (Nat, NatMut, Bool ...), every binary dunder that wraps its result in that class '
                         'does so under a guard on the other operand or on the result: the checker types `Nat + Int` through Int.__add__ (Nat <: Int) but Python dispatches to Nat.__add__')
    n = c26.sign_rules(chk, fx, 'C02-sign', 'C02-kind')
    chk.floor('declared numeric operator rows', n, 20)
    method_rules(chk, fx, 'C02-method')
    sentinel_rule(chk, fx, 'C02-sentinel')
    nd = wrap_rules(chk, 'C02-wrap')
    chk.floor('narrowing dunders', nd, 2)
    # ---- the premise of the wrapper rules: results do go through the constructor of their static class
    chk.rule('C02-wrapall', 'the value of every literal, variable access, call, binary and unary operation is passed through the constructor of its static class before it is used '
                            '(hir::Expr::should_wrap answers `true` for these five kinds, unconditionally): the runtime operators return the class of their *implementation* '
                            '(Nat // Nat is computed by Int.__floordiv__), so an unwrapped result lacks the methods its static type promises')
    HIRF = 'crates/erg_compiler/hir.rs'
    sw = [f_ for f_ in fx.fns(HIRF) if T.norm(f_['path']) == 'Expr::should_wrap']
    if chk.need(len(sw) == 1, 'hir::Expr::should_wrap not found'):
        mm = [n for n in T.walk(sw[0]['body']) if n.get('k') == 'Match']
        if chk.need(len(mm) >= 1, 'should_wrap: no match'):
            seen = {}
            for arm in mm[0]['arms']:
                for v in T.pat_variants(arm['pat']):
                    seen.setdefault(v.split('::')[-1], arm)
            for v in ('Literal', 'Accessor', 'Call', 'BinOp', 'UnaryOp'):
                arm = seen.get(v)
                if arm is None:
                    chk.bad('C02-wrapall', 'Expr::should_wrap', 'missing:' + v, 'should_wrap has no arm for Expr::%s: such values are used without the wrapper of their static class' % v,
                            HIRF, sw[0]['line'])
                    continue
                b = T.peel(arm['b'])
                if b.get('k') == 'Lit' and (b.get('v') or {}).get('bool') is True and not arm.get('g'):
                    chk.ok('C02-wrapall', v, sample='should_wrap: Expr::%s => true' % v)
                else:
                    chk.bad('C02-wrapall', 'Expr::should_wrap', 'conditional:' + v, 'should_wrap answers `%s` for Expr::%s instead of `true`: where it is false the run-time class of the value '
                            'is whatever the runtime operator returned (e.g. Int for Nat // Nat, a plain float for Int * Float), and a method of the static class raises '
                            'AttributeError' % (T.show(arm['b'])[:60], v), HIRF, arm['l'])
    return ('Sign-interval abstraction of Python arithmetic applied to the declared operator table, and a guard rule over the binary dunders of the value-constrained runtime classes '
            '(python ast). Decides the "value-constraint error raised by Erg\'s runtime classes" clause only; TypeError/AttributeError/NameError freedom is soundness of the whole checker.'), {}


def wrap_rules(chk, RULE):
    classes = OT.runtime_classes()
    cons = OT.constrained_classes(classes)
    chk.floor('value-constrained runtime classes', len(cons), 2)
    chk.notes.append({'value-constrained classes': cons})
    nd = 0
    for cname in sorted(cons):
        c = classes[cname]
        for mname, fdef in sorted(c['methods'].items()):
            if not (mname.startswith('__') and mname.endswith('__')) or len(fdef.args.args) != 2:
                continue
            if mname in ('__init__', '__new__', '__eq__', '__ne__', '__lt__', '__le__', '__gt__', '__ge__', '__contains__', '__getitem__'):
                continue
            narrowing = [w for w in wrapped_anywhere(fdef) if w == cname or (w in classes and cname in OT.mro(classes, w) and w in cons)]
            if not narrowing:
                continue
            op = {v: k for k, v in OT.DUNDER.items()}.get(mname.replace('__r', '__') if mname.startswith('__r') and mname not in ('__repr__',) else mname)
            if op is None:
                continue
            # can Python's result be negative when this class meets an Int / Float operand?
            base = 'Nat'
            if not any(OT.result(op, base, o)[1] if not mname.startswith('__r') else OT.result(op, o, base)[1] for o in ('Int', 'Float')):
                chk.ok(RULE, ('%s.%s' % (cname, mname), 'sign-closed'))
                continue
            nd += 1
            inst = '%s.%s' % (cname, mname)
            if guard_covers(fdef, cname):
                chk.ok(RULE, inst, sample='%s narrows to %s under a guard' % (inst, narrowing[0]))
            else:
                chk.bad(RULE, inst, 'unguarded->%s' % narrowing[0], '%s wraps its result in %s (constructor constraint `%s`) without testing the other operand or the result: '
                        'a well-typed `%s op Int` with a negative right operand raises ValueError' % (inst, narrowing[0], cons[cname], cname), c['file'], fdef.lineno)
    return nd


def wrapped_anywhere(fdef):
    """classes whose constructor is applied to a value inside fdef (return f(x), then__(x, C), C(x) if .. else D(x))"""
    out = set()
    for n in ast.walk(fdef):
        if isinstance(n, ast.Call) and isinstance(n.func, ast.Name):
            if n.func.id == 'then__' and len(n.args) == 2 and isinstance(n.args[1], ast.Name):
                out.add(n.args[1].id)
            elif n.func.id[:1].isupper():
                out.add(n.func.id)
    return out


def guard_covers(fdef, cname):
    """every return that wraps in cname is inside an `if` (the unguarded fall-through must not wrap)"""
    parents = {}
    for n in ast.walk(fdef):
        for ch in ast.iter_child_nodes(n):
            parents[ch] = n
    early = False
    for st in fdef.body:
        if isinstance(st, ast.If) and any(isinstance(x, ast.Return) for x in st.body):
            t = ast.unparse(st.test)
            if ('< 0' in t or '>= 0' in t or 'isinstance' in t) and 'MutType' not in t.replace('isinstance(res', ''):
                if '< 0' in t or '>= 0' in t:
                    early = True
    for n in ast.walk(fdef):
        if isinstance(n, ast.Return) and isinstance(n.value, ast.IfExp):
            t = ast.unparse(n.value.test)
            if '>= 0' in t or '< 0' in t or '> 0' in t:
                continue
        if isinstance(n, ast.Return) and n.value is not None and isinstance(n.value, ast.Call) and isinstance(n.value.func, ast.Name):
            if early:
                continue
            v = n.value
            wraps = (v.func.id == 'then__' and len(v.args) == 2 and isinstance(v.args[1], ast.Name) and v.args[1].id == cname) or v.func.id == cname
            if not wraps:
                continue
            p = parents.get(n)
            inside_if = False
            while p is not None and p is not fdef:
                if isinstance(p, ast.If):
                    t = ast.unparse(p.test)
                    if ('<' in t or '>' in t or 'isinstance' in t) and 'MutType' not in t:
                        inside_if = True
                p = parents.get(p)
            if not inside_if:
                return False
    return True


SENTINEL = {'find': -1, 'rfind': -1}      # Python: str/bytes.find and .rfind answer -1 when the substring does not occur (index / rindex raise instead)


def sentinel_rule(chk, fx, RULE):
    chk.rule(RULE, 'a builtin method that Python defines with a negative sentinel result (str / bytes `.find`, `.rfind`: -1 for "not found") is not declared to return Nat: the '
                   'generated code wraps the result in the constructor of its static class, and Nat(-1) raises ValueError; the declared type names the sentinel (`Nat or {-1}`) or is Int')
    rows = OT.declared_methods(fx, all_classes=True)
    n = 0
    for (cls, name, pyname, ret, line) in rows:
        if pyname not in SENTINEL or cls not in ('Str', 'Bytes', 'ByteArray!', 'Str!'):
            continue
        n += 1
        inst = '%s.%s' % (cls, name)
        r = ret.replace(' ', '')
        has_sentinel = 'v_enum' in r or r in ('Int', 'Type::Int') or 'Type::Int' in r
        if has_sentinel:
            chk.ok(RULE, inst, sample='%s -> %s' % (inst, ret[:60]))
        else:
            chk.bad(RULE, 'Context::init_builtin_classes', inst + '->Nat', '%s is declared to return `%s`, but Python\'s %s.%s returns %d when nothing is found: `"abc".%s "z"` type-checks as Nat and '
                    'raises ValueError: Nat can\'t be negative: -1' % (inst, ret[:50], cls.lower().rstrip('!'), pyname, SENTINEL[pyname], pyname), OT.CLASSES, line)
    chk.floor('declared methods with a negative sentinel', n, 4)


def method_rules(chk, fx, RULE):
    """declared return class of the nullary methods of Nat / Bool vs the sign of what the runtime method (found through the Python MRO) returns"""
    import ast
    chk.rule(RULE, 'a method registered on Nat (or Bool) with return class Nat returns a non-negative value for every receiver of that class: the runtime method found through the '
                   'Python MRO is evaluated over the receiver interval [0, inf) (e.g. Int.pred = Int(self - 1) gives [-1, inf): not a Nat)')
    classes = OT.runtime_classes()
    rows = OT.declared_methods(fx)
    chk.analysed['declared methods on numeric classes'] = len(rows)
    for (cls, name, pyname, ret, line) in rows:
        if cls not in ('Nat', 'Bool') or ret not in ('Nat', 'Bool'):
            continue
        found = None
        for k in OT.mro(classes, cls):
            if pyname in classes[k]['methods']:
                found = (k, classes[k]['methods'][pyname])
                break
        inst = '%s.%s -> %s' % (cls, name, ret)
        if found is None:
            chk.undecide('%s: runtime method `%s` is a plain Python builtin (not judged)' % (inst, pyname))
            continue
        k, fdef = found
        if len(fdef.args.args) != 1:
            chk.undecide('%s: takes operands (not judged here)' % inst)
            continue
        dom = (0, 1) if cls == 'Bool' else (0, None)
        los = []
        for n in ast.walk(fdef):
            if isinstance(n, ast.Return) and n.value is not None:
                iv = OT.py_interval(n.value, dom)
                los.append(iv)
        if not los or any(iv is None for iv in los):
            chk.undecide('%s: return expression of %s.%s not evaluable' % (inst, k, pyname))
            continue
        neg = any(iv[0] is None or iv[0] < 0 for iv in los)
        if neg:
            chk.bad(RULE, 'Context::init_builtin_classes', inst, '%s is declared to return %s, but the runtime method %s.%s returns %s for a receiver in %s: the result is wrapped in %s and raises ValueError'
                    % (inst, ret, k, pyname, ['[%s, %s]' % iv for iv in los], '[0, inf)', ret), OT.CLASSES, line)
        else:
            chk.ok(RULE, inst, sample='%s: %s.%s stays non-negative' % (inst, k, pyname))
