"""C12  Optimisation never changes observable behaviour: erasure only of pure, unreferenced definitions  (K2 + K4)"""
from sa import facts as F, tree as T
from sa.kinds import visit_run as VR, exceptions as X
from sa.props.c22 import COLL, TSPEC

OPT = 'crates/erg_compiler/optimize.rs'
EFF = 'crates/erg_compiler/effectcheck.rs'

EXCEPTIONS = {
    ('neutral-default', 'Expr::Import'): ('Import is produced only by HIRLinker, which runs after the optimiser', X.only_built_after_checks('hir::Expr::Import')),
    ('neutral-default', 'Expr::Dummy'): ('Dummy holds expressions already erased or rejected', None),
    ('panicking-arm', 'Dict::Comprehension => (catch-all) todo!()'): ('hir::Dict::Comprehension is never constructed', X.never_constructed('erg_compiler', 'hir::Dict::Comprehension')),
    ('panicking-arm', 'List::Comprehension => (catch-all) todo!()'): ('hir::List::Comprehension is never constructed', X.never_constructed('erg_compiler', 'hir::List::Comprehension')),
    ('unvisited-field', 'NormalList.elems.var_args'): (COLL, None), ('unvisited-field', 'NormalList.elems.kw_args'): (COLL, None),
    ('unvisited-field', 'NormalList.elems.kw_var'): (COLL, None),
    ('unvisited-field', 'NormalTuple.elems.var_args'): (COLL, None), ('unvisited-field', 'NormalTuple.elems.kw_args'): (COLL, None),
    ('unvisited-field', 'NormalTuple.elems.kw_var'): (COLL, None),
    ('unvisited-field', 'NormalSet.elems.var_args'): (COLL, None), ('unvisited-field', 'NormalSet.elems.kw_args'): (COLL, None),
    ('unvisited-field', 'NormalSet.elems.kw_var'): (COLL, None),
    ('unvisited-field', 'TypeAscription.spec.expr'): (TSPEC, None),
    ('unvisited-field', 'Lambda.params.non_defaults'): (TSPEC, None), ('unvisited-field', 'Lambda.params.var_params'): (TSPEC, None),
    ('unvisited-field', 'Lambda.params.kw_var_params'): (TSPEC, None),
    ('unvisited-field', 'Lambda.params.guards'): ('guards are synthesised by the lowerer', None),
    ('unvisited-field', 'Lambda.params.defaults'): ('a lambda value is not called by being defined: defaults are evaluated when the definition runs, but the erased definition is '
                                                    'itself only erased when unreferenced; an impure default in an erased lambda definition was not demonstrable', None),
    ('unvisited-field', 'Def.sig'): ('`def.sig.is_procedural()` is tested; parameter defaults of a non-procedural definition are checked for effects by '
                                      'SideEffectChecker::check_params, so an accepted function definition has no effectful default', lambda fx: def_sig_tested(fx)),
    ('neutral-default', 'Expr::ClassDef'): ('only `Expr::Def` chunks are ever erased (HIROptimizer::eliminate_unused_def); a class definition nested in the erased definition body '
                                            'has no effect of its own at definition time', None),
    ('neutral-default', 'Expr::PatchDef'): ('as ClassDef', None),
}


def value_leaves(e):
    """the expressions a value-producing expression can evaluate to (through blocks, if/else and match arms)"""
    e = T.peel(e)
    k = e.get('k')
    if k == 'Block':
        ss = T.stmts_of(e)
        if 'e' in e:
            return value_leaves(e['e'])
        return [e]
    if k == 'If' and e.get('e') is not None:
        return value_leaves(e['t']) + value_leaves(e['e'])
    if k == 'Match':
        out = []
        for a in e['arms']:
            out += value_leaves(a['b'])
        return out
    return [e]


def impure_arm(fx, variant):
    fn = fx.fn(EFF, 'SideEffectChecker::is_impure')
    for m in T.walk(fn['body']):
        if m.get('k') == 'Match':
            for arm in m['arms']:
                if any(v.endswith(variant) for v in T.pat_variants(arm['pat'])):
                    return arm
    return None


def deco_rule(chk, fx):
    """two cooperating sites: what the code generator executes for a definition, the purity test must look at"""
    chk.rule('C12-deco', 'the code generator calls every decorator of a subroutine definition when the definition is executed (emit_expr(deco) + a call per decorator in '
                         'PyCodeGenerator::emit_subr_def), so the Def arm of SideEffectChecker::is_impure inspects `decorators` (procedure type or impure expression): otherwise an '
                         'unused function under `@register!` is erased at -o 1 together with the effect of the decorator')
    gen = None
    for f in fx.file('crates/erg_compiler/codegen.rs')['fns']:
        if T.norm(f['path']).startswith('PyCodeGenerator::'):
            for m in T.walk(f['body']):
                if m.get('k') == 'Match' and m.get('src') == 'ForLoopDesugar' and 'decorators' in T.show(m['x']) and any(c.get('k') == 'MCall' and c['n'] == 'emit_expr' for c in T.calls(m)):
                    gen = T.norm(f['path'])
    if gen is None:
        chk.ok('C12-deco', 'no-runtime-decorators', sample='the code generator does not evaluate decorators of definitions')
        return
    arm = impure_arm(fx, 'hir::Expr::Def')
    if not chk.need(arm is not None, 'is_impure: no Def arm'):
        return
    reads = [n for n in T.walk(arm['b']) if n.get('k') == 'Field' and n.get('n') == 'decorators']
    judged = any(c.get('k') in ('Call', 'MCall') and (T.last_seg(T.callee(c) or c.get('n') or '') in ('is_impure', 'is_procedure', 'is_procedural')) for n in T.walk(arm['b'])
                 if n.get('k') in ('MCall', 'Match') and 'decorators' in T.show(n) for c in T.calls(n))
    if reads and judged:
        chk.ok('C12-deco', 'Def', sample='%s evaluates decorators; is_impure/Def inspects them' % gen)
    else:
        chk.bad('C12-deco', 'SideEffectChecker::is_impure', 'decorators-ignored', '%s evaluates and calls every decorator of a definition, but the Def arm of is_impure never looks at '
                '`decorators`: `@register!` over an unused function `handler() = 1` prints at -o 0 and is erased at -o 1' % gen, EFF, arm['l'])


def def_sig_tested(fx):
    """guard of the `Def.sig` exception: every value the Def arm can produce has `<def>.sig.is_procedural()` as a disjunct"""
    arm = impure_arm(fx, 'hir::Expr::Def')
    if arm is None:
        return False, 'no Def arm'
    for leaf in value_leaves(arm['b']):
        tests = [c for c in T.calls(leaf) if c.get('k') == 'MCall' and c['n'] == 'is_procedural' and '.sig' in T.show(c['r'])]
        if not tests:
            return False, 'the Def arm can answer `%s` without testing def.sig.is_procedural()' % T.show(leaf)[:60]
    return True, ''


def is_empty_on_referrers(e):
    e = T.peel(e)
    if e.get('k') == 'MCall' and e['n'] == 'is_empty' and not e['a']:
        r = T.peel(e['r'])
        return r.get('k') == 'Field' and r['n'] == 'referrers'
    if e.get('k') == 'Binary' and e['op'] == '==' and T.lit_int(e['y']) == 0:
        l = T.peel(e['x'])
        return l.get('k') == 'MCall' and l['n'] == 'len' and T.peel(l['r']).get('k') == 'Field' and T.peel(l['r'])['n'] == 'referrers'
    return False


def is_purity_test(e):
    e = T.peel(e)
    if e.get('k') == 'Call' and (T.cq(e) or '') == 'SideEffectChecker::is_pure':
        return True
    if e.get('k') == 'Unary' and e['op'] == '!':
        x = T.peel(e['x'])
        return x.get('k') == 'Call' and (T.cq(x) or '') == 'SideEffectChecker::is_impure'
    return False


def conjuncts(e):
    e = T.peel(e)
    if e.get('k') == 'Binary' and e['op'] == '&&':
        return conjuncts(e['x']) + conjuncts(e['y'])
    return [e]


def run(chk):
    fx = F.Facts()
    chk.rule('C12-R1', 'every erasure in HIROptimizer (assignment of Expr::Dummy) lies under a condition that has, as conjuncts, `<refs>.referrers.is_empty()` on the '
                       'full referrer set and `SideEffectChecker::is_pure(expr)`; HIROptimizer::optimize returns the HIR untouched when opt_level == 0')
    chk.rule('C12-R2', 'SideEffectChecker::is_impure is conservative: no hir::Expr variant with children answers `false` without inspecting them; every child field is inspected')
    chk.rule('C12-R3', 'is_impure classifies a call by its callee (call.obj / attr_name), like SideEffectChecker::check_expr, not by the type of its result')
    # ---- R1
    erasures = 0
    for f in fx.fns(OPT):
        for n, ctx in T.walk_ctx(f['body']):
            if n.get('k') != 'Assign':
                continue
            rhs = T.peel(n['y'])
            if not (rhs.get('k') == 'Call' and (rhs.get('fn') or '').endswith('hir::Expr::Dummy')):
                continue
            erasures += 1
            where = T.norm(f['path'])
            cs = []
            for c in ctx:
                if c[0] == 'if' and c[2] is True:
                    cs += conjuncts(c[1])
            has_ref = any(is_empty_on_referrers(c) for c in cs)
            has_pure = any(is_purity_test(c) for c in cs)
            if has_ref and has_pure:
                chk.ok('C12-R1', (where, 'erase'), sample='%s: `%s` under %s' % (where, T.show(n), ' && '.join(T.show(c) for c in cs)))
            else:
                missing = []
                if not has_ref:
                    missing.append('the `referrers.is_empty()` test on the full referrer set')
                if not has_pure:
                    missing.append('the purity test SideEffectChecker::is_pure')
                chk.bad('C12-R1', where, 'erase:' + '+'.join(['noref'] * (not has_ref) + ['nopure'] * (not has_pure)),
                        '%s erases a definition (`%s`) without %s (condition: %s)' % (where, T.show(n), ' and '.join(missing), ' && '.join(T.show(c) for c in cs) or 'none'), OPT, n['l'])
    chk.floor('erasure sites', erasures, 1)
    opt = fx.fn(OPT, 'HIROptimizer::optimize')
    bypass = False
    for n, ctx in T.walk_ctx(opt['body']):
        if n.get('k') == 'Ret' and any(c[0] == 'if' and c[2] is True and 'opt_level == 0' in T.show(c[1]) for c in ctx):
            x = T.peel(n.get('x') or {})
            if x.get('k') == 'Local':
                bypass = True
    if bypass:
        chk.ok('C12-R1', 'opt_level0', sample='optimize: if opt_level == 0 || is_repl { return hir }')
    else:
        chk.bad('C12-R1', 'HIROptimizer::optimize', 'opt_level0', 'optimize no longer returns the HIR unchanged when opt_level == 0', OPT, opt['line'])
    # ---- R2
    fn, tg, tr = VR.run_traversal(fx, EFF, 'SideEffectChecker::is_impure', 'expr', VR.lit_false)
    chk.floor('Expr variants with children', len(tg.variants_with_children('hir::Expr')), 15)
    X.apply(chk, fx, tr, EFF, 'C12-R2', EXCEPTIONS)
    # no branch inside an arm for a variant with children answers the neutral `false`
    need = tg.variants_with_children('hir::Expr')
    top = [m for m in T.stmts_of(fn['body']) if T.unsemi(m).get('k') == 'Match'] or [m for m in T.walk(fn['body']) if m.get('k') == 'Match']
    nleaf = 0
    for arm in T.unsemi(top[0])['arms']:
        vs = [v.split('::')[-1] for v in T.pat_variants(arm['pat']) if '::Expr::' in v]
        if not vs or not any(v in need for v in vs):
            continue
        leaves = value_leaves(arm['b'])
        if len(leaves) <= 1:
            continue
        for leaf in leaves:
            nleaf += 1
            if VR.lit_false(leaf):
                chk.bad('C12-R2', 'SideEffectChecker::is_impure', 'neutral-branch:%s' % '|'.join(vs), 'is_impure: a branch of the %s arm answers `false` (pure) without inspecting the '
                        'expression: whatever that branch covers is erased when unreferenced, with its effects' % '|'.join(vs), EFF, leaf.get('l') or arm['l'])
            else:
                chk.ok('C12-R2', ('leaf', '|'.join(vs), nleaf))
    # ---- R3
    sites = [n for n in T.walk(fn['body']) if n.get('k') == 'MCall' and n['n'] in ('is_procedure', 'is_procedural')]
    chk.floor('procedure tests in is_impure', len(sites), 1)
    call_arm_tests = []
    for n, ctx in T.walk_ctx(fn['body']):
        if n.get('k') == 'MCall' and n['n'] in ('is_procedure', 'is_procedural'):
            arms = [c for c in ctx if c[0] == 'arm' and any(v.endswith('hir::Expr::Call') for v in T.pat_variants(c[2]['pat']))]
            if arms:
                call_arm_tests.append(n)
    if not call_arm_tests:
        chk.bad('C12-R3', 'SideEffectChecker::is_impure', 'Call:none', 'the Call arm of is_impure has no procedure test at all', EFF, fn['line'])
    from sa.kinds import visitor as V
    for n in call_arm_tests:
        s = T.show(n['r'])
        arm = [c for c in T.walk_ctx(fn['body'])]
        org = set()
        for nn, ctx in T.walk_ctx(fn['body']):
            if nn is n:
                for c in ctx:
                    if c[0] == 'arm' and any(v.endswith('hir::Expr::Call') for v in T.pat_variants(c[2]['pat'])):
                        binds = T.pat_bindings(c[2]['pat'])
                        if binds:
                            org = V.Origins(binds[0], c[2]['b']).of(n['r'])
        if any(c[:1] in (('obj',), ('attr_name',)) for c in org) or 'call.obj' in s or 'attr_name' in s:
            chk.ok('C12-R3', 'Call', sample='is_impure/Call: ' + T.show(n))
        else:
            chk.bad('C12-R3', 'SideEffectChecker::is_impure', 'Call:' + T.show(n), 'is_impure decides whether a call is effectful with `%s`, i.e. from the type of the call *result*, '
                    'not from the callee (call.obj / attr_name): `x = print! "a"` is judged pure' % T.show(n), EFF, n['l'])
    deco_rule(chk, fx)
    return ('Dominance rule on the erasure sites of optimize.rs (conjunct analysis of the enclosing conditions), opt_level 0 bypass, visitor completeness and callee-based '
            'classification of SideEffectChecker::is_impure. Decides these necessary conditions; equality of output across optimisation levels is not decided.'), {}
