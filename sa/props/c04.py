"""C04  Compile-time evaluation agrees with run time and never crashes  (K1 sibling cross-check + K5 operation audit)"""
from sa import facts as F, tree as T

VALUE = 'crates/erg_compiler/ty/value.rs'
EVAL = 'crates/erg_compiler/context/eval.rs'
NUM = {'Int', 'Nat', 'Float'}
# operator class of each folding function: binary operator symbols it may apply to the operands of a numeric arm
OPCLASS = {
    'try_add': {'+'}, 'try_sub': {'-'}, 'try_mul': {'*'}, 'try_div': {'/'}, 'try_floordiv': {'/'}, 'try_mod': {'%'},
    'try_pow': set(), 'try_gt': {'>'}, 'try_ge': {'>='}, 'try_lt': {'<'}, 'try_le': {'<='}, 'try_eq': {'=='}, 'try_ne': {'!='},
}
POWFNS = {'pow', 'powf', 'powi', 'checked_pow'}
# helper functions of ValueObj that stand for an operator (checked / Python-semantics forms); their bodies are judged by helper_rule
HELPER_OP = {'py_floordiv': '/', 'py_mod': '%', 'py_fmod': '%', 'checked_add': '+', 'checked_sub': '-', 'checked_mul': '*', 'checked_div': '/', 'checked_rem': '%',
             'div_euclid': None, 'rem_euclid': None}
ARITH = {'+', '-', '*', '/', '%', '<', '>', '<=', '>=', '==', '!=', '^', '|', '&', '<<', '>>'}
DISPATCH = {'Add': 'try_add', 'Sub': 'try_sub', 'Mul': 'try_mul', 'Div': 'try_div', 'FloorDiv': 'try_floordiv', 'Pow': 'try_pow',
            'Mod': 'try_mod', 'Gt': 'try_gt', 'Ge': 'try_ge', 'Lt': 'try_lt', 'Le': 'try_le', 'Eq': 'try_eq', 'Ne': 'try_ne'}
INTS = {'i8', 'i16', 'i32', 'i64', 'i128', 'isize', 'u8', 'u16', 'u32', 'u64', 'u128', 'usize'}
WIDTH = {'i8': 8, 'i16': 16, 'i32': 32, 'i64': 64, 'i128': 128, 'isize': 64, 'u8': 8, 'u16': 16, 'u32': 32, 'u64': 64, 'u128': 128, 'usize': 64}


def lossy_cast(frm, to):
    if frm not in INTS or to not in INTS:
        return False
    fs, ts = frm[0] == 'i', to[0] == 'i'
    fw, tw = WIDTH[frm], WIDTH[to]
    if fs == ts:
        return tw < fw
    if not fs and ts:      # unsigned -> signed
        return tw <= fw
    return True            # signed -> unsigned loses negatives


def arm_kinds(pat):
    """for `(Self::A(l), Self::B(r))` -> ('A','B'); None otherwise"""
    if pat.get('k') != 'PTuple' or len(pat['p']) != 2:
        return None
    out = []
    for q in pat['p']:
        if q.get('k') == 'PTupleStruct' and q['d'].split('::')[-2] == 'ValueObj':
            out.append(T.last_seg(q['d']))
        else:
            return None
    return tuple(out)


def arm_alts(pat):
    """every alternative of an arm pattern as (kinds, (binding of the left operand, binding of the right operand)); `A | B` arms give several"""
    alts = pat['p'] if pat.get('k') == 'POr' else [pat]
    out = []
    for p in alts:
        kinds = arm_kinds(p)
        if not kinds:
            continue
        names = []
        for q in p['p']:
            bs = [x.get('n') for x in T.walk(q) if x.get('k') == 'Bind']
            names.append(bs[0] if len(bs) == 1 else None)
        out.append((kinds, tuple(names)))
    return out


NONCOMMUTATIVE = {'try_sub', 'try_div', 'try_floordiv', 'try_pow', 'try_mod', 'try_lt', 'try_le', 'try_gt', 'try_ge', 'try_lshift', 'try_rshift'}


def operand_sides(arm_body, fname):
    """[(locals on the left of the operator, locals on the right)] for the operator applications of the arm"""
    out = []
    for n in T.walk(arm_body):
        if n.get('k') == 'Binary' and n['op'] in ARITH | {'<', '<=', '>', '>=', '<<', '>>'}:
            out.append(({x['n'] for x in T.walk(n['x']) if x.get('k') == 'Local'}, {x['n'] for x in T.walk(n['y']) if x.get('k') == 'Local'}))
        if n.get('k') == 'MCall' and n['n'] in POWFNS | {'partial_cmp', 'lt', 'le', 'gt', 'ge'} | set(HELPER_OP) and n['a']:
            out.append(({x['n'] for x in T.walk(n['r']) if x.get('k') == 'Local'}, {x['n'] for a in n['a'] for x in T.walk(a) if x.get('k') == 'Local'}))
        if n.get('k') == 'Call' and T.last_seg(n.get('fn') or '') in HELPER_OP and len(n['a']) == 2:
            out.append(({x['n'] for x in T.walk(n['a'][0]) if x.get('k') == 'Local'}, {x['n'] for x in T.walk(n['a'][1]) if x.get('k') == 'Local'}))
    return out


def fold_arms(chk, fx, types, opclass, r1='C04-R1', r1b='C04-R1b', audit=True):
    n_arms = 0
    for fname, cls in opclass.items():
        fn = fx.fn(VALUE, 'ValueObj::' + fname)
        ms = [n for n in T.stmts_of(fn['body']) if T.unsemi(n).get('k') == 'Match']
        if not chk.need(len(ms) == 1, '%s: expected one top-level match' % fname):
            continue
        seen_pairs = set()
        for arm, kinds, names, nalt in [(a, k, nm, len(arm_alts(a['pat']))) for a in T.unsemi(ms[0])['arms'] for k, nm in arm_alts(a['pat'])]:
            if not kinds or not set(kinds) <= NUM:
                continue
            n_arms += 1
            seen_pairs.add(kinds)
            where = 'ValueObj::%s' % fname
            inst = '%s,%s' % kinds
            if fname in NONCOMMUTATIVE and all(names):
                sides = operand_sides(arm['b'], fname)
                wrong_side = [sd for sd in sides if (names[1] in sd[0] and names[0] not in sd[0]) or (names[0] in sd[1] and names[1] not in sd[1])]
                if sides and not wrong_side:
                    chk.ok(r1b, (fname, inst))
                elif wrong_side:
                    chk.bad(r1b, where, 'order:' + inst, '%s arm (%s): the operator is applied as `%s`, with the operands in the opposite order of the pattern `(%s, %s)`%s'
                            % (fname, inst, T.show(arm['b'])[:80], names[0], names[1], ' (one alternative of an or-pattern)' if nalt > 1 else ''), VALUE, arm['l'])
            ops = [n for n in T.walk(arm['b']) if n.get('k') == 'Binary' and n['op'] in ARITH]
            # helper applications count as the operator they stand for (a helper standing for no operator of Python, e.g. rem_euclid, is a wrong operator)
            for c_ in T.calls(arm['b']):
                hn = c_['n'] if c_.get('k') == 'MCall' else T.last_seg(c_.get('fn') or '')
                if hn in HELPER_OP:
                    ops.append({'k': 'Binary', 'op': HELPER_OP[hn] or hn, 'helper': hn})
            pows = [n for n in T.calls(arm['b']) if n.get('k') == 'MCall' and n['n'] in POWFNS]
            floors = [n for n in T.calls(arm['b']) if n.get('k') == 'MCall' and n['n'] == 'floor']
            # R1
            wrong = [n for n in ops if n['op'] not in cls]
            if fname == 'try_pow':
                good = bool(pows) and not wrong
            else:
                good = bool(ops) and not wrong and not pows
                if fname == 'try_floordiv' and 'Float' in kinds and not floors:
                    good = False
                # integer `//` and `%` differ between Rust and Python for negative operands: only the flooring helpers are the operator
                if fname in ('try_floordiv', 'try_mod') and 'Float' not in kinds and not any(o.get('helper') in ('py_floordiv', 'py_mod') for o in ops):
                    good = False
                if fname == 'try_mod' and 'Float' in kinds and not any(o.get('helper') == 'py_fmod' for o in ops):
                    good = False
            if good:
                chk.ok(r1, (fname, inst), sample='%s (%s): %s' % (fname, inst, T.show(arm['b'])))
            else:
                what = ('applies the raw `%s` of Rust (truncating / sign of the dividend) instead of the flooring helper' % sorted(cls)[0]) if (not wrong and ops and fname in ('try_floordiv', 'try_mod') and not any(o.get('helper') for o in ops)) else ('applies `%s`' % wrong[0]['op']) if wrong else ('applies pow' if pows and fname != 'try_pow' else
                                                                         'has no `%s` application' % '/'.join(sorted(cls) or ['pow']) if not floors and fname != 'try_floordiv' or not ops else 'does not floor the float quotient')
                chk.bad(r1, where, inst, '%s arm (%s) %s: `%s`' % (fname, inst, what, T.show(arm['b'])), VALUE, arm['l'])
            # R3
            if audit:
                audit_int_ops(chk, arm['b'], types, where, inst, VALUE)
        if fname not in ('try_eq', 'try_ne'):
            chk.need(len(seen_pairs) >= 9, '%s: only %d of the 9 numeric operand pairs have an arm' % (fname, len(seen_pairs)))
    return n_arms


def run(chk):
    fx = F.Facts()
    types = fx.file(VALUE)['types']
    chk.rule('C04-R1b', 'in the non-commutative folding functions (try_sub, try_div, try_floordiv, try_pow, try_mod, comparisons, shifts) the left operand of the applied operator is '
                        'the value bound in the first position of the arm pattern and the right operand the second — for every alternative of an or-pattern')
    chk.rule('C04-R1', 'in ValueObj::try_<op>, every numeric arm (Int/Nat/Float x Int/Nat/Float) applies only the operator <op> to its operands '
                       '(try_floordiv: `/` then floor for floats; try_pow: pow/powf/powi and no other arithmetic)')
    chk.rule('C04-R2', 'Context::eval_bin dispatches OpKind::X to ValueObj::try_x')
    chk.rule('C04-R3', 'the numeric arms of try_<op> and eval_unary_val contain no integer operation that can trap or silently truncate: unchecked + - * '
                       '(overflow), integer / and % (zero divisor; Rust truncates where Python floors), lossy `as` casts between i32 and u64, integer pow')
    n_arms = fold_arms(chk, fx, types, OPCLASS)
    chk.floor('numeric arms analysed', n_arms, 110)

    # eval_unary_val: Neg arm
    fn = fx.fn(EVAL, 'Context::eval_unary_val')
    etypes = fx.file(EVAL)['types']
    for n, ctx in T.walk_ctx(fn['body']):
        pass
    ms = [n for n in T.stmts_of(fn['body']) if T.unsemi(n).get('k') == 'Match']
    if chk.need(len(ms) == 1, 'eval_unary_val: expected one top-level match'):
        for arm in T.unsemi(ms[0])['arms']:
            opk = '|'.join(sorted(T.last_seg(p) for p in T.pat_variants(arm['pat'])))
            for inner in [n for n in T.walk(arm['b']) if n.get('k') == 'Match']:
                for a2 in inner['arms']:
                    vs = {T.last_seg(p) for p in T.pat_variants(a2['pat'])}
                    if vs & NUM:
                        audit_int_ops(chk, a2['b'], etypes, 'Context::eval_unary_val', '%s:%s' % (opk, '|'.join(sorted(vs))), EVAL, unary=True)

    # ---- R2 dispatch
    fn = fx.fn(EVAL, 'Context::eval_bin')
    ms = [n for n in T.stmts_of(fn['body']) if T.unsemi(n).get('k') == 'Match']
    rows = 0
    if chk.need(len(ms) == 1, 'eval_bin: expected one top-level match'):
        for arm in T.unsemi(ms[0])['arms']:
            vs = {T.last_seg(p) for p in T.pat_variants(arm['pat'])}
            called = {T.last_seg(T.callee(c)) for c in T.calls(arm['b']) if (T.cq(c) or '').startswith('ValueObj::try_')}
            for v in vs:
                if v in DISPATCH or called:
                    rows += 1
                    want = DISPATCH.get(v)
                    if want and called == {want}:
                        chk.ok('C04-R2', v, sample='OpKind::%s => %s' % (v, want))
                    elif want and not called:
                        chk.bad('C04-R2', 'Context::eval_bin', v, 'OpKind::%s is not folded by ValueObj::%s (arm: %s)' % (v, want, T.show(arm['b'])), EVAL, arm['l'])
                    else:
                        chk.bad('C04-R2', 'Context::eval_bin', v, 'OpKind::%s is folded by %s, expected %s' % (v, sorted(called), want), EVAL, arm['l'])
    chk.floor('eval_bin dispatch rows', rows, 13)
    helper_rule(chk, fx)
    return ('Sibling cross-check of the 13 folding functions ValueObj::try_<op> (operator class per numeric arm, from resolved HIR Binary/MethodCall nodes '
            'with operand types), the OpKind dispatch table of Context::eval_bin, and an audit of trapping / truncating integer operations in those arms. '
            'Decides these structural clauses; float rounding and non-arithmetic constant expressions are not decided.'), {}


def helper_rule(chk, fx):
    """the flooring helpers are compared with Python's own operators on a grid of operands"""
    import math
    from sa.kinds import mini
    chk.rule('C04-py', 'the helpers behind the folded `//` and `%` compute what Python computes: ValueObj::py_floordiv / py_mod (integers) and py_fmod (floats) are interpreted '
                       '(typed HIR: lets, if / else, early return, Rust\'s truncating `/` and dividend-signed `%`) for every operand pair of a grid and compared with Python\'s floor '
                       'division and modulo; a zero divisor gives None. Rust\'s raw operators differ for operands of different sign: -7 // 2 is -4 and -7 % 2 is 1 in Python')
    ints = list(range(-9, 10)) + [-(2 ** 31), 2 ** 31 - 1, 2 ** 63, 2 ** 64 - 1]
    flts = [-9.25, -7.5, -4.0, -2.0, -1.5, -0.5, 0.5, 1.5, 2.0, 4.0, 7.5, 9.25, 0.0]
    n = 0
    for name, ref, grid in (('py_floordiv', lambda a, b: a // b, ints), ('py_mod', lambda a, b: a % b, ints), ('py_fmod', lambda a, b: a % b, flts)):
        fs = [f for f in fx.fns(VALUE) if T.norm(f['path']) == 'ValueObj::' + name]
        if not chk.need(len(fs) == 1, 'ValueObj::%s not found' % name):
            continue
        bad = None
        try:
            for a in grid:
                for b in grid:
                    if b == 0:
                        if name != 'py_fmod':
                            got = mini.call(fs[0], [a, 0])
                            n += 1
                            if got != mini.NONE and bad is None:
                                bad = (a, b, got, 'None')
                        continue
                    got = mini.call(fs[0], [a, b])
                    want = ref(a, b)
                    n += 1
                    same = (got == want) if not isinstance(want, float) else (got is not mini.NONE and isinstance(got, (int, float)) and math.isclose(got, want, abs_tol=1e-12))
                    if not same and bad is None:
                        bad = (a, b, got, want)
        except mini.Unknown as u:
            chk.need(False, 'ValueObj::%s: cannot interpret the body (%s)' % (name, u))
            continue
        if bad:
            chk.bad('C04-py', 'ValueObj::' + name, 'differs-from-python', 'ValueObj::%s(%r, %r) gives %r where Python gives %r: a constant expression folds to another value than the '
                    'program computes at run time' % (name, bad[0], bad[1], bad[2], bad[3]), VALUE, fs[0].get('line'))
        else:
            chk.ok('C04-py', name, sample='%s agrees with Python on the grid' % name)
    chk.count('helper evaluations against Python', n)


def widened_fits(n, types):
    """`a as W op b as W` where a, b come from narrower integer types: the result needs at most bits(a)+1 / bits(a)+bits(b) bits; it cannot overflow W if that is below W's"""
    def bits(e):
        e = T.peel(e)
        if e.get('k') == 'Cast' and types[e['from']] in INTS and types[e['ty']] in INTS and not lossy_cast(types[e['from']], types[e['ty']]):
            f = types[e['from']]
            return WIDTH[f] - (1 if f[0] == 'i' else 0)      # magnitude bits
        if e.get('k') == 'Paren' and 'x' in e:
            return bits(e['x'])
        return None
    a, b = bits(n['x']), bits(n['y'])
    if a is None or b is None:
        return False
    t = types[n['lt']]
    room = WIDTH[t] - (1 if t[0] == 'i' else 0)
    need = (max(a, b) + 1) if n['op'] in ('+', '-') else (a + b)
    if t[0] == 'u' and n['op'] == '-':
        return False
    return need <= room


def audit_int_ops(chk, body, types, where, inst, file, unary=False):
    for n in T.walk(body):
        k = n.get('k')
        if k == 'Binary' and n['op'] in ('+', '-', '*') and types[n['lt']] in INTS and widened_fits(n, types):
            chk.ok('C04-R3', (where, inst, 'widened', n['op'], n.get('l')))
        elif k == 'Binary' and n['op'] in ('+', '-', '*', '/', '%') and types[n['lt']] in INTS:
            t = types[n['lt']]
            why = {'+': 'overflow', '-': 'overflow', '*': 'overflow',
                   '/': 'zero divisor traps; truncates toward zero where Python floors', '%': 'zero divisor traps; sign follows the dividend where Python follows the divisor'}[n['op']]
            if n['op'] in ('/', '%') and t[0] == 'u':
                why = 'zero divisor traps'
            chk.bad('C04-R3', where, '%s:%s%s' % (inst, n['op'], t), 'unchecked `%s` on %s in arm (%s): %s  — `%s`' % (n['op'], t, inst, why, T.show(n)), file, n['l'])
        elif k == 'Unary' and n['op'] == '-' and types[n['ty']] in INTS:
            chk.bad('C04-R3', where, '%s:neg%s' % (inst, types[n['ty']]), 'unchecked negation on %s in arm (%s): overflow at the minimum value — `%s`' % (types[n['ty']], inst, T.show(n)), file, n['l'])
        elif k == 'Cast' and lossy_cast(types[n['from']], types[n['ty']]):
            chk.bad('C04-R3', where, '%s:cast:%s->%s' % (inst, types[n['from']], types[n['ty']]),
                    'lossy cast %s as %s in arm (%s) — `%s`' % (types[n['from']], types[n['ty']], inst, T.show(n)), file, n['l'])
        elif k == 'MCall' and n['n'] == 'pow' and (types[n['rt']].lstrip('&') in INTS):
            chk.bad('C04-R3', where, '%s:pow:%s' % (inst, types[n['rt']]), 'integer pow on %s in arm (%s): overflow — `%s`' % (types[n['rt']], inst, T.show(n)), file, n['l'])
        elif k in ('Binary', 'Cast', 'MCall', 'Unary'):
            chk.ok('C04-R3', (where, inst, k))
