"""C14  emitted code is instruction-aligned; 3.11 inline caches have the interpreter's sizes; accounting state has one owner  (K3 + K6)"""
import json, os, re
from sa import facts as F, tree as T
from sa.core import VERIF
from sa.kinds import vspec as VS
from sa.props.c13 import is_root, opcode_tables, CODEGEN, VERSIONS

CODE_WRITERS = {  # functions allowed to touch `code` / `lasti` directly (confirmed by reading; one reason each)
    'PyCodeGenerator::write_instr': 'appends the opcode byte',
    'PyCodeGenerator::write_arg': 'appends the argument byte (extended args through extend_arg)',
    'PyCodeGenerator::write_bytes': 'appends cache bytes',
    'PyCodeGenerator::extend_arg': 'inserts whole EXTENDED_ARG instructions (2 bytes each)',
    'PyCodeGenerator::edit_code': 'patches an argument byte in place',
    'PyCodeGenerator::fill_jump': 'patches the two argument bytes of EXTENDED_ARG+jump in place',
    'PyCodeGenerator::cancel_if_pop_top': 'removes one whole POP_TOP instruction (2 bytes)',
    'PyCodeGenerator::rewrite_captured_fast': 'rewrites opcode bytes in place (LOAD_FAST -> LOAD_DEREF)',
}
STACK_WRITERS = {'PyCodeGenerator::stack_inc', 'PyCodeGenerator::stack_inc_n', 'PyCodeGenerator::stack_dec', 'PyCodeGenerator::stack_dec_n'}
STACK_EXCEPTIONS = {('PyCodeGenerator::emit_load_name_instr', 'stacksize', '+='): 'head-room fudge: only raises stacksize'}
MUT = {'push', 'pop', 'insert', 'remove', 'extend_from_slice', 'extend', 'truncate', 'clear', 'append', 'drain', 'splice', 'swap', 'get_mut', 'last_mut',
       'iter_mut', 'chunks_exact_mut', 'retain', 'resize', 'swap_remove', 'reverse', 'sort'}
TOP = 'TOP'


class Align(VS.Interp):
    def __init__(self, spec, by_norm, tabs, cache, summaries, fname, report):
        super().__init__(spec)
        self.by_norm, self.tabs, self.cache, self.summ, self.fname, self.report = by_norm, tabs, cache, summaries, fname, report
        self.env = VS.let_env(by_norm[fname])
        self.types = by_norm[fname].get('_types')

    def top(self, a, b):
        pa, pb = a[0], b[0]
        if pa != pb and TOP not in (pa, pb):
            self.report('parity-join', self.fname, None, 'two paths of %s reach the same point with different code-length parity (one of them is not instruction-aligned)' % self.fname)
        par = pa if pa == pb else TOP
        pend = a[1] if a[1] == b[1] else TOP
        return (par, pend)

    def complete(self, pend, line, what):
        if pend is None or pend == TOP:
            return
        names, nbytes = pend
        if not names:
            return
        exp = set()
        for nm in names:
            c = self.cache.get(nm, 0) if self.spec.v == 11 else 0
            exp.add(1 + 2 * c)
        if nbytes not in exp:
            self.report('instr-size', self.fname, line,
                        '%s: opcode %s is followed by %d argument/cache byte(s) before %s; CPython 3.%d expects %s'
                        % (self.fname, '/'.join(sorted(names)), nbytes, what, self.spec.v, ' or '.join(str(e) for e in sorted(exp))), key='/'.join(sorted(names)))

    def call(self, n, st):
        par, pend = st
        name = n.get('n') if n['k'] == 'MCall' else None
        q = T.cq(n)
        flip = lambda p, k=1: p if p == TOP else (p + k) % 2
        if q == 'PyCodeGenerator::write_instr':
            self.complete(pend, n['l'], 'the next write_instr')
            vals, comp = VS.const_values(n['a'][0], self.spec, self.env)
            names = frozenset(v.split('::')[-1] for k, v in vals if k == 'variant') if (vals and comp) else frozenset()
            return (flip(par), (names, 0) if names else TOP)
        if q == 'PyCodeGenerator::write_arg':
            if pend is None:
                self.report('arg-at-boundary', self.fname, n['l'], '%s writes an argument byte at an instruction boundary (no opcode byte precedes it)' % self.fname)
            return (flip(par), (pend[0], pend[1] + 1) if isinstance(pend, tuple) else pend)
        if q == 'PyCodeGenerator::write_bytes':
            k = array_len(n['a'][0], self.types)
            if k is None:
                return (TOP, TOP)
            return (flip(par, k), (pend[0], pend[1] + k) if isinstance(pend, tuple) else pend)
        if q == 'PyCodeGenerator::cancel_if_pop_top':
            return (par, TOP)
        if q in ('PyCodeGenerator::crash',):
            return None
        if q in self.by_norm and q not in CODE_WRITERS and q.startswith('PyCodeGenerator::'):
            s = self.summ.get(q)
            if s is None:
                return st           # does not emit (or not yet summarised)
            if s == 'DIVERGES':
                return None
            spar, spend, emits = s
            if not emits:
                return st
            self.complete(pend, n['l'], 'the call to %s' % q.split('::')[-1])
            npar = TOP if (par == TOP or spar == TOP) else (par + spar) % 2
            return (npar, spend)
        return st


def array_len(e, types):
    e = T.peel(e)
    t = types[e['ty']] if isinstance(e.get('ty'), int) else ''
    m = re.match(r'^\[u8; (\d+)\]$', t or '')
    if m:
        return int(m.group(1))
    if e.get('k') == 'Array':
        return len(e['a'])
    return None


def run(chk):
    fx = F.Facts()
    ref = json.load(open(os.path.join(VERIF, 'ref', 'cpython_opcodes.json')))
    cache = ref['3.11']['inline_cache_entries']
    chk.rule('C14-R1', 'instruction alignment: for every target minor 7..11, every PyCodeGenerator method maps an even code length to an even code length on every path '
                       '(write_instr / write_arg flip the parity, write_bytes(&[0; N]) flips it iff N is odd); so every recorded lasti and patched jump target is an instruction boundary')
    chk.rule('C14-R2', 'instruction size: between a write_instr(op) and the next instruction boundary exactly 1 argument byte is written for targets <= 3.10, and '
                       '1 + 2 x _inline_cache_entries[op] bytes for 3.11 (LOAD_GLOBAL 5, LOAD_ATTR 4, LOAD_METHOD 10, STORE_ATTR 4, CALL 4, PRECALL 1, BINARY_OP 1, COMPARE_OP 2, BINARY_SUBSCR 4, ...)')
    chk.rule('C14-R3', 'the code array / lasti are written only by the byte-writer primitives; stack_len / stacksize only by stack_inc(_n) / stack_dec(_n)')
    d = fx.file(CODEGEN)
    fns = [f for f in d['fns'] if (f.get('self_ty') or '').split('::')[-1] == 'PyCodeGenerator']
    for f in fns:
        f['_types'] = d['types']
    by_norm = {T.norm(f['path']): f for f in fns}
    tabs = opcode_tables(fx)
    roots = [T.norm(f['path']) for f in fns if is_root(f)]
    chk.floor('PyCodeGenerator methods', len(fns), 140)
    for w in CODE_WRITERS:
        chk.need(w in by_norm, 'primitive %s no longer exists' % w)
    found = {}

    def report_factory(v):
        def report(kind, fname, line, msg, key=None):
            k = (kind, fname, key)
            found.setdefault(k, (msg, line, set()))[2].add(v)
        return report
    nchecked = 0
    for v in VERSIONS:
        spec = VS.Spec(v)
        reach = VS.reachable_methods(by_norm, roots, spec)
        summ = {}
        order = sorted(reach)
        for it in range(4):
            changed = False
            for fname in order:
                if fname in CODE_WRITERS:
                    continue
                ip = Align(spec, by_norm, tabs, cache, summ, fname, (report_factory(v) if it == 3 else (lambda *a, **k: None)))
                emits = any(n.get('k') in ('Call', 'MCall') and (T.cq(n) in CODE_WRITERS or (summ.get(T.cq(n)) or (0, 0, False))[2] is True)
                            for n in VS.walk_feasible(by_norm[fname]['body'], spec))
                out = ip.run_fn(by_norm[fname], (0, None))
                new = 'DIVERGES' if out is None else (out[0], out[1], emits)
                if summ.get(fname) != new:
                    summ[fname] = new
                    changed = True
            if not changed and it < 3:
                # final reporting pass
                for fname in order:
                    if fname in CODE_WRITERS:
                        continue
                    ip = Align(spec, by_norm, tabs, cache, summ, fname, report_factory(v))
                    ip.run_fn(by_norm[fname], (0, None))
                break
        for fname in order:
            s = summ.get(fname)
            if fname in CODE_WRITERS or s in (None, 'DIVERGES'):
                continue
            nchecked += 1
            par, pend, emits = s
            if par == 1:
                report_factory(v)('odd-exit', fname, by_norm[fname]['line'], '%s leaves the code array with odd length on some path (entered aligned)' % fname)
            elif par == 0:
                chk.ok('C14-R1', (v, fname), sample='%s @3.%d: even -> even' % (fname, v) if nchecked % 150 == 0 else None)
            if fname in roots and isinstance(pend, tuple):
                ip = Align(spec, by_norm, tabs, cache, summ, fname, report_factory(v))
                ip.complete(pend, by_norm[fname]['line'], 'the end of the root function')
        chk.analysed['methods analysed @3.%d' % v] = len(order)
    chk.floor('method x version alignment summaries', nchecked, 600)
    for (kind, fname, key), (msg, line, vs) in sorted(found.items(), key=lambda x: str(x)):
        rule = 'C14-R2' if kind == 'instr-size' else 'C14-R1'
        chk.bad(rule, fname, '%s%s' % (kind, ':' + key if key else ''), msg + ' [targets 3.%s]' % ', 3.'.join(str(x) for x in sorted(vs)), CODEGEN, line)
    # ---- R4 operand index spaces
    index_space_rule(chk, by_norm, roots, ref)
    call_pairing_rule(chk, by_norm)
    line_table_rules(chk, by_norm)
    operand_and_closure_rules(chk, by_norm, d['types'])
    jump_parity_rule(chk, by_norm)
    flag_rule(chk, by_norm, 'C14-R13')
    chk.rule('C14-R12', 'a literal relative jump operand selected by version skips the same instructions on every target: the byte distance written for <= 3.9 is twice the '
                        'instruction distance written for 3.10 (and 3.7 = 3.8 = 3.9); otherwise one of the targets jumps between or past instructions — in tail position past the end of the code')
    from sa.props.c13 import literal_jump_rule
    literal_jump_rule(chk, fns, rid='C14-R12')
    # ---- R3 who-may-write
    n3 = 0
    for f in d['fns']:
        where = T.norm(f['path'])
        for n in T.walk(f['body']):
            if n.get('k') == 'MCall' and n['n'] in MUT and T.show(n['r']).endswith('.code'):
                n3 += 1
                if where in CODE_WRITERS:
                    chk.ok('C14-R3', (where, 'code.' + n['n']))
                else:
                    chk.bad('C14-R3', where, 'code.' + n['n'], '%s mutates the code array directly (`%s`): bypasses the alignment-preserving primitives' % (where, T.show(n)), CODEGEN, n['l'])
            if n.get('k') in ('Assign', 'AssignOp'):
                l = T.peel(n['x'])
                if l.get('k') == 'Field' and l['n'] in ('stack_len', 'stacksize', 'lasti', 'code'):
                    n3 += 1
                    op = n.get('op', '')
                    op = (op if op.endswith('=') else op + '=') if n['k'] == 'AssignOp' else '='
                    allowed = (l['n'] in ('lasti', 'code') and where in CODE_WRITERS) or (l['n'] in ('stack_len', 'stacksize') and where in STACK_WRITERS) \
                        or (where, l['n'], op) in STACK_EXCEPTIONS
                    if allowed:
                        chk.ok('C14-R3', (where, l['n'], op))
                    else:
                        chk.bad('C14-R3', where, '%s %s' % (l['n'], op), '%s writes `%s` directly (`%s`): only the accounting functions may' % (where, l['n'], T.show(n)), CODEGEN, n['l'])
    chk.floor('direct writes of code / stack accounting', n3, 20)
    return ('Abstract interpretation of every PyCodeGenerator method, specialised per target version (3.7-3.11), over the domain (code-length parity, bytes since the last opcode) '
            'with method summaries to a fixpoint; the 3.11 sizes come from CPython\'s own _inline_cache_entries table; plus a who-may-write rule. '
            'That stacksize bounds the real operand depth, jump target values and the line table are not decided.'), {}


TABLES = ('consts', 'names', 'varnames', 'cellvars', 'freevars')


def expected_space(name, v, ref):
    ver = ref['3.%d' % v]
    om = ver['opmap']
    if name in ('LOAD_CLOSURE',):
        return {'varnames'} if v >= 11 else {'cellvars', 'freevars'}
    if name in ('MAKE_CELL',):
        return {'varnames', 'cellvars'}
    if name in ('LOAD_DEREF', 'STORE_DEREF', 'DELETE_DEREF', 'LOAD_CLASSDEREF'):
        return {'cellvars', 'freevars'} if v <= 10 else None     # 3.11: index into localsplus, several spaces are legitimate
    if name in om:
        b = om[name]
        if b in ver['haslocal']:
            return {'varnames'}
        if b in ver['hasname'] and name != 'LOAD_GLOBAL':
            return {'names'}
        if b in ver['hasconst']:
            return {'consts'}
    return None


def table_in(e):
    s = T.show(e)
    hit = [t for t in TABLES if ('.' + t + '.') in s or s.endswith('.' + t) or ('.' + t + ')') in s]
    return set(hit)


def space_of(e, fn, spec, env, loop_binds, depth=0):
    """set of tables the index expression e is a position in; None if unknown"""
    if depth > 6:
        return None
    e = T.peel(e)
    k = e.get('k')
    if k == 'Local':
        if e['n'] in loop_binds:
            return loop_binds[e['n']]
        if e['n'] in env:
            return space_of(env[e['n']], fn, spec, {kk: vv for kk, vv in env.items() if kk != e['n']}, loop_binds, depth + 1)
        return None
    if k == 'MCall' and e['n'] in ('unwrap', 'expect', 'unwrap_or_else', 'unwrap_or'):
        return space_of(e['r'], fn, spec, env, loop_binds, depth + 1)
    if k == 'MCall' and e['n'] == 'position':
        t = table_in(e['r'])
        return t or None
    if k == 'If':
        c = spec.cond(e['c'])
        out = set()
        if c is not False:
            r = space_of(e['t'], fn, spec, env, loop_binds, depth + 1)
            if r is None:
                return None
            out |= r
        if c is not True and 'e' in e:
            r = space_of(e['e'], fn, spec, env, loop_binds, depth + 1)
            if r is None:
                return None
            out |= r
        return out or None
    if k == 'Block' and 'e' in e:
        return space_of(e['e'], fn, spec, env, loop_binds, depth + 1)
    if k == 'Binary' and e['op'] == '+':
        a = space_of(e['x'], fn, spec, env, loop_binds, depth + 1)
        b = space_of(e['y'], fn, spec, env, loop_binds, depth + 1)
        if a and b:
            return a | b
        return a or b
    return None


def arm_matches(arm, v):
    p = arm['pat']
    if p.get('k') in ('Wild', 'Bind'):
        return True
    alts = p['p'] if p.get('k') == 'POr' else [p]
    for a in alts:
        if a.get('k') in ('PTupleStruct', 'PStruct') and a['d'].endswith('::Some'):
            inner = (a.get('p') or [f_['p'] for f_ in a.get('f', [])])[0]
            for q in (inner['p'] if inner.get('k') == 'POr' else [inner]):
                if q.get('k') == 'PLit' and (q.get('v') or {}).get('int') == v:
                    return True
                if q.get('k') == 'PRange':
                    def _b(x):
                        x = x or {}
                        return x.get('int') if 'int' in x else (x.get('v') or {}).get('int')
                    lo, hi = _b(q.get('lo')), _b(q.get('hi'))
                    if lo is None and hi is not None and v <= hi:
                        return True
                    if lo is not None and (hi is None or lo <= v <= hi) and lo <= v:
                        return True
    return False



def jump_parity_rule(chk, by_norm):
    chk.rule('C14-R11', 'for the targets with byte-addressed jumps (3.7, 3.8, 3.9) every value handed to fill_jump / calc_edit_jump — an absolute offset or a distance between '
                        'instruction boundaries — is even: lasti() is even at every recording point (C14-R1), so the parity of `idx_a - idx_b - c` is the parity of `c`; an odd '
                        'operand puts the target between two instructions')

    def parity(e, env, spec, depth=0):
        if depth > 10:
            return None
        e = T.peel(e)
        k = e.get('k')
        v = T.lit_int(e)
        if v is not None:
            return v % 2
        if k == 'Cast':
            return parity(e['x'], env, spec, depth + 1)
        if k == 'Block' and 'e' in e and not e.get('s'):
            return parity(e['e'], env, spec, depth + 1)
        if k == 'MCall' and e['n'] == 'lasti':
            return 0
        if k == 'Local':
            return parity(env[e['n']], env, spec, depth + 1) if e['n'] in env else None
        if k == 'Binary' and e['op'] in ('+', '-'):
            a, b = parity(e['x'], env, spec, depth + 1), parity(e['y'], env, spec, depth + 1)
            return None if a is None or b is None else (a + b) % 2
        if k == 'Binary' and e['op'] == '*':
            a, b = parity(e['x'], env, spec, depth + 1), parity(e['y'], env, spec, depth + 1)
            if a == 0 or b == 0:
                return 0
            return 1 if a == 1 and b == 1 else None
        if k == 'Match' and 'py_version' in T.show(e['x']):
            for arm in e['arms']:
                if arm_matches(arm, spec.v):
                    return parity(arm['b'], env, spec, depth + 1)
            return None
        if k == 'If' and e.get('e') is not None:
            c = spec.cond(e['c'])
            if c is True:
                return parity(e['t'], env, spec, depth + 1)
            if c is False:
                return parity(e['e'], env, spec, depth + 1)
        return None
    nsite = 0
    for v in (7, 8, 9):
        spec = VS.Spec(v)
        for nm, f in sorted(by_norm.items()):
            if not nm.startswith('PyCodeGenerator::'):
                continue
            env = VS.let_env(f)
            for n, ctx in T.walk_ctx(f['body']):
                if n.get('k') != 'MCall' or n['n'] not in ('fill_jump', 'calc_edit_jump') or len(n['a']) < 2:
                    continue
                live = True
                for c in ctx:
                    if c[0] == 'if':
                        cv = spec.cond(c[1])
                        if cv is not None and cv != c[2]:
                            live = False
                    if c[0] == 'arm' and 'py_version' in T.show(c[1]['x']) and not arm_matches(c[2], v):
                        live = False
                if not live:
                    continue
                nsite += 1
                pr = parity(n['a'][1], env, spec)
                inst = '%s@3.%d' % (T.show(n['a'][1])[:40].replace(' ', ''), v)
                if pr == 1:
                    chk.bad('C14-R11', nm, 'odd:' + inst, '%s passes `%s` to %s under target 3.%d: an odd number of bytes, so the jump lands inside an instruction (dis shows a target that is '
                            'no instruction offset)' % (nm, T.show(n['a'][1])[:50], n['n'], v), CODEGEN, n['l'])
                elif pr == 0:
                    chk.ok('C14-R11', (nm, n['l'], v))
                else:
                    chk.notes.append({'parity not evaluated': '%s: %s' % (nm, inst)}) if len(chk.notes) < 40 else None
    chk.floor('jump operands examined (site x version 3.7-3.9)', nsite, 20)


def flag_rule(chk, by_norm, rid):
    """MAKE_FUNCTION takes one flag word that several emitters fill in turn (emit_params: Defaults / KwDefaults, enclose_vars: Closure)"""
    chk.rule(rid, 'the MAKE_FUNCTION flag word is only accumulated: every write of a MakeFunctionFlags value through a `&mut usize` handed in by the caller is `+=` / `|=` — a plain `=` '
                  'drops the flags an earlier emitter set: an inner function with a default parameter that also captures a variable is created without its defaults '
                  '(MAKE_FUNCTION leaves the defaults tuple on the stack, the call raises TypeError: missing argument)')
    n = 0
    for nm, f in sorted(by_norm.items()):
        if not nm.startswith('PyCodeGenerator::'):
            continue
        for x in T.walk(f['body']):
            if x.get('k') in ('Assign', 'AssignOp') and 'MakeFunctionFlags::' in T.show(x.get('y') or {}):
                lhs = x['x']
                through_ref = lhs.get('k') == 'Unary' and lhs.get('op') == '*' or T.show(lhs).startswith('*')
                n += 1
                key = '%s:%s' % (nm, T.norm(T.show(lhs))[:24])
                if x['k'] == 'AssignOp' and x['op'] in ('+', '+=', '|', '|='):
                    chk.ok(rid, (key, x.get('l')), sample='%s: %s' % (nm, T.show(x)[:70]))
                elif through_ref or x['k'] == 'Assign':
                    chk.bad(rid, nm, 'overwrites:' + T.norm(T.show(lhs))[:24], '%s writes `%s`: the flag word it was handed may already hold Defaults / KwDefaults from emit_params, which this '
                            'assignment drops — `f x, n := 10 = x + n + captured` inside a function is created without defaults' % (nm, T.show(x)[:60]), CODEGEN, x.get('l'))
    chk.floor('writes of MakeFunctionFlags values', n, 3)


def operand_and_closure_rules(chk, by_norm, types):
    from sa.kinds import casts as K
    chk.rule('C14-R8', 'operand width: no index or length is narrowed to a single byte in PyCodeGenerator without a mask or a dominating range test (operands above 255 are spread over '
                       'EXTENDED_ARG prefixes by write_arg; a bare `idx as u8` compares or writes only the low byte); the line-table writers are covered by C14-R6')
    chk.rule('C14-R9', 'closure agreement: the tuple given to MAKE_FUNCTION(closure) has one cell per free variable of the inner code object, in the order of its co_freevars — the '
                       'LOAD_CLOSURE loop of enclose_vars iterates over (a collection derived from) `code.freevars` of its CodeObj argument, and BUILD_TUPLE takes that length')
    chk.rule('C14-R10', 'a variable captured from a function further out than the enclosing one is passed through every function in between: when rec_search finds the name in an '
                        'outer block it also records it as a free variable of the blocks it walked past')
    n8 = 0
    R6_FUNCS = {'PyCodeGenerator::push_lnotab_entry', 'PyCodeGenerator::extend_lnotab_line', 'PyCodeGenerator::push_lnotab'}
    for nm, f in sorted(by_norm.items()):
        if not nm.startswith('PyCodeGenerator::') or nm in R6_FUNCS:
            continue
        for n, frm, to, st, why in K.audit(f, types):
            if to != 'u8':
                continue
            n8 += 1
            if st == 'lossy':
                chk.bad('C14-R8', nm, 'narrow:%s' % T.show(n['x'])[:30], '%s narrows `%s` (%s) to one byte: for a value above 255 only the low byte is compared / written, so another '
                        'instruction or variable is hit' % (nm, T.show(n)[:40], frm), CODEGEN, n.get('l'))
            else:
                chk.ok('C14-R8', (nm, n.get('l'), st))
    chk.analysed['casts to u8 in PyCodeGenerator'] = n8
    # positive control: the audit must see the masked cast of rewrite_captured_fast or at least the opcode-enum casts exist
    # ---- R9
    enc = by_norm.get('PyCodeGenerator::enclose_vars')
    if chk.need(enc is not None, 'PyCodeGenerator::enclose_vars not found'):
        code_params = [p['n'] for p in (enc.get('params') or []) if p.get('k') == 'Bind' and 'CodeObj' in (types[p['t']] if isinstance(p.get('t'), int) else '')]
        closures = [c for c in T.calls(enc['body']) if c.get('k') == 'MCall' and c['n'] == 'write_instr' and 'LOAD_CLOSURE' in T.show(c)]
        chk.floor('LOAD_CLOSURE emissions in enclose_vars', len(closures), 1)
        env = {}
        for n in T.walk(enc['body']):
            if n.get('k') == 'Let' and n.get('init') is not None and n['pat'].get('k') == 'Bind':
                env[n['pat']['n']] = n['init']

        def from_freevars(e, depth=0):
            """does the collection expression derive from <CodeObj param>.freevars ?"""
            if depth > 6:
                return False
            for x in T.walk(e):
                if x.get('k') == 'Field' and x.get('n') == 'freevars' and T.peel(x['x']).get('k') == 'Local' and T.peel(x['x'])['n'] in code_params:
                    return True
            for x in T.walk(e):
                if x.get('k') == 'Local' and x['n'] in env and x['n'] not in code_params:
                    if from_freevars(env[x['n']], depth + 1):
                        return True
            return False
        loops = []
        for n, ctx in T.walk_ctx(enc['body']):
            if n in closures or any(n is c for c in closures):
                lp = [c for c in ctx if c[0] == 'loop']
                loops.append(lp[-1][1] if lp else None)
        for lp in loops:
            src = None
            if lp is not None:
                # the desugared `for`: the iterator expression is the scrutinee of the match that wraps the loop; find it from the enclosing Match with src ForLoopDesugar
                for m in T.walk(enc['body']):
                    if m.get('k') == 'Match' and m.get('src') == 'ForLoopDesugar' and any(x is lp for x in T.walk(m)) and any(a for a in m['arms']):
                        if m['x'] is not None and not any(x is lp for x in T.walk(m['x'])):
                            src = m['x']
            if src is not None and from_freevars(src):
                chk.ok('C14-R9', 'domain', sample='enclose_vars: LOAD_CLOSURE for each of `%s` (derived from %s.freevars)' % (T.show(src)[:40], code_params[0] if code_params else '?'))
            else:
                chk.bad('C14-R9', 'PyCodeGenerator::enclose_vars', 'domain', 'the closure tuple is built by iterating over `%s`, not over the free variables of the inner code object: '
                        'the inner function reads cell i as its i-th free variable, so `g() = a; k() = b` in one function makes k() return a'
                        % (T.show(src)[:50] if src is not None else '?'), CODEGEN, enc['line'])
        bt = [c for c in T.calls(enc['body']) if c.get('k') == 'MCall' and c['n'] == 'write_arg']
        lens = [c for c in bt if any(x.get('k') == 'MCall' and x['n'] == 'len' for x in T.walk(c))]
        good_len = [c for c in lens if from_freevars(c)]
        if lens and len(good_len) == len(lens):
            chk.ok('C14-R9', 'length')
        elif lens:
            chk.bad('C14-R9', 'PyCodeGenerator::enclose_vars', 'length', 'BUILD_TUPLE takes `%s`, not the number of captured free variables' % T.show(lens[0])[:50], CODEGEN, lens[0].get('l'))
    # ---- R10
    rs = by_norm.get('PyCodeGenerator::rec_search')
    if chk.need(rs is not None, 'PyCodeGenerator::rec_search not found'):
        cell_push = [c for c in T.calls(rs['body']) if c.get('k') == 'MCall' and c['n'] == 'push' and T.show(T.peel(c['r'])).endswith('cellvars')]
        free_push = [c for c in T.calls(rs['body']) if c.get('k') == 'MCall' and c['n'] in ('push', 'insert') and T.show(T.peel(c['r'])).endswith('freevars')]
        chk.floor('cellvars.push sites in rec_search', len(cell_push), 1)
        if free_push:
            chk.ok('C14-R10', 'pass-through')
        else:
            chk.bad('C14-R10', 'PyCodeGenerator::rec_search', 'pass-through', 'rec_search marks the variable as a cell of the block that defines it but never as a free variable of the '
                    'blocks in between: a function nested two levels deep that captures it gets a closure tuple without that cell and the interpreter crashes', CODEGEN, rs['line'])


def line_table_rules(chk, by_norm):
    from sa.kinds import bytetable as BT
    chk.rule('C14-R6', 'line-table arithmetic: in every function that writes CodeObj.lnotab, each byte pushed is provably within its bound (address increment <= 255, line increment '
                       '<= 127: the interpreter reads it as a signed byte), no conversion of a delta can trap (`u8::try_from(..).unwrap()`), a table byte is only increased by the '
                       'head-room computed from it, a chunking loop subtracts exactly what it pushes, and prev_lineno is advanced by the whole delta (not by a variable the chunking '
                       'reduced)')
    chk.rule('C14-R7', 'the line table is written in the format of the target version: co_lnotab pairs up to 3.9, the PEP 626 co_linetable for 3.10, the PEP 657 location table for '
                       '3.11; a writer without a version distinction produces a table the newer interpreters cannot read (every line reads as -1)')
    writers = []
    for nm, f in sorted(by_norm.items()):
        touches = False
        for n in T.walk(f['body']):
            if n.get('k') == 'MCall' and n['n'] in ('push', 'last_mut', 'extend', 'extend_from_slice') and T.peel(n['r']).get('k') == 'Field' and T.peel(n['r'])['n'] == 'lnotab':
                touches = True
            if n.get('k') == 'Let' and n.get('init') is not None:
                i = T.peel(n['init'])
                while i.get('k') in ('Ref',):
                    i = T.peel(i['x'])
                if i.get('k') == 'Field' and i.get('n') == 'lnotab' and any(x.get('k') == 'MCall' and x['n'] in ('push', 'last_mut') for x in T.walk(f['body'])):
                    touches = True
        if touches:
            writers.append(nm)
    chk.floor('functions writing the line table', len(writers), 2)
    for nm in writers:
        f = by_norm[nm]
        b = BT.Bounds(f, 'lnotab', (255, 127)).run()
        for kind, inst, msg, line in b.findings:
            chk.bad('C14-R6', nm, inst, '%s: %s' % (nm, msg), CODEGEN, line)
        for o in b.ok:
            chk.ok('C14-R6', (nm,) + tuple(o))
    # conservation: wherever the running line is advanced
    ntot = 0
    for nm, f in sorted(by_norm.items()):
        mutated = {T.peel(n['x'])['n'] for n in T.walk(f['body']) if n.get('k') in ('AssignOp', 'Assign') and T.peel(n['x']).get('k') == 'Local'}
        b = type('B', (), {'mutated': mutated})
        for n in T.walk(f['body']):
            if n.get('k') == 'AssignOp' and n.get('op') == '+=' and T.peel(n['x']).get('k') == 'Field' and T.peel(n['x'])['n'] == 'prev_lineno':
                y = T.peel(n['y'])
                if y.get('k') == 'Local' and y['n'] in b.mutated:
                    chk.bad('C14-R6', nm, 'total:%s' % y['n'], '%s advances prev_lineno by `%s`, a variable the chunking above has reduced: after a jump of more than 127 lines the '
                            'running line falls behind and every later line is reported too high' % (nm, y['n']), CODEGEN, n['l'])
                else:
                    ntot += 1
                    chk.ok('C14-R6', (nm, 'total', n['l']))
    chk.floor('updates of the running line', ntot, 5)
    # format per version: decided where the table is written into the file (CodeObj::into_bytes) or in the generator's writers
    line_table_format(chk, by_norm, writers)


def line_table_format(chk, by_norm, writers):
    from sa import facts as F_
    fx = F_.Facts()
    CO = 'crates/erg_compiler/ty/codeobj.rs'
    fmt_aware = False
    for nm in writers:
        s_ = ' '.join(T.show(n['c']) for n in T.walk(by_norm[nm]['body']) if n.get('k') == 'If')
        if 'py_version' in s_ and ('Some(10)' in s_ or 'Some(11)' in s_):
            fmt_aware = True
    ib = fx.fn(CO, 'CodeObj::into_bytes')
    # the match on the minor version whose value is handed to raw_string_into_bytes
    table = {}
    for m in T.walk(ib['body']):
        if m.get('k') == 'Match' and m.get('src') == 'Normal' and 'minor' in T.show(m['x']) and any('lnotab' in T.show(a['b']) for a in m['arms']):
            for v in (7, 8, 9, 10, 11):
                for arm in m['arms']:
                    if arm_matches(arm, v):
                        b = T.peel(arm['b'])
                        callee = T.last_seg(T.callee(b) or '') if b.get('k') in ('Call', 'MCall') else ('raw' if 'lnotab' in T.show(b) and b.get('k') != 'Call' else T.show(b)[:30])
                        table[v] = (callee, b)
                        break
    want = {'3.10': ('co_linetable (PEP 626)', 10, {254, 127}, {255}), '3.11': ('the location table (PEP 657)', 11, {128, 13, 8, 64, 63, 6}, set())}
    for ver, (what, v, need_consts, forbid) in want.items():
        if fmt_aware:
            chk.ok('C14-R7', ver)
            continue
        ent = table.get(v)
        if ent is None or ent[0] == 'raw':
            chk.bad('C14-R7', 'PyCodeGenerator::push_lnotab', 'format@' + ver, 'the line table is written as co_lnotab pairs whatever the target: Python %s expects %s, so every '
                    'instruction of every code object maps to line -1 there' % (ver, what), CODEGEN, by_norm[writers[0]]['line'] if writers else None)
            continue
        enc = [f for f in fx.file(CO)['fns'] if T.last_seg(T.norm(f['path'])) == ent[0]]
        if not chk.need(len(enc) == 1, 'CodeObj::into_bytes: the %s encoder `%s` was not found' % (ver, ent[0])):
            continue
        bodies = [enc[0]['body']] + [f['body'] for f in fx.file(CO)['fns'] if f['path'].startswith(enc[0]['path'] + '::')]      # nested helper fns
        lits = {T.lit_int(n) for b_ in bodies for n in T.walk(b_) if n.get('k') == 'Lit' and T.lit_int(n) is not None}
        # literals written in hex / negative forms are covered by lit_int; -127 appears as a negated 127
        missing = sorted(need_consts - lits)
        present_forbidden = sorted(forbid & lits)
        others = {vv: table[vv][0] for vv in (7, 8, 9, 10, 11) if vv in table}
        if missing or present_forbidden:
            chk.bad('C14-R7', 'CodeObj::' + ent[0], 'constants@' + ver, 'the %s encoder %s lacks the constants of the format (%s: missing %s%s): chunk limits / entry code / varint radix decide how '
                    'CPython splits the table' % (ver, ent[0], what, missing, ', unexpected %s' % present_forbidden if present_forbidden else ''), CO, enc[0].get('line'))
        elif any(others.get(vv) != 'raw' for vv in (7, 8, 9)) or others.get(10) == others.get(11):
            chk.bad('C14-R7', 'CodeObj::into_bytes', 'dispatch@' + ver, 'the line-table format is chosen as %s: 3.7-3.9 need the raw co_lnotab pairs and 3.10 / 3.11 two different encoders' % others,
                    CO, ib.get('line'))
        else:
            chk.ok('C14-R7', ver, sample='%s -> %s (constants %s)' % (ver, ent[0], sorted(need_consts)))
    # the conversion reads co_lnotab as (unsigned address increment, signed line increment) pairs
    lr = [f for f in fx.file(CO)['fns'] if T.last_seg(T.norm(f['path'])) == 'line_ranges']
    if lr:
        types = fx.file(CO)['types']
        signed = any(n.get('k') == 'Cast' and types[n['ty']] == 'i8' for n in T.walk(lr[0]['body']))
        pairs = any(c.get('k') == 'MCall' and c['n'] in ('chunks_exact', 'chunks') and T.lit_int(T.peel(c['a'][0])) == 2 for c in T.calls(lr[0]['body']))
        if signed and pairs:
            chk.ok('C14-R7', 'line_ranges', sample='co_lnotab read as pairs with a signed line increment')
        else:
            chk.bad('C14-R7', 'CodeObj::line_ranges', 'pairs', 'line_ranges does not read co_lnotab as pairs of (address increment, *signed* line increment): a negative line step (a loop '
                    'jumping back) becomes a jump of +200 lines on 3.10 / 3.11', CO, lr[0].get('line'))


def call_pairing_rule(chk, by_norm, rid='C14-R5', diverging_only=False):
    from sa.kinds import callproto as CP
    chk.rule(rid, ('(version-dependent instances only) ' if diverging_only else '') + 'a method call loads its callee in the form its call instruction consumes, for every combination of target version, keyword arguments, *args, **kwargs and '
                       'method-ness: LOAD_METHOD (the two-slot pair) only with CALL_METHOD (<= 3.10) or PRECALL/CALL (3.11); CALL_FUNCTION_KW (<= 3.10) and CALL_FUNCTION_EX only with '
                       'a plain callable (LOAD_ATTR; on 3.11 after PUSH_NULL); the access kind given to the load is the one given to the call (64 truth assignments, paths of '
                       'emit_call_method with emit_args_311 inlined)')
    entry = 'PyCodeGenerator::emit_call_method'
    if not chk.need(entry in by_norm and 'PyCodeGenerator::emit_args_311' in by_norm, 'emit_call_method / emit_args_311 not found'):
        return
    events = {'emit_push_null', 'emit_load_method_instr', 'emit_load_attr_instr', 'emit_call_kw_instr', 'emit_call_instr', 'write_instr', 'emit_index_args'}
    res, unknown = CP.enumerate_paths(by_norm, entry, {'emit_args_311': 'PyCodeGenerator::emit_args_311'}, events)
    chk.need(not unknown, 'emit_call_method: the access kind of a load / call could not be evaluated (%s)' % unknown[:2])
    ncomb = 0
    reported = set()
    broken = {}       # assignment without the version atom -> set of versions with a problem
    found = []
    for bits, traces in sorted(res.items()):
        asg = dict(zip(CP.ATOMS, bits))
        for tr in traces:
            names = [e[0] for e in tr]
            loads = [e for e in tr if e[0] in ('emit_load_method_instr', 'emit_load_attr_instr')]
            calls = [e for e in tr if e[0] in ('emit_call_kw_instr', 'emit_call_instr', 'write_instr', 'emit_index_args')]
            if not loads or not calls:
                continue          # return / yield / fake-method paths: another protocol
            ncomb += 1
            ld, cl = loads[-1], calls[-1]
            pair = ld[0] == 'emit_load_method_instr' and ld[1] == 'BoundAttr'
            null = 'emit_push_null' in names[:names.index(ld[0]) + 1]
            v11 = asg['v11']
            problem = None
            if ld[0] == 'emit_load_method_instr' and ld[1] == 'UnboundAttr' and v11:
                problem = 'emit_load_method_instr(UnboundAttr) on 3.11 writes LOAD_ATTR with the inline cache of LOAD_METHOD'
            elif cl[0] == 'emit_index_args':
                problem = None if not null else 'a subscript takes no NULL below the object'
            elif cl[0] == 'write_instr':
                if pair:
                    problem = '%s consumes a plain callable but the callee was loaded with LOAD_METHOD (two stack slots)' % cl[1]
                elif v11 and not null:
                    problem = '%s on 3.11 needs PUSH_NULL below the callable' % cl[1]
            elif cl[0] == 'emit_call_kw_instr':
                if not v11 and pair:
                    problem = 'CALL_FUNCTION_KW (<= 3.10) consumes a plain callable but the callee was loaded with LOAD_METHOD'
                elif v11 and not pair and not null:
                    problem = 'PRECALL/CALL on 3.11 needs PUSH_NULL below a callable loaded with LOAD_ATTR'
            elif cl[0] == 'emit_call_instr':
                if not v11 and (cl[1] == 'BoundAttr') != pair:
                    problem = 'the call is emitted for access kind %s but the callee was loaded as %s' % (cl[1], 'a LOAD_METHOD pair' if pair else 'a plain callable')
                elif v11 and not pair and not null:
                    problem = 'PRECALL/CALL on 3.11 needs PUSH_NULL below a callable loaded with LOAD_ATTR'
            inst = '%s->%s' % ('LOAD_METHOD' if pair else 'LOAD_ATTR', {'write_instr': cl[1], 'emit_call_kw_instr': 'CALL_KW', 'emit_call_instr': 'CALL', 'emit_index_args': 'SUBSCR'}[cl[0]])
            rest = tuple(b for a, b in zip(CP.ATOMS, bits) if a != 'v11')
            if problem is not None:
                broken.setdefault(rest, set()).add(v11)
            found.append((inst, bits, rest, v11, problem, cl[2], asg))
    for inst, bits, rest, v11, problem, line, asg in found:
        if problem is not None and diverging_only and broken.get(rest) == {True, False}:
            problem = None          # the same failure on every target: not a difference between targets (C14 reports it)
        if problem is None:
            chk.ok(rid, (inst, bits))
        else:
            key = (inst, v11)
            if key in reported:
                continue
            reported.add(key)
            cond = ', '.join('%s=%s' % (a, 'yes' if asg[a] else 'no') for a in CP.ATOMS)
            chk.bad(rid, entry, '%s@%s' % (inst, '3.11' if v11 else '<=3.10'), 'emit_call_method: %s (reached with %s): the interpreter calls the wrong object / corrupts the stack%s'
                    % (problem, cond, '; other targets run the same call correctly' if diverging_only else ''), CODEGEN, line)
    chk.floor('method-call load/call combinations analysed', ncomb, 150)


def index_space_rule(chk, by_norm, roots, ref):
    chk.rule('C14-R4', 'the operand written after an index-taking opcode is a position in the table that opcode indexes under the target version: names for name opcodes, consts for '
                       'LOAD_CONST, varnames for fast locals (and for LOAD_CLOSURE under 3.11), cellvars/freevars for LOAD_CLOSURE / *_DEREF under <= 3.10 '
                       '(origin traced to `.position(..)` over a table or to the index of `table.iter().enumerate()`; unknown origins are not judged)')
    judged = 0
    found = {}
    for v in VERSIONS:
        spec = VS.Spec(v)
        reach = VS.reachable_methods(by_norm, roots, spec)
        for fname in sorted(reach):
            f = by_norm[fname]
            env = VS.let_env(f)
            # bindings of `for (i, x) in TABLE.iter().enumerate()`
            loop_binds = {}
            for n in T.walk(f['body']):
                if n.get('k') == 'Match' and n.get('src') == 'ForLoopDesugar' and '.enumerate()' in T.show(n['x']):
                    t = table_in(n['x'])
                    if t:
                        for m in T.walk(n):
                            if m.get('k') == 'Match' and m is not n:
                                for arm in m['arms']:
                                    for q in T.walk(arm['pat']):
                                        if q.get('k') == 'PTuple' and q['p'] and q['p'][0].get('k') == 'Bind':
                                            loop_binds[q['p'][0]['n']] = t
            for blk in VS.walk_feasible(f['body'], spec):
                if blk.get('k') != 'Block':
                    continue
                ss = [T.unsemi(x) for x in blk.get('s', [])] + ([blk['e']] if 'e' in blk else [])
                for i, st in enumerate(ss):
                    if st.get('k') == 'If':
                        # `if <version test> { ..; write_instr(A) } else { ..; write_instr(B) }  write_arg(x)`: the branch taken under v supplies the opcode
                        c = spec.cond(st['c'])
                        br = st['t'] if c is True else (st.get('e') if c is False else None)
                        br = T.peel(br) if br else None
                        if br and br.get('k') == 'Block':
                            inner = [T.unsemi(x) for x in br.get('s', [])] + ([br['e']] if 'e' in br else [])
                            if inner and inner[-1].get('k') == 'MCall' and inner[-1]['n'] == 'write_instr':
                                st = inner[-1]
                    if not (st.get('k') == 'MCall' and st['n'] == 'write_instr' and st['a']):
                        continue
                    vals, comp = VS.const_values(st['a'][0], spec, env)
                    names = {x.split('::')[-1] for kk, x in vals if kk == 'variant'}
                    if not names or not comp or len(names) != 1:
                        continue
                    op = next(iter(names))
                    want = expected_space(op, v, ref)
                    if want is None:
                        continue
                    for nxt in ss[i + 1:i + 3]:
                        if nxt.get('k') == 'MCall' and nxt['n'] == 'write_arg' and nxt['a']:
                            got = space_of(nxt['a'][0], f, spec, env, loop_binds)
                            if got is None:
                                break
                            judged += 1
                            if got <= want or (got & want and op in ('LOAD_DEREF', 'STORE_DEREF')):
                                chk.ok('C14-R4', (v, fname, op), sample='%s @3.%d: %s operand from %s' % (fname, v, op, sorted(got)) if judged % 7 == 0 else None)
                            else:
                                found.setdefault((fname, op, tuple(sorted(got))), (set(), nxt['l'], want))[0].add(v)
                            break
    for (fname, op, got), (vs, line, want) in sorted(found.items()):
        chk.bad('C14-R4', fname, '%s<-%s' % (op, '+'.join(got)), '%s writes an index into %s as the operand of %s, which indexes %s under 3.%s: the index can be out of range or name another variable'
                % (fname, '/'.join(got), op, '/'.join(sorted(want)), ', 3.'.join(str(x) for x in sorted(vs))), CODEGEN, line)
    chk.floor('operands with a traced index space (site x version)', judged, 5)
