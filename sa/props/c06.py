"""C06  numeric tower, top and bottom rows of Context::cheap_supertype_of  (K1, exhaustive for the rows)"""
from sa import facts as F, tree as T, matcheval as M

TOWER = ['Bool', 'Nat', 'Int', 'Ratio', 'Float', 'Complex']   # ascending: each is a subtype of the next
FILE = 'crates/erg_compiler/context/compare.rs'


COMPARE = 'crates/erg_compiler/context/compare.rs'


class NotFormula(Exception):
    pass


def formula(e, binds):
    """quantifier formula of an arm body of structural_supertype_of over the bound sets / elements:
       ('all', set, var, F) ('any', set, var, F) ('rel', a, b) ('and'|'or', F, G) ('not', F) ('cmp', op, ('len', X), ('len', Y)|int) ('empty', X) ('const', b)"""
    e = T.peel(e)
    k = e.get('k')
    if k == 'Block' and 'e' in e and not e.get('s'):
        return formula(e['e'], binds)
    if k == 'Lit' and isinstance(e.get('v'), dict) and 'bool' in e['v']:
        return ('const', e['v']['bool'])
    if k == 'Binary' and e.get('op') in ('&&', '||'):
        return ('and' if e['op'] == '&&' else 'or', formula(e['x'], binds), formula(e['y'], binds))
    if k == 'Unary' and e.get('op') == '!':
        return ('not', formula(e['x'], binds))
    if k == 'Binary' and e.get('op') in ('<', '<=', '>', '>=', '==', '!='):
        def side(x):
            x = T.peel(x)
            if x.get('k') == 'MCall' and x['n'] == 'len' and T.peel(x['r']).get('k') == 'Local' and T.peel(x['r'])['n'] in binds:
                return ('len', T.peel(x['r'])['n'])
            v = T.lit_int(x)
            if v is not None:
                return v
            raise NotFormula(T.show(x)[:30])
        return ('cmp', e['op'], side(e['x']), side(e['y']))
    if k == 'MCall' and e['n'] == 'is_empty' and T.peel(e['r']).get('k') == 'Local' and T.peel(e['r'])['n'] in binds:
        return ('empty', T.peel(e['r'])['n'])
    if k == 'MCall' and e['n'] in ('all', 'any') and e['a']:
        r = T.peel(e['r'])
        if r.get('k') == 'MCall' and r['n'] in ('iter', 'into_iter') and T.peel(r['r']).get('k') == 'Local' and T.peel(r['r'])['n'] in binds:
            src = T.peel(r['r'])['n']
            clo = T.peel(e['a'][0])
            if clo.get('k') == 'Closure' and len(clo.get('params', [])) == 1 and clo['params'][0].get('k') == 'Bind':
                v = clo['params'][0]['n']
                # an inner variable may shadow the set of the same name: the closure parameter wins inside
                return (e['n'], src, v + '#' + str(clo['params'][0].get('id')), formula_sub(clo['b'], binds, {v: v + '#' + str(clo['params'][0].get('id'))}))
    if k in ('MCall', 'Call') and T.last_seg(T.callee(e) or '') in ('supertype_of', 'subtype_of'):
        args = e['a'] if k == 'MCall' else e['a'][1:]
        if len(args) >= 2:
            a, b = term(args[0], binds), term(args[1], binds)
            return ('rel', a, b) if T.last_seg(T.callee(e)) == 'supertype_of' else ('rel', b, a)
    raise NotFormula(T.show(e)[:40])


def formula_sub(e, binds, ren):
    b2 = dict(binds)
    b2.update({'@ren': dict(binds.get('@ren', {}), **ren)})
    return formula(e, b2)


def term(e, binds):
    e = T.peel(e)
    if e.get('k') == 'Local':
        ren = binds.get('@ren', {})
        return ren.get(e['n'], e['n'])
    raise NotFormula(T.show(e)[:30])


def quantifier_structure(chk, m, rid):
    """every arm whose sub side is a union quantifies over all its members, every arm whose super side is a union over some member"""
    n = 0
    for arm in m['arms']:
        p = arm['pat']
        if p.get('k') != 'PTuple' or len(p['p']) != 2 or arm.get('g'):
            continue

        def orbind(q):
            if q.get('k') == 'PTupleStruct' and q['d'].split('::')[-1] == 'Or' and len(q['p']) == 1 and q['p'][0].get('k') == 'Bind':
                return q['p'][0]['n']
            return None
        l, r = orbind(p['p'][0]), orbind(p['p'][1])
        if (l is None) == (r is None):
            continue
        # the top-level connective of the arm body
        b = T.peel(arm['b'])
        while b.get('k') == 'Block' and 'e' in b and not b.get('s'):
            b = T.peel(b['e'])
        top = None
        if b.get('k') == 'MCall' and b['n'] in ('all', 'any'):
            rr = T.peel(b['r'])
            if rr.get('k') == 'MCall' and rr['n'] in ('iter', 'into_iter') and T.peel(rr['r']).get('k') == 'Local':
                top = (b['n'], T.peel(rr['r'])['n'])
        if top is None:
            continue
        n += 1
        side = 'sub' if r is not None else 'super'
        want = 'all' if side == 'sub' else 'any'
        inst = '%s:%s' % (T.show(p)[:40].replace(' ', ''), side)
        if top == (want, r if r is not None else l):
            chk.ok(rid, ('quantifier', inst), sample='%s => %s over the members of the %s-side union' % (T.show(p)[:40], want, side))
        else:
            chk.bad(rid, 'Context::structural_supertype_of', 'quantifier:' + inst, 'the arm `%s` answers with `%s` over `%s`: %s' % (
                T.show(p)[:50], top[0], top[1], 'a type is a supertype of a union only if it is a supertype of every member — with `any`, `{"a", "b"}` covers `{"a", "b"} or Int` and a '
                'match with arms for "a" and "b" only is taken as exhaustive' if side == 'sub' else 'a union is a supertype of a type as soon as one member is'), COMPARE, arm['l'])
    chk.floor('single-union arms of structural_supertype_of', n, 3)


def reduce_rule(chk, fx, rid):
    """Context::reduce_preds drops redundant members of a conjunction ("and": the weaker of two comparable predicates) or of a disjunction ("or": the stronger);
    the mode must be the connective the member set was taken apart with, and the two tests inside must be the ones of that connective"""
    CMP = 'crates/erg_compiler/context/compare.rs'
    chk.rule(rid, 'Context::reduce_preds is called with the mode of the connective its argument was decomposed by (`.ands()` with "and", `.ors()` with "or"), and inside it "and" drops '
                  'the member that is a super-predicate of another (keeps the tighter bound), "or" the sub-predicate: reducing the conjuncts of `0..10 and 5..20` in "or" mode '
                  'leaves `0..20`, so `3..7 <: (0..10 and 5..20)` holds while `3..7 <: 5..20` does not (transitivity)')
    n = 0
    for f in fx.file(CMP)['fns']:
        for c in T.calls(f['body']):
            if c.get('k') == 'MCall' and c['n'] == 'reduce_preds' and len(c['a']) == 2:
                n += 1
                mode = T.peel(c['a'][0])
                mv = mode.get('v') if mode.get('k') == 'Lit' else None
                mv = mv.get('str') if isinstance(mv, dict) else mv
                src = [x['n'] for x in T.calls(c['a'][1]) if x.get('k') == 'MCall' and x['n'] in ('ands', 'ors')]
                key = '%s:%s' % (T.norm(f['path']), T.norm(T.show(c['a'][1]))[:40])
                if mv is None or len(src) != 1:
                    chk.need(False, 'reduce_preds call with an unrecognised mode / argument: %s' % T.show(c)[:80])
                    continue
                want = 'and' if src[0] == 'ands' else 'or'
                if str(mv).strip('"') == want:
                    chk.ok(rid, key, sample=T.show(c)[:80])
                else:
                    chk.bad(rid, T.norm(f['path']), 'mode:' + T.norm(T.show(c['a'][1]))[:40], '%s reduces `%s` in "%s" mode: of two comparable members the %s one is kept, which %s the type '
                            'the predicate denotes' % (T.norm(f['path']), T.show(c['a'][1])[:40], str(mv).strip('"'), 'weaker' if want == 'and' else 'stronger',
                                                       'widens' if want == 'and' else 'narrows'), CMP, c.get('l'))
    chk.floor('reduce_preds call sites', n, 4)
    rp = fx.fn(CMP, 'Context::reduce_preds')
    # the two match-on-mode tables inside: (remove-existing test, keep-out test)
    tables = []
    for m in T.walk(rp['body']):
        if m.get('k') == 'Match' and T.show(T.peel(m['x'])) == 'mode':
            row = {}
            for arm in m['arms']:
                p = arm['pat']
                lit = p.get('v') if p.get('k') == 'PLit' else None
                lit = lit.get('str') if isinstance(lit, dict) else lit
                if lit is None:
                    continue
                body = T.peel(arm['b'])
                neg = False
                if body.get('k') == 'Unary' and body.get('op') == '!':
                    neg, body = True, T.peel(body['x'])
                if body.get('k') == 'MCall' and body['n'] in ('is_super_pred_of', 'is_sub_pred_of'):
                    args = [T.show(T.peel(a)) for a in body['a']]
                    row[str(lit).strip('"')] = (neg, body['n'], tuple(args))
            tables.append((m, row))
    if not chk.need(len(tables) == 2 and all(set(r) == {'and', 'or'} for _, r in tables), 'reduce_preds: the two `match mode` tables were not recognised'):
        return
    want = [{'and': (False, 'is_super_pred_of'), 'or': (False, 'is_sub_pred_of')}, {'and': (True, 'is_sub_pred_of'), 'or': (True, 'is_super_pred_of')}]
    for i, ((m, row), w) in enumerate(zip(tables, want)):
        for mode in ('and', 'or'):
            neg, fnm, args = row[mode]
            # normalise argument order: (existing, pred); swapped arguments flip the relation
            rel = fnm
            if len(args) == 2 and 'existing' in args[1] and 'pred' in args[0]:
                rel = 'is_sub_pred_of' if fnm == 'is_super_pred_of' else 'is_super_pred_of'
            key = 'table%d:%s' % (i, mode)
            if (neg, rel) == w[mode]:
                chk.ok(rid, key)
            else:
                chk.bad(rid, 'Context::reduce_preds', key, 'reduce_preds, "%s" mode, %s test: `%s%s(%s)`; for a %s the member to %s is the %s one' %
                        (mode, 'removal' if i == 0 else 'insertion', '!' if neg else '', fnm, ', '.join(args), 'conjunction' if mode == 'and' else 'disjunction',
                         'drop' if i == 0 else 'keep out', 'weaker (super-predicate)' if mode == 'and' else 'stronger (sub-predicate)'), CMP, m.get('l'))


def widen_rule(chk, fx, rid):
    """a positive answer of `lhs :> rhs` may be derived from a *wider rhs* (lhs :> widen(rhs) implies lhs :> rhs), never from a wider lhs"""
    chk.rule(rid, 'no arm of Context::structural_supertype_of answers `true` because a widened copy of the super side (`l.derefine()`: refinements replaced by their base types) is a '
                  'supertype of the sub side: `{1} or Str` widened is `Nat or Str`, which contains the 2 of `{1, 2}`')
    f = fx.fn(COMPARE, 'Context::structural_supertype_of')
    ms = [n for n in T.walk(f['body']) if n.get('k') == 'Match' and n.get('src') == 'Normal']
    if not chk.need(ms, 'structural_supertype_of: no match'):
        return
    m = max(ms, key=lambda n: len(n['arms']))
    nwid = 0
    for arm in m['arms']:
        p = arm['pat']
        first = p['p'][0] if p.get('k') == 'PTuple' and p.get('p') else None
        super_names = {'lhs'} | (set(T.pat_bindings(first)) if first is not None else set())
        widened = {}
        for n in T.walk(arm['b']):
            if n.get('k') == 'Let' and n.get('init') is not None:
                init = T.peel(n['init'])
                if init.get('k') == 'MCall' and init['n'] == 'derefine' and T.peel(init['r']).get('k') == 'Local' and T.peel(init['r'])['n'] in super_names:
                    for b in T.walk(n['pat']):
                        if b.get('k') == 'Bind':
                            widened[b['id']] = n
        if not widened:
            continue
        for n in T.walk(arm['b']):
            if n.get('k') != 'If':
                continue
            uses = False
            for c in T.calls(n['c']):
                if c.get('k') == 'MCall' and c['n'] in ('supertype_of', 'structural_supertype_of') and c['a'] and any(x.get('k') == 'Local' and x.get('id') in widened for x in T.walk(c['a'][0])):
                    uses = True
                if c.get('k') == 'MCall' and c['n'] in ('subtype_of',) and len(c['a']) > 1 and any(x.get('k') == 'Local' and x.get('id') in widened for x in T.walk(c['a'][1])):
                    uses = True
            yes = any(r.get('k') == 'Ret' and T.show(T.peel(r.get('x') or {})) == 'true' for r in T.walk(n['t'])) or T.show(T.peel(n['t'])) in ('true', '{ true }')
            if uses and yes:
                nwid += 1
                chk.bad(rid, 'Context::structural_supertype_of', 'widened-super:' + T.norm(T.show(p))[:40], 'the arm `%s` answers true when the derefined (widened) super side is a supertype '
                        'of the sub side: `g(x: {1} or Str)` accepts a value of type {1, 2}, and a match over `x: {1, 2}` with the arms `1` and `(s: Str)` is accepted as exhaustive' %
                        T.show(p)[:40], COMPARE, n.get('l'))
    if nwid == 0:
        chk.ok(rid, 'no-widened-super', sample='no positive answer is derived from lhs.derefine()')


def union_rule(chk, fx):
    import itertools
    chk.rule('C06-union', 'subtyping of unions is a preorder: the three union arms of Context::structural_supertype_of — (Or, Or), (Or, t) and (t, Or) — are read as quantifier formulas '
                          '(all / any / supertype_of / len / is_empty / && || !) and evaluated over every type of a finite model (five atoms s, n, t < e and f, all unions of two or '
                          'three atoms): the resulting relation must be reflexive and transitive')
    f = fx.fn(COMPARE, 'Context::structural_supertype_of')
    ms = [n for n in T.walk(f['body']) if n.get('k') == 'Match' and n.get('src') == 'Normal']
    if not chk.need(ms, 'structural_supertype_of: no match'):
        return
    m = max(ms, key=lambda n: len(n['arms']))
    arms = {}
    for arm in m['arms']:
        p = arm['pat']
        if p.get('k') != 'PTuple' or len(p['p']) != 2 or arm.get('g'):
            continue

        def shape(q):
            if q.get('k') == 'PTupleStruct' and q['d'].split('::')[-1] == 'Or' and len(q['p']) == 1 and q['p'][0].get('k') == 'Bind':
                return ('Or', q['p'][0]['n'])
            if q.get('k') == 'Bind':
                return ('t', q['n'])
            return None
        a, b = shape(p['p'][0]), shape(p['p'][1])
        if a and b and 'Or' in (a[0], b[0]):
            arms.setdefault((a[0], b[0]), (arm, a[1], b[1]))
    if not chk.need(set(arms) == {('Or', 'Or'), ('Or', 't'), ('t', 'Or')}, 'structural_supertype_of: union arms found: %s' % sorted(arms)):
        return
    forms = {}
    for key, (arm, ln, rn) in arms.items():
        try:
            forms[key] = (formula(arm['b'], {ln: key[0], rn: key[1]}), ln, rn, arm)
        except NotFormula as ex:
            chk.need(False, 'structural_supertype_of: the %s arm is outside the formula fragment (%s)' % (key, ex))
            return
    quantifier_structure(chk, m, 'C06-union')
    atoms = ['s', 'n', 't', 'e', 'f']
    below = {(x, x) for x in atoms} | {('s', 'e'), ('n', 'e'), ('t', 'e')}          # (sub, super)
    types = [('a', x) for x in atoms] + [('u', frozenset(c)) for k_ in (2, 3) for c in itertools.combinations(atoms, k_)]
    memo = {}

    def sup(A, B):
        """A :> B in the model"""
        key = (A, B)
        if key in memo:
            return memo[key]
        memo[key] = False          # (no recursion through the same pair in this fragment)
        if A[0] == 'a' and B[0] == 'a':
            r = (B[1], A[1]) in below
        else:
            k2 = ('Or' if A[0] == 'u' else 't', 'Or' if B[0] == 'u' else 't')
            F_, ln, rn, _ = forms[k2]
            env = {ln: A, rn: B}
            r = ev(F_, env)
        memo[key] = r
        return r

    def val(x, env):
        v = env[x]
        return v

    def ev(F_, env):
        t = F_[0]
        if t == 'const':
            return F_[1]
        if t in ('and', 'or'):
            a = ev(F_[1], env)
            if t == 'and':
                return a and ev(F_[2], env)
            return a or ev(F_[2], env)
        if t == 'not':
            return not ev(F_[1], env)
        if t == 'empty':
            return len(env[F_[1]][1]) == 0
        if t == 'cmp':
            def num(x):
                return x if isinstance(x, int) else len(env[x[1]][1])
            a, b = num(F_[2]), num(F_[3])
            return {'<': a < b, '<=': a <= b, '>': a > b, '>=': a >= b, '==': a == b, '!=': a != b}[F_[1]]
        if t in ('all', 'any'):
            members = [('a', x) for x in sorted(env[F_[1]][1])]
            it = (ev(F_[3], dict(env, **{F_[2]: mbr})) for mbr in members)
            return all(it) if t == 'all' else any(it)
        if t == 'rel':
            return sup(env[F_[1]], env[F_[2]])
        raise NotFormula(t)
    try:
        bad_refl = [A for A in types if not sup(A, A)]
        bad_trans = None
        for A, B in itertools.product(types, repeat=2):
            if not sup(A, B):
                continue
            for C in types:
                if sup(B, C) and not sup(A, C):
                    bad_trans = (A, B, C)
                    break
            if bad_trans:
                break
    except (KeyError, NotFormula) as ex:
        chk.need(False, 'structural_supertype_of: the union arms could not be evaluated in the model (%s)' % ex)
        return

    def show(X):
        return X[1] if X[0] == 'a' else ' or '.join(sorted(X[1]))
    chk.analysed['types in the union model'] = len(types)
    if bad_refl:
        chk.bad('C06-union', 'Context::structural_supertype_of', 'reflexive', 'with the union arms as written, `%s` is not a supertype of itself' % show(bad_refl[0]), COMPARE, arms[('Or', 'Or')][0]['l'])
    else:
        chk.ok('C06-union', 'reflexive', sample='reflexive on %d model types' % len(types))
    if bad_trans:
        A, B, C = bad_trans
        chk.bad('C06-union', 'Context::structural_supertype_of', 'transitive', 'with the union arms as written (atoms s, n, t <: e; f unrelated): `%s` :> `%s` and `%s` :> `%s` hold but '
                '`%s` :> `%s` does not — subtyping of unions is not transitive' % (show(A), show(B), show(B), show(C), show(A), show(C)), COMPARE, arms[('Or', 'Or')][0]['l'])
    else:
        chk.ok('C06-union', 'transitive', sample='transitive on %d^3 triples' % len(types))


def run(chk):
    fx = F.Facts()
    chk.rule('C06-tower', 'for all a,b in Bool<Nat<Int<Ratio<Float<Complex: cheap_supertype_of(a,b) never answers (Absolutely,false) when a >= b '
                          'and never (Absolutely,true) when a < b (arms evaluated in order with their guards)')
    chk.rule('C06-top-bottom', 'cheap_supertype_of(Obj, x) and cheap_supertype_of(x, Never) are (Absolutely,true) for every built-in x; '
                               '(x, Obj) for x != Obj and (Never, x) for x != Never are never (Absolutely,true)')
    chk.rule('C06-refl', 'the function starts with `if lhs == rhs { return (Absolutely, true) }`')
    fn = fx.fn(FILE, 'Context::cheap_supertype_of')
    types = fn['_types']
    params = [p.get('n') for p in fn['params']]
    if not chk.need(len(params) == 2, 'cheap_supertype_of: expected two parameters'):
        return 'anchor lost', {}
    L, R = params
    body = fn['body']
    stmts = T.stmts_of(body)
    # reflexivity prefix
    first = T.unsemi(stmts[0]) if stmts else {}
    refl = False
    if first.get('k') == 'If':
        c = T.peel(first['c'])
        if c.get('k') == 'Binary' and c['op'] == '==' and {T.show(c['x']), T.show(c['y'])} == {L, R}:
            rets = [n for n in T.walk(first['t']) if n.get('k') == 'Ret']
            if rets and result_of(rets[0].get('x')) == ('Absolutely', True):
                refl = True
    if refl:
        chk.ok('C06-refl', 'prefix', sample='if lhs == rhs { return (Absolutely, true) }')
    else:
        chk.bad('C06-refl', 'Context::cheap_supertype_of', 'prefix', 'the reflexive short-cut `if lhs == rhs {return (Absolutely,true)}` no longer opens the function',
                FILE, fn['line'])
    ms = [n for n in stmts if T.unsemi(n).get('k') == 'Match']
    if not chk.need(len(ms) == 1, 'cheap_supertype_of: expected one top-level match'):
        return 'anchor lost', {}
    m = T.unsemi(ms[0])
    scr = T.peel(m['x'])
    if not chk.need(scr.get('k') == 'Tup' and [T.show(a) for a in scr['a']] == [L, R], 'cheap_supertype_of: scrutinee is not (lhs, rhs)'):
        return 'anchor lost', {}
    chk.floor('arms', len(m['arms']), 12)
    pred = fx.fn('crates/erg_compiler/ty/mod.rs', 'Type::is_mono_value_class')
    tset, fset, default = M.variant_predicate(pred)
    chk.need(default is False, 'Type::is_mono_value_class: default arm is not `_ => false`')

    def guard(g, l, r):
        """evaluate a guard for unit values l, r; raises Unknown"""
        g = T.peel(g)
        k = g.get('k')
        if k == 'Binary' and g['op'] in ('&&', '||'):
            a, b = guard(g['x'], l, r), guard(g['y'], l, r)
            return (a and b) if g['op'] == '&&' else (a or b)
        if k == 'Unary' and g['op'] == '!':
            return not guard(g['x'], l, r)
        if k == 'MCall' and g['n'] == 'is_mono_value_class' and (T.callee(g) or '').endswith('Type::is_mono_value_class'):
            recv = T.show(T.peel(g['r']))
            v = {L: l, R: r}.get(recv)
            if v is None:
                # arm-local rebinding `(lhs, rhs) if ...`
                raise M.Unknown('guard receiver ' + recv)
            return v in tset
        raise M.Unknown('guard ' + T.show(g))

    def evaluate(l, r):
        if l == r:
            return ('Absolutely', True), 'refl' if refl else None
        for arm in m['arms']:
            try:
                if not M.pat_matches(arm['pat'], (l, r)):
                    continue
                if 'g' in arm:
                    # arm-local bindings that shadow lhs/rhs with the same positions are handled by name
                    binds = arm_rebinding(arm['pat'], L, R)
                    gl, gr = l, r
                    if not guard_with(arm['g'], binds, l, r):
                        continue
                res = result_of(arm['b'])
                return res, arm['l']
            except M.Unknown as e:
                return None, 'arm %s: %s' % (T.show(arm['pat']), e)
        return None, 'no arm'

    def guard_with(g, binds, l, r):
        g = T.peel(g)
        k = g.get('k')
        if k == 'Binary' and g['op'] in ('&&', '||'):
            a = guard_with(g['x'], binds, l, r)
            b = guard_with(g['y'], binds, l, r)
            return (a and b) if g['op'] == '&&' else (a or b)
        if k == 'Unary' and g['op'] == '!':
            return not guard_with(g['x'], binds, l, r)
        if k == 'MCall' and (T.callee(g) or '').endswith('Type::is_mono_value_class'):
            recv = T.show(T.peel(g['r']))
            pos = binds.get(recv)
            if pos is None:
                raise M.Unknown('guard receiver ' + recv)
            return (l if pos == 0 else r) in tset
        raise M.Unknown('guard ' + T.show(g))

    def arm_rebinding(pat, L, R):
        b = {L: 0, R: 1}
        if pat.get('k') == 'PTuple' and len(pat['p']) == 2:
            for i, q in enumerate(pat['p']):
                if q.get('k') == 'Bind' and 'sub' not in q:
                    b[q['n']] = i
        return b

    idx = {t: i for i, t in enumerate(TOWER)}
    for a in TOWER:
        for b in TOWER:
            res, where = evaluate(a, b)
            want = idx[a] >= idx[b]
            inst = '%s:>%s' % (a, b)
            if res is None:
                chk.lost.append('cheap_supertype_of(%s,%s) could not be evaluated: %s' % (a, b, where))
            elif res[0] == 'Maybe':
                chk.undecide('cheap_supertype_of(%s,%s) = (Maybe,%s): left to the nominal check' % (a, b, res[1]))
                chk.ok('C06-tower', inst)
            elif res[1] == want:
                chk.ok('C06-tower', inst, sample='cheap_supertype_of(%s,%s) = (Absolutely,%s)' % (a, b, str(res[1]).lower()))
            else:
                chk.bad('C06-tower', 'Context::cheap_supertype_of', inst,
                        'cheap_supertype_of(%s, %s) answers (Absolutely, %s) but %s %s a supertype of %s in the numeric tower'
                        % (a, b, str(res[1]).lower(), a, 'is' if want else 'is not', b), FILE, where if isinstance(where, int) else fn['line'])
    others = sorted((tset | {'Never', 'Obj'}))
    chk.floor('builtin_unit_types', len(others), 15)
    for x in others:
        for (l, r, want, lab) in [('Obj', x, True, 'Obj:>%s' % x), (x, 'Never', True, '%s:>Never' % x)]:
            res, where = evaluate(l, r)
            if res == ('Absolutely', True):
                chk.ok('C06-top-bottom', lab)
            else:
                chk.bad('C06-top-bottom', 'Context::cheap_supertype_of', lab,
                        'cheap_supertype_of(%s, %s) = %s, expected (Absolutely, true)' % (l, r, res), FILE, where if isinstance(where, int) else fn['line'])
        if x != 'Obj':
            res, where = evaluate(x, 'Obj')
            if res == ('Absolutely', True):
                chk.bad('C06-top-bottom', 'Context::cheap_supertype_of', '%s:>Obj' % x, 'cheap_supertype_of(%s, Obj) = (Absolutely,true): %s would be above Obj' % (x, x),
                        FILE, where if isinstance(where, int) else fn['line'])
            else:
                chk.ok('C06-top-bottom', '%s!:>Obj' % x)
        if x != 'Never':
            res, where = evaluate('Never', x)
            if res == ('Absolutely', True):
                chk.bad('C06-top-bottom', 'Context::cheap_supertype_of', 'Never:>%s' % x, 'cheap_supertype_of(Never, %s) = (Absolutely,true)' % x,
                        FILE, where if isinstance(where, int) else fn['line'])
            else:
                chk.ok('C06-top-bottom', 'Never!:>%s' % x)
    # cheap_subtype_of must be the flipped call
    sub = fx.fn(FILE, 'Context::cheap_subtype_of')
    cs = [c for c in T.calls(sub['body']) if (T.callee(c) or '').endswith('cheap_supertype_of')]
    sp = [p.get('n') for p in sub['params']]
    if len(cs) == 1 and [T.show(T.peel(a)) for a in cs[0]['a']] == list(reversed(sp)):
        chk.ok('C06-tower', 'cheap_subtype_of-flip', sample='cheap_subtype_of(l, r) = cheap_supertype_of(r, l)')
    else:
        chk.bad('C06-tower', 'Context::cheap_subtype_of', 'flip', 'cheap_subtype_of(lhs, rhs) is not cheap_supertype_of(rhs, lhs)', FILE, sub['line'])
    union_rule(chk, fx)
    from sa.kinds import arity
    arity.rule(chk, fx, 'C06-arity', ('refl',))
    reduce_rule(chk, fx, 'C06-reduce')
    widen_rule(chk, fx, 'C06-widen')
    return ('The arms of Context::cheap_supertype_of are evaluated in order (resolved variant patterns, guards through the variant set of '
            'Type::is_mono_value_class) on every ordered pair of the six numeric classes and on Obj/Never against every built-in unit type. '
            'Decides the tower/top/bottom clauses only; reflexivity/transitivity over structural types are not decided.'), {'exhaustive': True}


def result_of(e):
    if e is None:
        return None
    e = T.peel(e)
    if e.get('k') == 'Block':
        ss = T.stmts_of(e)
        if len(ss) == 1:
            return result_of(ss[0])
        raise M.Unknown('block result')
    if e.get('k') == 'Tup' and len(e['a']) == 2:
        a, b = T.peel(e['a'][0]), T.peel(e['a'][1])
        if a.get('k') == 'Path' and b.get('k') == 'Lit' and 'bool' in b['v']:
            return (T.last_seg(a['d']), b['v']['bool'])
    raise M.Unknown('result expression ' + T.show(e))
