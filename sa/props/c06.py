"""C06  numeric tower, top and bottom rows of Context::cheap_supertype_of  (K1, exhaustive for the rows)"""
from sa import facts as F, tree as T, matcheval as M

TOWER = ['Bool', 'Nat', 'Int', 'Ratio', 'Float', 'Complex']   # ascending: each is a subtype of the next
FILE = 'crates/erg_compiler/context/compare.rs'


def run(chk):
    fx = F.Facts()
    chk.rule('C06-tower', 'for all a,b in Bool<Nat<Int<Ratio<Float<Complex: cheap_supertype_of(a,b) never answers (Absolutely,false) when a >= b '
                          'and never (Absolutely,true) when a < b (arms evaluated in order with their guards)')
    chk.rule('C06-top-bottom', 'cheap_supertype_of(Obj, x) and cheap_supertype_of(x, Never) are (Absolutely,true) for every built-in x; '
                               '(x, Obj) for x != Obj and (Never, x) for x != Never are never (Absolutely,true)')
    chk.rule('C06-refl', 'the function starts with `if lhs == rhs { return (Absolutely, true) }`')
    fn = fx.fn(FILE, 'Context::cheap_supertype_of')
    types = fn['_types']
    params = [p.get('n') for p in fn['params']]
    if not chk.need(len(params) == 2, 'cheap_supertype_of: expected two parameters'):
        return 'anchor lost', {}
    L, R = params
    body = fn['body']
    stmts = T.stmts_of(body)
    # reflexivity prefix
    first = T.unsemi(stmts[0]) if stmts else {}
    refl = False
    if first.get('k') == 'If':
        c = T.peel(first['c'])
        if c.get('k') == 'Binary' and c['op'] == '==' and {T.show(c['x']), T.show(c['y'])} == {L, R}:
            rets = [n for n in T.walk(first['t']) if n.get('k') == 'Ret']
            if rets and result_of(rets[0].get('x')) == ('Absolutely', True):
                refl = True
    if refl:
        chk.ok('C06-refl', 'prefix', sample='if lhs == rhs { return (Absolutely, true) }')
    else:
        chk.bad('C06-refl', 'Context::cheap_supertype_of', 'prefix', 'the reflexive short-cut `if lhs == rhs {return (Absolutely,true)}` no longer opens the function',
                FILE, fn['line'])
    ms = [n for n in stmts if T.unsemi(n).get('k') == 'Match']
    if not chk.need(len(ms) == 1, 'cheap_supertype_of: expected one top-level match'):
        return 'anchor lost', {}
    m = T.unsemi(ms[0])
    scr = T.peel(m['x'])
    if not chk.need(scr.get('k') == 'Tup' and [T.show(a) for a in scr['a']] == [L, R], 'cheap_supertype_of: scrutinee is not (lhs, rhs)'):
        return 'anchor lost', {}
    chk.floor('arms', len(m['arms']), 12)
    pred = fx.fn('crates/erg_compiler/ty/mod.rs', 'Type::is_mono_value_class')
    tset, fset, default = M.variant_predicate(pred)
    chk.need(default is False, 'Type::is_mono_value_class: default arm is not `_ => false`')

    def guard(g, l, r):
        """evaluate a guard for unit values l, r; raises Unknown"""
        g = T.peel(g)
        k = g.get('k')
        if k == 'Binary' and g['op'] in ('&&', '||'):
            a, b = guard(g['x'], l, r), guard(g['y'], l, r)
            return (a and b) if g['op'] == '&&' else (a or b)
        if k == 'Unary' and g['op'] == '!':
            return not guard(g['x'], l, r)
        if k == 'MCall' and g['n'] == 'is_mono_value_class' and (T.callee(g) or '').endswith('Type::is_mono_value_class'):
            recv = T.show(T.peel(g['r']))
            v = {L: l, R: r}.get(recv)
            if v is None:
                # arm-local rebinding `(lhs, rhs) if ...`
                raise M.Unknown('guard receiver ' + recv)
            return v in tset
        raise M.Unknown('guard ' + T.show(g))

    def evaluate(l, r):
        if l == r:
            return ('Absolutely', True), 'refl' if refl else None
        for arm in m['arms']:
            try:
                if not M.pat_matches(arm['pat'], (l, r)):
                    continue
                if 'g' in arm:
                    # arm-local bindings that shadow lhs/rhs with the same positions are handled by name
                    binds = arm_rebinding(arm['pat'], L, R)
                    gl, gr = l, r
                    if not guard_with(arm['g'], binds, l, r):
                        continue
                res = result_of(arm['b'])
                return res, arm['l']
            except M.Unknown as e:
                return None, 'arm %s: %s' % (T.show(arm['pat']), e)
        return None, 'no arm'

    def guard_with(g, binds, l, r):
        g = T.peel(g)
        k = g.get('k')
        if k == 'Binary' and g['op'] in ('&&', '||'):
            a = guard_with(g['x'], binds, l, r)
            b = guard_with(g['y'], binds, l, r)
            return (a and b) if g['op'] == '&&' else (a or b)
        if k == 'Unary' and g['op'] == '!':
            return not guard_with(g['x'], binds, l, r)
        if k == 'MCall' and (T.callee(g) or '').endswith('Type::is_mono_value_class'):
            recv = T.show(T.peel(g['r']))
            pos = binds.get(recv)
            if pos is None:
                raise M.Unknown('guard receiver ' + recv)
            return (l if pos == 0 else r) in tset
        raise M.Unknown('guard ' + T.show(g))

    def arm_rebinding(pat, L, R):
        b = {L: 0, R: 1}
        if pat.get('k') == 'PTuple' and len(pat['p']) == 2:
            for i, q in enumerate(pat['p']):
                if q.get('k') == 'Bind' and 'sub' not in q:
                    b[q['n']] = i
        return b

    idx = {t: i for i, t in enumerate(TOWER)}
    for a in TOWER:
        for b in TOWER:
            res, where = evaluate(a, b)
            want = idx[a] >= idx[b]
            inst = '%s:>%s' % (a, b)
            if res is None:
                chk.lost.append('cheap_supertype_of(%s,%s) could not be evaluated: %s' % (a, b, where))
            elif res[0] == 'Maybe':
                chk.undecide('cheap_supertype_of(%s,%s) = (Maybe,%s): left to the nominal check' % (a, b, res[1]))
                chk.ok('C06-tower', inst)
            elif res[1] == want:
                chk.ok('C06-tower', inst, sample='cheap_supertype_of(%s,%s) = (Absolutely,%s)' % (a, b, str(res[1]).lower()))
            else:
                chk.bad('C06-tower', 'Context::cheap_supertype_of', inst,
                        'cheap_supertype_of(%s, %s) answers (Absolutely, %s) but %s %s a supertype of %s in the numeric tower'
                        % (a, b, str(res[1]).lower(), a, 'is' if want else 'is not', b), FILE, where if isinstance(where, int) else fn['line'])
    others = sorted((tset | {'Never', 'Obj'}))
    chk.floor('builtin_unit_types', len(others), 15)
    for x in others:
        for (l, r, want, lab) in [('Obj', x, True, 'Obj:>%s' % x), (x, 'Never', True, '%s:>Never' % x)]:
            res, where = evaluate(l, r)
            if res == ('Absolutely', True):
                chk.ok('C06-top-bottom', lab)
            else:
                chk.bad('C06-top-bottom', 'Context::cheap_supertype_of', lab,
                        'cheap_supertype_of(%s, %s) = %s, expected (Absolutely, true)' % (l, r, res), FILE, where if isinstance(where, int) else fn['line'])
        if x != 'Obj':
            res, where = evaluate(x, 'Obj')
            if res == ('Absolutely', True):
                chk.bad('C06-top-bottom', 'Context::cheap_supertype_of', '%s:>Obj' % x, 'cheap_supertype_of(%s, Obj) = (Absolutely,true): %s would be above Obj' % (x, x),
                        FILE, where if isinstance(where, int) else fn['line'])
            else:
                chk.ok('C06-top-bottom', '%s!:>Obj' % x)
        if x != 'Never':
            res, where = evaluate('Never', x)
            if res == ('Absolutely', True):
                chk.bad('C06-top-bottom', 'Context::cheap_supertype_of', 'Never:>%s' % x, 'cheap_supertype_of(Never, %s) = (Absolutely,true)' % x,
                        FILE, where if isinstance(where, int) else fn['line'])
            else:
                chk.ok('C06-top-bottom', 'Never!:>%s' % x)
    # cheap_subtype_of must be the flipped call
    sub = fx.fn(FILE, 'Context::cheap_subtype_of')
    cs = [c for c in T.calls(sub['body']) if (T.callee(c) or '').endswith('cheap_supertype_of')]
    sp = [p.get('n') for p in sub['params']]
    if len(cs) == 1 and [T.show(T.peel(a)) for a in cs[0]['a']] == list(reversed(sp)):
        chk.ok('C06-tower', 'cheap_subtype_of-flip', sample='cheap_subtype_of(l, r) = cheap_supertype_of(r, l)')
    else:
        chk.bad('C06-tower', 'Context::cheap_subtype_of', 'flip', 'cheap_subtype_of(lhs, rhs) is not cheap_supertype_of(rhs, lhs)', FILE, sub['line'])
    return ('The arms of Context::cheap_supertype_of are evaluated in order (resolved variant patterns, guards through the variant set of '
            'Type::is_mono_value_class) on every ordered pair of the six numeric classes and on Obj/Never against every built-in unit type. '
            'Decides the tower/top/bottom clauses only; reflexivity/transitivity over structural types are not decided.'), {'exhaustive': True}


def result_of(e):
    if e is None:
        return None
    e = T.peel(e)
    if e.get('k') == 'Block':
        ss = T.stmts_of(e)
        if len(ss) == 1:
            return result_of(ss[0])
        raise M.Unknown('block result')
    if e.get('k') == 'Tup' and len(e['a']) == 2:
        a, b = T.peel(e['a'][0]), T.peel(e['a'][1])
        if a.get('k') == 'Path' and b.get('k') == 'Lit' and 'bool' in b['v']:
            return (T.last_seg(a['d']), b['v']['bool'])
    raise M.Unknown('result expression ' + T.show(e))
