"""C22  The effect checker visits every sub-expression in which an effect can hide  (K4 visitor completeness)"""
from sa import facts as F, tree as T
from sa.kinds import visit_run as VR

FILE = 'crates/erg_compiler/effectcheck.rs'
from sa.kinds import exceptions as X

COLL = 'collection literals carry positional elements only (the parser rejects `*`/keyword elements: "Non-default arguments cannot be specified ...")'
TSPEC = 'type-specification expressions are evaluated by the checker, never emitted as run-time code; no accepted program with an effect there was found'
# frozen, reasoned exceptions: (problem kind, detail) -> (reason, guard).  Everything else is a finding.
EXCEPTIONS = {
    ('neutral-arm', 'Expr::Import'): ('Import is produced only by HIRLinker (after the effect check)', X.only_built_after_checks('hir::Expr::Import')),
    ('neutral-arm', 'Expr::Dummy'): ('Dummy replaces an expression the lowerer already reported an error for, or one the optimiser erased; its payload is empty or dead', None),
    ('neutral-arm', 'Expr::Code'): ('Code is produced only by HIRLinker (after the effect check)', X.only_built_after_checks('hir::Expr::Code')),
    ('neutral-arm', 'Expr::Compound'): ('the parser never produces ast::Expr::Compound (it is only re-built by the desugarer), so the lowerer cannot produce hir Compound before the check',
                                        X.rebuilt_only('erg_parser', 'ast::Expr::Compound')),
    ('neutral-arm', 'Expr::ReDef'): ('attribute re-definition: no accepted function body with an effect on its right-hand side was found (variable re-definition is lowered to Def and is checked)', None),
    ('panicking-arm', 'Dict::Comprehension => (catch-all) todo!()'): ('hir::Dict::Comprehension is never constructed', X.never_constructed('erg_compiler', 'hir::Dict::Comprehension')),
    ('unvisited-field', 'NormalList.elems.var_args'): (COLL, None), ('unvisited-field', 'NormalList.elems.kw_args'): (COLL, None),
    ('unvisited-field', 'NormalList.elems.kw_var'): (COLL, None),
    ('unvisited-field', 'NormalTuple.elems.var_args'): (COLL, None), ('unvisited-field', 'NormalTuple.elems.kw_args'): (COLL, None),
    ('unvisited-field', 'NormalTuple.elems.kw_var'): (COLL, None),
    ('unvisited-field', 'NormalSet.elems.var_args'): (COLL, None), ('unvisited-field', 'NormalSet.elems.kw_args'): (COLL, None),
    ('unvisited-field', 'NormalSet.elems.kw_var'): (COLL, None),
    ('unvisited-field', 'Params.var_params'): (TSPEC, None), ('unvisited-field', 'Params.kw_var_params'): (TSPEC, None),
    ('unvisited-field', 'Params.guards'): ('guards are synthesised by the lowerer from refinement patterns, not user expressions', None),
    ('unvisited-field', 'Params.non_defaults'): (TSPEC, None),
    ('unvisited-field', 'TypeAscription.spec.expr'): (TSPEC, None),
    ('unvisited-field', 'PatchDef.sig'): ('a patch signature is a variable signature (no parameters, no default values)', None),
    ('unvisited-field', 'ClassDef.sig'): ('a class signature is a variable signature (no parameters, no default values)', None),
}


def run(chk):
    fx = F.Facts()
    chk.rule('C22-K4', 'SideEffectChecker::check_expr reaches every hir::Expr-bearing field of every hir::Expr variant: no variant with children in a do-nothing arm, '
                       'no child field (e.g. Call.obj, Args.var_args/kw_var, ReDef.block) left unreferenced in the arm that handles it')
    chk.rule('C22-callee', 'the Call arm decides "effectful" from the callee (call.obj type / attr_name), as the top-level loop of `check` does')
    fn, tg, tr = VR.run_traversal(fx, FILE, 'SideEffectChecker::check_expr', 'expr', VR.empty_block)
    need = tg.variants_with_children('hir::Expr')
    chk.floor('Expr variants with children', len(need), 15)
    X.apply(chk, fx, tr, FILE, 'C22-K4', EXCEPTIONS)
    # callee-based classification in the Call arm
    ok = False
    for n, ctx in T.walk_ctx(fn['body']):
        if n.get('k') == 'MCall' and n['n'] == 'is_procedure':
            ch = T.field_chain(n['r']) or []
            base = T.peel(n['r'])
            s = T.show(n['r'])
            if 'call.obj' in s:
                ok = True
    if ok:
        chk.ok('C22-callee', 'Call', sample='check_expr/Call: call.obj.t().is_procedure() || attr_name.is_procedural()')
    else:
        chk.bad('C22-callee', 'SideEffectChecker::check_expr', 'Call', 'the Call arm no longer tests the callee (call.obj) for being a procedure', FILE, fn['line'])
    block_kind_rules(chk, fx, fn)
    return ('Visitor-completeness over SideEffectChecker::check_expr: the hir type graph (ADT facts) gives the Expr-bearing field paths of every variant payload; '
            'the arm handling a variant must reference each path, delegate the payload, or be a listed exception. '
            'Decides "is visited", not how a visited call is classified.'), {}




EXPECT_KIND = {  # (is_procedural, is_subr, is_const) -> block kind pushed by check_def   (None = diverges)
    (True, True, False): 'Proc', (False, True, False): 'Func', (False, True, True): 'ConstFunc',
    (True, False, False): 'Instant', (False, False, False): 'Instant', (True, False, True): 'ConstInstant', (False, False, True): 'ConstInstant',
    (True, True, True): None,
}
ALLOWING = {'Proc', 'Module'}
FORBIDDING = {'Func', 'ConstFunc', 'ConstInstant'}


def bool_pat(p, v):
    k = p.get('k')
    if k == 'Wild' or (k == 'Bind' and 'sub' not in p):
        return True
    if k == 'PLit' and 'bool' in (p.get('v') or {}):
        return p['v']['bool'] == v
    if k == 'POr':
        return any(bool_pat(q, v) for q in p['p'])
    return None


def block_kind_rules(chk, fx, check_expr_fn):
    chk.rule('C22-kind', 'SideEffectChecker::check_def pushes the block kind dictated by (is_procedural, is_subr, is_const): Proc only for procedural subroutines, Func / ConstFunc for '
                         'other subroutines, Instant / ConstInstant for non-subroutine definitions (all 8 combinations evaluated against the match arms)')
    chk.rule('C22-ctx', 'in_context_effects_allowed lets the innermost enclosing non-Instant block decide (effects allowed iff it is Proc or Module); a decision from a fixed window of '
                        'the block stack cannot see through nested instant blocks')
    f = fx.fn(FILE, 'SideEffectChecker::check_def')
    ms = [n for n in T.walk(f['body']) if n.get('k') == 'Match' and T.peel(n['x']).get('k') == 'Tup' and len(T.peel(n['x'])['a']) == 3]
    if chk.need(len(ms) == 1, 'check_def: the (is_procedural, is_subr, is_const) match was not found'):
        m = ms[0]
        names = [T.show(a) for a in T.peel(m['x'])['a']]
        chk.need(names == ['is_procedural', 'is_subr', 'is_const'], 'check_def: scrutinee is %s' % names)
        env = {}
        for n in T.walk(f['body']):
            if n.get('k') == 'Let' and n['pat'].get('k') == 'Bind' and 'init' in n:
                env[n['pat']['n']] = T.show(n['init'])
        chk.need(env.get('is_procedural', '').endswith('is_procedural()') and env.get('is_subr', '').endswith('is_subr()') and env.get('is_const', '').endswith('is_const()'),
                 'check_def: is_procedural / is_subr / is_const are no longer def.sig.is_*()')
        for combo, want in EXPECT_KIND.items():
            got = 'no arm'
            for arm in m['arms']:
                p = arm['pat']
                if p.get('k') != 'PTuple' or len(p['p']) != 3:
                    continue
                r = [bool_pat(q, v) for q, v in zip(p['p'], combo)]
                if None in r:
                    got = '?'
                    break
                if all(r):
                    pushes = [T.last_seg(T.peel(c['a'][0]).get('d', '?')) for c in T.calls(arm['b']) if c.get('k') == 'MCall' and c['n'] == 'push' and 'block_stack' in T.show(c['r'])]
                    got = pushes[0] if pushes else None
                    break
            inst = 'procedural=%s,subr=%s,const=%s' % combo
            if got == '?':
                chk.lost.append('check_def: unrecognised pattern in the block-kind match')
            elif got == want:
                chk.ok('C22-kind', inst, sample='%s -> %s' % (inst, got))
            else:
                chk.bad('C22-kind', 'SideEffectChecker::check_def', inst, 'check_def pushes block kind %s for a definition with %s; expected %s' % (got, inst, want), FILE, m['l'])
    g = fx.fn(FILE, 'SideEffectChecker::in_context_effects_allowed')
    loops = [n for n in T.walk(g['body']) if n.get('k') == 'Loop']
    windows = [n for n in T.walk(g['body']) if n.get('k') == 'MCall' and n['n'] in ('get', 'last', 'first') and 'block_stack' in T.show(n['r'])]
    if loops and not windows:
        # the loop must skip Instant and answer from the first other kind
        ok_tab = True
        for m in [n for n in T.walk(g['body']) if n.get('k') == 'Match' and n.get('src') == 'Normal']:
            for arm in m['arms']:
                kinds = {T.last_seg(v) for v in T.pat_variants(arm['pat'])}
                rets = [T.peel(r.get('x') or {}).get('v', {}).get('bool') for r in T.walk(arm['b']) if r.get('k') == 'Ret']
                if kinds & ALLOWING and (kinds & FORBIDDING or False in rets or not rets):
                    ok_tab = False
                if kinds & FORBIDDING and (True in rets or not rets):
                    ok_tab = False
                if 'Instant' in kinds and rets:
                    ok_tab = False
        if ok_tab:
            chk.ok('C22-ctx', 'scan', sample='in_context_effects_allowed: scans the block stack outward, skipping Instant; Proc/Module => true, Func/ConstFunc/ConstInstant => false')
        else:
            chk.bad('C22-ctx', 'SideEffectChecker::in_context_effects_allowed', 'table', 'the block-kind table of in_context_effects_allowed allows effects under a forbidding block kind (or forbids under Proc/Module)', FILE, g['line'])
    elif windows:
        chk.bad('C22-ctx', 'SideEffectChecker::in_context_effects_allowed', 'fixed-window', 'in_context_effects_allowed decides from a fixed window of the block stack (%s): an instant block nested in '
                'an instant block inside a function is treated as effect-allowing' % ', '.join(sorted({T.show(w) for w in windows})), FILE, g['line'])
    else:
        chk.lost.append('in_context_effects_allowed: unrecognised shape')
