"""C22  The effect checker visits every sub-expression in which an effect can hide  (K4 visitor completeness)"""
from sa import facts as F, tree as T
from sa.kinds import visit_run as VR

FILE = 'crates/erg_compiler/effectcheck.rs'
from sa.kinds import exceptions as X

COLL = 'collection literals carry positional elements only (the parser rejects `*`/keyword elements: "Non-default arguments cannot be specified ...")'
TSPEC = 'type-specification expressions are evaluated by the checker, never emitted as run-time code; no accepted program with an effect there was found'
# frozen, reasoned exceptions: (problem kind, detail) -> (reason, guard).  Everything else is a finding.
EXCEPTIONS = {
    ('neutral-arm', 'Expr::Import'): ('Import is produced only by HIRLinker (after the effect check)', X.only_built_after_checks('hir::Expr::Import')),
    ('neutral-arm', 'Expr::Dummy'): ('Dummy replaces an expression the lowerer already reported an error for, or one the optimiser erased; its payload is empty or dead', None),
    ('neutral-arm', 'Expr::Code'): ('Code is produced only by HIRLinker (after the effect check)', X.only_built_after_checks('hir::Expr::Code')),
    ('neutral-arm', 'Expr::Compound'): ('the parser never produces ast::Expr::Compound (it is only re-built by the desugarer), so the lowerer cannot produce hir Compound before the check',
                                        X.rebuilt_only('erg_parser', 'ast::Expr::Compound')),
    ('neutral-arm', 'Expr::ReDef'): ('attribute re-definition: no accepted function body with an effect on its right-hand side was found (variable re-definition is lowered to Def and is checked)', None),
    ('panicking-arm', 'Dict::Comprehension => (catch-all) todo!()'): ('hir::Dict::Comprehension is never constructed', X.never_constructed('erg_compiler', 'hir::Dict::Comprehension')),
    ('unvisited-field', 'NormalList.elems.var_args'): (COLL, None), ('unvisited-field', 'NormalList.elems.kw_args'): (COLL, None),
    ('unvisited-field', 'NormalList.elems.kw_var'): (COLL, None),
    ('unvisited-field', 'NormalTuple.elems.var_args'): (COLL, None), ('unvisited-field', 'NormalTuple.elems.kw_args'): (COLL, None),
    ('unvisited-field', 'NormalTuple.elems.kw_var'): (COLL, None),
    ('unvisited-field', 'NormalSet.elems.var_args'): (COLL, None), ('unvisited-field', 'NormalSet.elems.kw_args'): (COLL, None),
    ('unvisited-field', 'NormalSet.elems.kw_var'): (COLL, None),
    ('unvisited-field', 'Params.var_params'): (TSPEC, None), ('unvisited-field', 'Params.kw_var_params'): (TSPEC, None),
    ('unvisited-field', 'Params.guards'): ('guards are synthesised by the lowerer from refinement patterns, not user expressions', None),
    ('unvisited-field', 'Params.non_defaults'): (TSPEC, None),
    ('unvisited-field', 'TypeAscription.spec.expr'): (TSPEC, None),
    ('unvisited-field', 'PatchDef.sig'): ('a patch signature is a variable signature (no parameters, no default values)', None),
    ('unvisited-field', 'ClassDef.sig'): ('a class signature is a variable signature (no parameters, no default values)', None),
}


def run(chk):
    fx = F.Facts()
    chk.rule('C22-K4', 'SideEffectChecker::check_expr reaches every hir::Expr-bearing field of every hir::Expr variant: no variant with children in a do-nothing arm, '
                       'no child field (e.g. Call.obj, Args.var_args/kw_var, ReDef.block) left unreferenced in the arm that handles it')
    chk.rule('C22-callee', 'the Call arm decides "effectful" from the callee (call.obj type / attr_name), as the top-level loop of `check` does')
    fn, tg, tr = VR.run_traversal(fx, FILE, 'SideEffectChecker::check_expr', 'expr', VR.empty_block)
    need = tg.variants_with_children('hir::Expr')
    chk.floor('Expr variants with children', len(need), 15)
    X.apply(chk, fx, tr, FILE, 'C22-K4', EXCEPTIONS)
    # callee-based classification in the Call arm
    ok = False
    for n, ctx in T.walk_ctx(fn['body']):
        if n.get('k') == 'MCall' and n['n'] == 'is_procedure':
            ch = T.field_chain(n['r']) or []
            base = T.peel(n['r'])
            s = T.show(n['r'])
            if 'call.obj' in s:
                ok = True
    if ok:
        chk.ok('C22-callee', 'Call', sample='check_expr/Call: call.obj.t().is_procedure() || attr_name.is_procedural()')
    else:
        chk.bad('C22-callee', 'SideEffectChecker::check_expr', 'Call', 'the Call arm no longer tests the callee (call.obj) for being a procedure', FILE, fn['line'])
    return ('Visitor-completeness over SideEffectChecker::check_expr: the hir type graph (ADT facts) gives the Expr-bearing field paths of every variant payload; '
            'the arm handling a variant must reference each path, delegate the payload, or be a listed exception. '
            'Decides "is visited", not how a visited call is classified.'), {}


