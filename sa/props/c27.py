"""C27  Stdlib declarations name attributes that really exist  (declaration table x reference tables)"""
import json, os
from sa import decl, typeshed
from sa.core import VERIF
from sa.facts import REPO


def run(chk):
    chk.rule('C27', 'every top-level declaration `.name[!]: T` / `.name = \'py\': T` / `.name = pyimport ".."` of every lib/pystd/**/*.d.er names an attribute that exists '
                    'on that module (under the Python name it maps to) in dir(module) of at least one CPython 3.7-3.13 or in some platform/version branch of the typeshed stub')
    ref = json.load(open(os.path.join(VERIF, 'ref', 'py_module_attrs.json')))
    live = None
    if chk.tier == 'thorough':
        live = redump(chk)
    files = decl.scan_all(REPO)
    chk.floor('declaration files', len(files), 150)
    ndecl = 0
    ts_ok = typeshed.available()
    chk.need(ts_ok, 'typeshed stubs not found under ' + typeshed.ROOTS[0])
    nomod = []
    for relfile, (mod, decls) in sorted(files.items()):
        attrs = set()
        known = False
        for v, table in ref.items():
            a = table.get(mod)
            if a is not None:
                known = True
                attrs.update(a)
        if live:
            for v, table in live.items():
                a = table.get(mod)
                if a is not None:
                    known = True
                    attrs.update(a)
        stub = typeshed.names(mod) if ts_ok else set()
        if stub:
            known = True
        if not known:
            nomod.append(mod)
            chk.undecide('module %s: not importable in any interpreter and no stub' % mod)
            continue
        for (line, erg, py, kind) in decls:
            ndecl += 1
            if py in attrs or py in stub:
                chk.ok('C27', (mod, erg), sample='%s.%s -> %s' % (mod, erg, py) if ndecl % 400 == 1 else None)
            elif kind == 'submodule' and (any((mod + '.' + py) in t and t[mod + '.' + py] is not None for t in ref.values()) or typeshed.stub_path(mod + '.' + py)):
                chk.ok('C27', (mod, erg))
            else:
                chk.bad('C27', mod, erg, 'declaration `.%s` of module %s maps to Python name `%s`, which no CPython 3.7-3.13 and no typeshed branch defines on %s'
                        % (erg, mod, py, mod), relfile, line)
    chk.floor('top-level declarations', ndecl, 2400)
    chk.analysed['modules without any reference'] = len(nomod)
    return ('Every column-0 declaration of the %d bundled declaration files is looked up in dir(module) of CPython 3.7-3.13 (frozen in ref/py_module_attrs.json, '
            're-dumped live in the thorough tier) and in the names the typeshed stub defines under any platform/version branch.' % len(files)), {'exhaustive': True}


def redump(chk):
    import subprocess, sys
    sys.path.insert(0, os.path.join(VERIF, 'tools'))
    import gen_ref
    mods = gen_ref.pystd_modules(REPO)
    out = {}
    for v, exe in gen_ref.PY.items():
        if not os.path.exists(exe):
            continue
        r = subprocess.run([exe, '-c', gen_ref.MODS, json.dumps(mods)], capture_output=True, text=True)
        if r.returncode == 0:
            out[v] = json.loads(r.stdout.strip().split('\n')[-1])
    chk.count('live interpreters dumped', len(out))
    return out
