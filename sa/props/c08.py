"""C08  The lexer is total and reports faithful token positions  (K3 typestate over the structured HIR of impl Lexer)"""
import re
from sa import facts as F, tree as T
from sa.kinds import vspec as VS

LEX = 'crates/erg_parser/lex.rs'
TOKEN = 'crates/erg_parser/token.rs'


def is_peek(e, which=None):
    e = T.peel(e)
    if e.get('k') == 'MCall' and e['n'] in ('peek_cur_ch', 'peek_next_ch') and T.show(e['r']) == 'self':
        return 1 if e['n'] == 'peek_cur_ch' else 2
    return 0


class Avail(VS.Interp):
    """state = (avail, locals) : number of characters known to be available at the cursor, and locals bound to a peek result"""

    def __init__(self, fname, consumers, report):
        super().__init__(VS.NoSpec())
        self.fname, self.consumers, self.report = fname, consumers, report

    def top(self, a, b):
        la = dict(a[1])
        lb = dict(b[1])
        common = tuple(sorted((k, v) for k, v in la.items() if lb.get(k) == v))
        return (min(a[0], b[0]), common)

    # knowledge from conditions
    def know(self, e, branch, st):
        """(avail lower bound implied) when condition e evaluates to `branch`"""
        e = T.peel(e)
        k = e.get('k')
        av, loc = st
        locd = dict(loc)
        if k == 'LetCond':
            p = is_peek(e['init'])
            pv = T.pat_variants(e['pat'])
            if branch and any(v.endswith('::Some') for v in pv):
                if p:
                    return p
                i = T.peel(e['init'])
                if i.get('k') == 'Local' and i['n'] in locd:
                    return locd[i['n']]
            return 0
        if k == 'Binary' and e['op'] == '&&' and branch:
            return max(self.know(e['x'], True, st), self.know(e['y'], True, st))
        if k == 'Binary' and e['op'] == '||' and not branch:
            return max(self.know(e['x'], False, st), self.know(e['y'], False, st))
        if k == 'Unary' and e['op'] == '!':
            return self.know(e['x'], not branch, st)
        if k == 'Binary' and e['op'] in ('==', '!='):
            for a, b in ((e['x'], e['y']), (e['y'], e['x'])):
                src = self.peek_src(a, locd)
                b2 = T.peel(b)
                if src and b2.get('k') == 'Call' and (b2.get('fn') or '').endswith('::Some'):
                    return src if branch == (e['op'] == '==') else 0
        if k == 'MCall':
            src = self.peek_src(e['r'], locd)
            if src:
                if e['n'] in ('is_some', 'is_some_and') and branch:
                    return src
                if e['n'] == 'is_none' and not branch:
                    return src
            # peek().map(|c| ..).unwrap_or(false)  /  map_or(false, ..)
            if e['n'] == 'unwrap_or' and e['a'] and T.peel(e['a'][0]).get('v', {}).get('bool') is False and branch:
                r = T.peel(e['r'])
                if r.get('k') == 'MCall' and r['n'] == 'map':
                    src = self.peek_src(r['r'], locd)
                    if src:
                        return src
            if e['n'] == 'map_or' and e['a'] and T.peel(e['a'][0]).get('v', {}).get('bool') is False and branch:
                src = self.peek_src(e['r'], locd)
                if src:
                    return src
        if k == 'Call' and e.get('m') and e['m'][0] == 'matches':
            pass
        if k == 'Match' and (e.get('m') or [''])[0] == 'matches' and branch:
            src = self.peek_src(e['x'], locd)
            if src and any(any(v.endswith('::Some') for v in T.pat_variants(a['pat'])) and T.peel(a['b']).get('v', {}).get('bool') is True for a in e['arms']):
                return src
        return 0

    def peek_src(self, e, locd):
        p = is_peek(e)
        if p:
            return p
        e = T.peel(e)
        if e.get('k') == 'Local' and e['n'] in locd:
            return locd[e['n']]
        return 0

    def refine(self, cond, branch, st):
        kn = self.know(cond, branch, st)
        return (max(st[0], kn), st[1])

    def refine_arm(self, m, arm, st):
        locd = dict(st[1])
        src = self.peek_src(m['x'], locd)
        if src:
            pv = T.pat_variants(arm['pat'])
            if any(v.endswith('::Some') for v in pv) and not any(v.endswith('::None') or v == '_' for v in pv):
                return (max(st[0], src), st[1])
        # match (self.peek_cur_ch(), self.peek_next_ch()) / tuples of peeks
        x = T.peel(m['x'])
        if x.get('k') == 'Tup' and arm['pat'].get('k') == 'PTuple' and len(x['a']) == len(arm['pat']['p']):
            best = st[0]
            for a, p in zip(x['a'], arm['pat']['p']):
                s2 = self.peek_src(a, locd)
                pv = T.pat_variants(p)
                if s2 and any(v.endswith('::Some') for v in pv) and not any(v.endswith('::None') or v == '_' for v in pv):
                    best = max(best, s2)
            return (best, st[1])
        return st

    def ex(self, n, st):
        if st is not None and n is not None and n.get('k') == 'Let' and 'init' in n and n['pat'].get('k') == 'Bind':
            p = is_peek(n['init'])
            if p:
                d = dict(st[1])
                d[n['pat']['n']] = p
                return (st[0], tuple(sorted(d.items())))
        return super().ex(n, st)

    def call(self, n, st):
        av, loc = st
        if n['k'] == 'MCall' and T.show(n['r']) == 'self' or (n['k'] == 'Call' and (T.cq(n) or '').startswith('Lexer::')):
            name = n.get('n') or T.last_seg(n.get('fn'))
            if name == 'consume':
                return (max(av - 1, 0), ()) if av > 0 else (0, ())
            if name in self.consumers:
                return (0, ())
        if n['k'] == 'MCall' and n['n'] in ('unwrap', 'expect'):
            r = T.peel(n['r'])
            if r.get('k') == 'MCall' and r['n'] == 'consume' and T.show(r['r']) == 'self':
                # the consume was already applied to the state by the receiver evaluation: availability *before* it is what matters
                pass
        return st

    def ex_consume_unwrap(self, n, st):
        return st


PREFIX = 'C08'


def run(chk, parts=('L1', 'L2', 'L2b', 'L3')):
    fx = F.Facts()
    if 'L1' in parts:
      chk.rule(PREFIX + '-L1', 'no `self.consume().unwrap()` executes without a character known to be available: peek_cur_ch()/peek_next_ch() tested Some on the path '
                       '(while let / if let / match Some / is_some / == Some(c) / .map(..).unwrap_or(false) / a local bound to a peek and tested), each consume uses one up')
    chk.rule(PREFIX + '-L2', 'a token\'s column advance equals the number of source characters consumed for it: in the escape handlers of the string lexers the characters '
                       'appended to the token text equal the characters consumed (emit_*_token advances the column by cont.chars().count())')
    chk.rule(PREFIX + '-L2b', 'column arithmetic is in characters: no value derived from str/String::len() (bytes) flows into col_begin / col_end / col_token_starts, '
                        'unless the string provably holds only ASCII characters')
    if 'L3' in parts:
      chk.rule(PREFIX + '-L3', 'Indent/Dedent pairing: every indent_stack.push lies on a path producing an Indent token, every pop on a path producing a Dedent (or an error); '
                       'EOF is accepted only under indent_stack.is_empty()')
    d = fx.file(LEX)
    fns = [f for f in d['fns'] if (f.get('self_ty') or '').split('::')[-1] == 'Lexer']
    by = {T.norm(f['path']): f for f in fns}
    chk.floor('Lexer methods', len(fns), 40)
    # which methods may move the cursor
    consumers = set()
    changed = True
    direct = {}
    for f in fns:
        nm = f['path'].rsplit('::', 1)[-1]
        direct[nm] = any((n.get('k') == 'MCall' and n['n'] == 'consume' and T.show(n['r']) == 'self') or
                         (n.get('k') in ('Assign', 'AssignOp') and 'cursor' in T.show(n['x'])) for n in T.walk(f['body']))
    consumers = {k for k, v in direct.items() if v and k != 'consume'}
    while changed:
        changed = False
        for f in fns:
            nm = f['path'].rsplit('::', 1)[-1]
            if nm in consumers or nm == 'consume':
                continue
            for n in T.calls(f['body']):
                if n.get('k') == 'MCall' and T.show(n['r']) == 'self' and n['n'] in consumers:
                    consumers.add(nm)
                    changed = True
                    break
    if 'L1' in parts:
        # ---- L1
        sites = 0
        for f in fns:
            fname = T.norm(f['path'])
            found = []
            ip = Avail(fname, consumers, None)
            # intercept consume().unwrap(): evaluate availability just before the consume
            orig_ex = ip.ex

            def ex(n, st, orig_ex=orig_ex, found=found, ip=ip):
                if st is not None and n is not None and n.get('k') == 'MCall' and n['n'] in ('unwrap', 'expect'):
                    r = T.peel(n['r'])
                    if r.get('k') == 'MCall' and r['n'] == 'consume' and T.show(r['r']) == 'self':
                        found.append((n, st[0]))
                return orig_ex(n, st)
            ip.ex = ex
            # Interp.ex recursion goes through self.ex, so the wrapper is used for nested nodes too
            ip.run_fn(f, (entry_avail(f['path'].rsplit('::', 1)[-1]), ()))
            seen = set()
            for (n, av) in found:
                if id(n) in seen:
                    continue
                worst = min(a for (m, a) in found if m is n)
                seen.add(id(n))
                sites += 1
                if worst >= 1:
                    chk.ok(PREFIX + '-L1', (fname, n['l']), sample='%s: consume().unwrap() with %d character(s) known available' % (fname, worst))
                else:
                    chk.bad(PREFIX + '-L1', fname, 'consume().unwrap()', '%s calls self.consume().unwrap() where no character is known to be available: an input ending there panics the lexer'
                            % fname, LEX, n['l'])
        chk.floor('consume().unwrap() sites', sites, 30)
    # ---- L2 escape arms
    # Lexer::push_escaped(s, text, consumed) appends `text` and records consumed - chars(text); both emit functions add the recorded difference to the advance
    push_escaped_ok = False
    pe = by.get('Lexer::push_escaped')
    if pe is not None:
        appends = any(c.get('k') == 'MCall' and c['n'] == 'push_str' and T.show(T.peel(c['a'][0])) == 'text' for c in T.calls(pe['body']))
        rec = [n for n in T.walk(pe['body']) if n.get('k') == 'AssignOp' and n['op'] in ('+', '+=') and 'token_col_shift' in T.show(n['x'])]
        shown = T.norm(T.show(rec[0]['y'])).replace(' ', '') if rec else ''
        m_ = re.match(r'^\(?consumed(?:as(?:i32|_))?\)?-\(?(.+?)(?:as(?:i32|_))?\)?$', shown)
        sub_ = m_.group(1) if m_ else ''
        formula = sub_ == 'text.chars().count()'
        byte_units = bool(m_) and not formula and re.search(r'text(\.as_bytes\(\))?\.len\(\)|text\.bytes\(\)\.count\(\)|text\.encode_utf16\(\)\.count\(\)', sub_) is not None
        push_escaped_ok = bool(appends and formula)
        if byte_units:
            # a semantic deviation, not a lost anchor: columns are counted in characters everywhere else in the lexer
            chk.bad(PREFIX + '-L2', 'Lexer::push_escaped', 'token_col_shift unit',
                    'Lexer::push_escaped records `consumed - %s`: the appended text is measured in bytes / UTF-16 units, not characters, so every token after an escape '
                    'that stands for a non-ASCII character is reported at a drifted column' % sub_, LEX, rec[0]['l'] if 'l' in rec[0] else pe.get('l', 0))
        elif not push_escaped_ok:
            chk.lost.append('Lexer::push_escaped exists but is not of the form `s.push_str(text); self.token_col_shift += consumed as i32 - text.chars().count() as i32` '
                            '(appends=%s formula=%s)' % (appends, bool(formula)))
        # the recorded difference is worth something only if the column advance of both emit functions includes it
        for nm in ('Lexer::emit_singleline_token', 'Lexer::emit_multiline_token'):
            f_ = by.get(nm)
            if f_ is None:
                continue
            lets_ = {}
            for n in T.walk(f_['body']):
                if n.get('k') == 'Let' and n.get('init') is not None:
                    for b_ in T.walk(n['pat']):
                        if b_.get('k') == 'Bind':
                            lets_[b_['id']] = n['init']

            # a local also carries what is assigned to one of its fields (`token.col_end = ..shift..`)
            field_writes = {}
            for n in T.walk(f_['body']):
                if n.get('k') in ('Assign', 'AssignOp') and T.peel(n['x']).get('k') == 'Field':
                    base = T.peel(T.peel(n['x']).get('x') or {})
                    if base.get('k') == 'Local':
                        field_writes.setdefault(base['id'], []).append(n['y'])

            def from_shift(e, seen=()):
                if 'token_col_shift' in T.show(e):
                    return True
                for x in T.walk(e):
                    if x.get('k') == 'Local' and x.get('id') not in seen:
                        srcs = ([lets_[x['id']]] if x['id'] in lets_ else []) + field_writes.get(x['id'], [])
                        if any(from_shift(s_, seen + (x['id'],)) for s_ in srcs):
                            return True
                return False
            writes = [n for n in T.walk(f_['body']) if n.get('k') in ('Assign', 'AssignOp') and T.show(n['x']).endswith('col_token_starts')]
            if any(from_shift(n['y']) for n in writes):
                chk.ok(PREFIX + '-L2', (nm, 'adds-escape-shift'))
            else:
                chk.bad(PREFIX + '-L2', nm, 'ignores-escape-shift', '%s advances the column without the difference that push_escaped records for escape sequences (consumed minus appended '
                        'characters): every token after a string with `\\n` / `\\t` on the same line is reported at a shifted column' % nm, LEX, writes[0].get('l') if writes else f_.get('line'))
    escapes = 0
    for f in fns:
        fname = T.norm(f['path'])
        for n, ctx in T.walk_ctx(f['body']):
            if n.get('k') != 'Match' or n.get('src') != 'Normal':
                continue
            x = T.peel(n['x'])
            if not (x.get('k') == 'Local' and x['n'] == 'next_c'):
                continue
            after_backslash = any((c[0] == 'if' and c[2] is True and "'\\\\'" in T.show(c[1])) or
                                  (c[0] == 'arm' and c[2]['pat'].get('k') == 'PLit' and c[2]['pat']['v'].get('char') == '\\') for c in ctx)
            if not after_backslash:
                continue
            for arm in n['arms']:
                pats = [p for p in ([arm['pat']] if arm['pat'].get('k') != 'POr' else arm['pat']['p'])]
                chars = [p['v'].get('char') for p in pats if p.get('k') == 'PLit' and 'char' in (p.get('v') or {})]
                if not chars:
                    continue
                body = arm['b']
                if any(x_.get('k') in ('Ret', 'Continue') for x_ in T.walk(body)):
                    continue
                pushed = 0
                extra = 0
                recorded = 0        # consumed-minus-appended difference handed to the column bookkeeping (push_escaped)
                for c in T.calls(body):
                    if c.get('k') == 'MCall' and c['n'] == 'push_escaped' and len(c['a']) == 3:
                        lit, cons = T.peel(c['a'][1]), T.lit_int(T.peel(c['a'][2]))
                        txt = (lit.get('v') or {}).get('str') if lit.get('k') == 'Lit' else None
                        n_app = len(txt) if txt is not None else (1 if 'encode_utf8' in T.show(lit) else None)
                        if n_app is None or cons is None:
                            chk.lost.append('%s: push_escaped call with a non-literal text / length (%s)' % (fname, T.show(c)[:60]))
                        else:
                            pushed += n_app
                            recorded += cons - n_app
                    elif c.get('k') == 'MCall' and c['n'] == 'push' and T.show(c['r']) == 's':
                        pushed += 1
                    elif c.get('k') == 'MCall' and c['n'] == 'push_str' and T.show(c['r']) == 's':
                        lit = T.peel(c['a'][0])
                        pushed += len(lit['v']['str']) if lit.get('k') == 'Lit' and 'str' in (lit.get('v') or {}) else 0
                    elif c.get('k') == 'MCall' and c['n'] == 'consume' and T.show(c['r']) == 'self':
                        extra += loop_factor(body, c)
                consumed = 2 + extra
                pushed += recorded       # what the column finally advances by: appended characters + recorded difference
                for ch in chars:
                    escapes += 1
                    if pushed == consumed:
                        chk.ok(PREFIX + '-L2', (fname, ch))
                    else:
                        chk.bad(PREFIX + '-L2', fname, 'escape:%s' % repr(ch), '%s: escape \\%s consumes %d source characters but appends %d to the token text: every later token on the line '
                                'is reported %d column(s) %s' % (fname, ch if ch != '\n' else 'n', consumed, pushed, abs(consumed - pushed), 'left' if consumed > pushed else 'right'),
                                LEX, arm['l'])
    chk.floor('escape arms', escapes, 20)
    # anchor: emit_*_token advance by chars().count()
    for nm in ('Lexer::emit_singleline_token', 'Lexer::emit_multiline_token'):
        f = by.get(nm)
        if not chk.need(f is not None, nm + ' not found'):
            continue
        adv = [n for n in T.walk(f['body']) if 'col_token_starts' in T.show(n.get('x') or {}) and (n.get('k') == 'AssignOp' or (n.get('k') == 'Assign' and T.lit_int(T.peel(n['y'])) is None))]
        chk.need(bool(adv), '%s no longer advances col_token_starts' % nm)
    # ---- L2b bytes as columns
    nb = 0
    for file in (LEX, TOKEN):
        dd = fx.file(file)
        for f in dd['fns']:
            env = VS.let_env(f)
            for n in T.walk(f['body']):
                tgt = None
                if n.get('k') in ('AssignOp', 'Assign') and any(w in T.show(n['x']) for w in ('col_token_starts', 'col_begin', 'col_end')):
                    tgt, val = T.show(n['x']), n['y']
                elif n.get('k') == 'Let' and n['pat'].get('k') == 'Bind' and n['pat']['n'] in ('col_end', 'col_begin') and 'init' in n:
                    tgt, val = n['pat']['n'], n['init']
                if tgt is None:
                    continue
                nb += 1
                bad = byte_len_source(val, env, f)
                where = T.norm(f['path'])
                if bad:
                    chk.bad(PREFIX + '-L2b', where, '%s<-%s' % (tgt, bad), '%s computes the column `%s` from `%s`, a byte length: tokens after non-ASCII text are reported too far right' % (where, tgt, bad),
                            file, n['l'])
                else:
                    chk.ok(PREFIX + '-L2b', (where, tgt, n['l']), sample='%s: %s <- %s' % (where, tgt, T.show(val)))
    chk.floor('column computations', nb, 8)
    # ---- L4 indentation accounting
    if 'L2' in parts:
        l4(chk, by)
        l6(chk, by)
        l7(chk, by)
    # ---- L3 indent / dedent pairing
    if 'L3' in parts:
        l3(chk, fns)
        l5(chk, by)
        from_u32_rule(chk, by, PREFIX + '-L8')
    return ('Typestate analysis of impl Lexer over structured HIR: availability of characters before consume().unwrap(), consumed-vs-appended characters of every escape arm, '
            'units of column arithmetic, Indent/Dedent pairing. Termination of the token loop and columns of multi-line tokens are not decided.'), {}


# strings that hold only ASCII spaces by construction (reason frozen; confirmed by reading)
ASCII_BY_CONSTRUCTION = {
    ('lex_space_indent_dedent', 'spaces.len()'): "`spaces` is filled only by `while let Some(' ') = peek { spaces.push(consume) }`",
    ('lex_indent_dedent', 'spaces.len()'): 'parameter `spaces` is the string above (only caller: lex_space_indent_dedent)',
}


def entry_avail(name):
    # entry contexts confirmed by reading the call sites in Lexer::next (the callers peek / match the character first)
    return {'lex_num_dot': 1, 'lex_exponent': 1}.get(name, 0)


def loop_factor(body, call):
    """number of times `call` runs: inside `for _ in 0..N` with literal N -> N, else 1"""
    for n in T.walk(body):
        if n.get('k') == 'Match' and n.get('src') == 'ForLoopDesugar' and any(x is call for x in T.walk(n)):
            for s in T.walk(n['x']):
                if s.get('k') == 'Struct' and s.get('d', '').endswith('Range'):
                    vals = {f['n']: T.lit_int(f['x']) for f in s['f']}
                    if vals.get('start') is not None and vals.get('end') is not None:
                        return vals['end'] - vals['start']
    return 1


def byte_len_source(val, env, f):
    """a `.len()` on a str/String that is not provably ASCII-only, feeding val"""
    for n in T.walk(val):
        if n.get('k') == 'Local' and n['n'] in env and n['n'] not in ('self',):
            r = byte_len_source(env[n['n']], {k: v for k, v in env.items() if k != n['n']}, f)
            if r:
                return r
        if n.get('k') == 'MCall' and n['n'] == 'len' and not n['a']:
            rt = (f.get('_types') or [None])[n['rt']] if isinstance(n.get('rt'), int) and f.get('_types') else ''
            r = T.peel(n['r'])
            if rt and not any(t in rt for t in ('str', 'String', 'Str')):
                continue
            if r.get('k') == 'Local' and ascii_only_string(r['n'], f):
                continue
            if (f['path'].rsplit('::', 1)[-1], T.show(n)) in ASCII_BY_CONSTRUCTION:
                continue
            return T.show(n)
    return None


def ascii_only_string(name, f):
    pushes = []
    for n in T.walk(f['body']):
        if n.get('k') == 'MCall' and n['n'] in ('push', 'push_str') and T.show(n['r']) == name:
            a = T.peel(n['a'][0])
            v = a.get('v') or {}
            lit = v.get('char') or v.get('str')
            if lit is None or not lit.isascii():
                return False
            pushes.append(lit)
    return bool(pushes)


def l3(chk, fns):
    pushes = pops = 0
    for f in fns:
        fname = T.norm(f['path'])
        for n, ctx in T.walk_ctx(f['body']):
            if n.get('k') == 'MCall' and n['n'] in ('push', 'pop') and 'indent_stack' in T.show(n['r']):
                # the innermost enclosing block that returns a token kind
                kinds = set()
                scope = f['body']
                for c in reversed(ctx):
                    if c[0] == 'if':
                        cand = None
                        for m in T.walk(c[1]):
                            pass
                # simpler: token kinds emitted in the same function after this call within the same branch
                branch = enclosing_branch(f['body'], n)
                for c in T.calls(branch):
                    if c.get('k') == 'MCall' and c['n'] in ('emit_singleline_token', 'emit_multiline_token', 'accept'):
                        a0 = T.peel(c['a'][0])
                        if a0.get('k') == 'Path':
                            kinds.add(T.last_seg(a0['d']))
                errs = any(x.get('k') == 'Call' and (x.get('fn') or '').endswith('::Err') for x in T.walk(branch))
                if n['n'] == 'push':
                    pushes += 1
                    if 'Indent' in kinds:
                        chk.ok(PREFIX + '-L3', (fname, 'push', n['l']), sample='%s: indent_stack.push with an Indent token on the same branch' % fname)
                    else:
                        chk.bad(PREFIX + '-L3', fname, 'push-without-Indent', '%s pushes the indent stack on a branch that emits %s, not an Indent token' % (fname, sorted(kinds)), LEX, n['l'])
                else:
                    pops += 1
                    if 'Dedent' in kinds or errs:
                        chk.ok(PREFIX + '-L3', (fname, 'pop', n['l']))
                    else:
                        chk.bad(PREFIX + '-L3', fname, 'pop-without-Dedent', '%s pops the indent stack on a branch that emits %s, not a Dedent token' % (fname, sorted(kinds)), LEX, n['l'])
        # EOF only with empty stack
        for n, ctx in T.walk_ctx(f['body']):
            if n.get('k') == 'MCall' and n['n'] in ('accept', 'emit_singleline_token') and n['a'] and T.show(T.peel(n['a'][0])).endswith('EOF'):
                guarded = any(c[0] == 'if' and 'indent_stack' in T.show(c[1]) and 'is_empty' in T.show(c[1]) for c in ctx)
                if guarded:
                    chk.ok(PREFIX + '-L3', (fname, 'EOF'), sample='%s: EOF emitted under an indent_stack.is_empty() test' % fname)
                else:
                    chk.bad(PREFIX + '-L3', fname, 'EOF-unguarded', '%s emits EOF without testing that the indent stack is empty: the stream can end with more indents than dedents' % fname, LEX, n['l'])
    chk.floor('indent_stack pushes', pushes, 1)
    chk.floor('indent_stack pops', pops, 1)


def enclosing_branch(body, target):
    """innermost Block (branch body) that contains target"""
    best = body
    for n in T.walk(body):
        if n.get('k') == 'Block' and n is not body and any(x is target for x in T.walk(n)):
            best = n
    return best


def lin(e, env, depth=0):
    """linear form {var: coef, '#': const} of an integer expression over locals; None if not linear"""
    e = T.peel(e)
    k = e.get('k')
    if depth > 8:
        return None
    if k == 'Cast':
        return lin(e['x'], env, depth + 1)
    v = T.lit_int(e)
    if v is not None:
        return {'#': v}
    if k == 'Local':
        if e['n'] in env:
            r = lin(env[e['n']], {kk: vv for kk, vv in env.items() if kk != e['n']}, depth + 1)
            if r is not None:
                return r
        return {e['n']: 1}
    if k == 'MCall' and e['n'] == 'len' and not e['a']:
        return {T.show(e['r']) + '.len()': 1}
    if k == 'MCall' and e['n'] in ('saturating_sub', 'wrapping_sub') and len(e['a']) == 1:
        a, b = lin(e['r'], env, depth + 1), lin(e['a'][0], env, depth + 1)
        if a is None or b is None:
            return None
        return add(a, b, -1)
    if k == 'Binary' and e['op'] in ('+', '-'):
        a, b = lin(e['x'], env, depth + 1), lin(e['y'], env, depth + 1)
        if a is None or b is None:
            return None
        return add(a, b, 1 if e['op'] == '+' else -1)
    return None


def add(a, b, sign):
    out = dict(a)
    for kk, vv in b.items():
        out[kk] = out.get(kk, 0) + sign * vv
    return {kk: vv for kk, vv in out.items() if vv != 0}


def text_len(e, env):
    """linear form of the character length of a token-text expression: "" -> 0, " ".repeat(n) -> n, &spaces -> spaces.len()"""
    e = T.peel(e)
    if e.get('k') == 'Lit' and 'str' in (e.get('v') or {}):
        return {'#': len(e['v']['str'])} if e['v']['str'] else {}
    if e.get('k') == 'MCall' and e['n'] == 'repeat' and T.peel(e['r']).get('k') == 'Lit' and len((T.peel(e['r']).get('v') or {}).get('str', '')) == 1:
        return lin(e['a'][0], env)
    if e.get('k') == 'Local':
        if e['n'] == 'spaces':
            return lin({'k': 'Local', 'n': 'spaces_len'}, env)     # `let spaces_len = spaces.len()` at the head of the function
        return {e['n'] + '.len()': 1}
    if e.get('k') == 'Index' and T.peel(e['i']).get('k') == 'Struct':
        # a slice of an ASCII-space string: its length in characters is the length of the range
        base = text_len(e['x'], env)
        rng = T.peel(e['i'])
        flds = {f_['n']: f_['x'] for f_ in rng.get('f', [])}
        kind = (rng.get('d') or '').split('::')[-1]
        if base is None:
            return None
        if kind == 'RangeFrom' and 'start' in flds:
            a = lin(flds['start'], env)
            return None if a is None else add(base, a, -1)
        if kind == 'RangeTo' and 'end' in flds:
            return lin(flds['end'], env)
        if kind == 'Range' and 'start' in flds and 'end' in flds:
            a, b = lin(flds['start'], env), lin(flds['end'], env)
            return None if a is None or b is None else add(b, a, -1)
        if kind == 'RangeFull':
            return base
        return None
    return None


def l5(chk, by):
    rule = PREFIX + '-L5'
    chk.rule(rule, 'the token iterator does not recurse on its input: Lexer::next (and every Lexer method it can reach) never calls Lexer::next / Lexer::lex again to skip text that '
                   'produces no token — one stack frame per skipped line makes ten thousand blank lines inside brackets abort the process; skipping is done in a loop')
    f = by.get('Lexer::next')
    if not chk.need(f is not None, 'Lexer::next not found'):
        return
    sites = 0
    for nm, g in sorted(by.items()):
        if not nm.startswith('Lexer::'):
            continue
        for c in T.calls(g['body']):
            if c.get('k') in ('MCall', 'Call') and T.norm(T.callee(c) or '') == 'Lexer::next' and nm != 'Lexer::lex' and not c.get('m'):
                # `for x in self` / `self.collect()` style drivers live in Lexer::lex; any other caller re-enters the iterator from inside it
                sites += 1
                chk.bad(rule, nm, 'calls-next', '%s calls Lexer::next while producing a token: the recursion depth grows with the number of consecutive token-less lines' % nm, LEX, c.get('l'))
    loops = [n for n in T.walk(f['body']) if n.get('k') == 'Loop']
    if sites == 0:
        chk.ok(rule, 'no-reentry', sample='Lexer::next is not re-entered from the lexer; %d loop(s) in next' % len(loops))
    # positive control: the call graph does see calls to Lexer::next where they exist (Lexer::lex drives the iterator)
    drivers = [nm for nm, g in by.items() for c in T.calls(g['body']) if c.get('k') in ('MCall', 'Call') and T.norm(T.callee(c) or '').endswith('::next') and nm == 'Lexer::lex']
    chk.count('drivers of the token iterator', len(drivers))


def l6(chk, by):
    rule = PREFIX + '-L6'
    chk.rule(rule, 'text skipped without a token still moves the column: every Ok exit of Lexer::lex_multi_line_comment (after which lexing goes on in the same line) is preceded by '
                   'an advance of col_token_starts by the characters consumed since the last line break; otherwise everything after `#[ .. ]#` on that line is reported too far left')
    f = by.get('Lexer::lex_multi_line_comment')
    if not chk.need(f is not None, 'Lexer::lex_multi_line_comment not found'):
        return
    exits = 0

    def scan(block, advanced):
        nonlocal exits
        if block.get('k') != 'Block':
            block = {'k': 'Block', 's': [], 'e': block}
        adv = advanced
        for st in T.stmts_of(block):
            st = T.unsemi(st)
            here = [n for n in T.walk(st) if n.get('k') in ('Ret',) and 'Ok' in T.show(n.get('x') or {})]
            if st.get('k') == 'AssignOp' and 'col_token_starts' in T.show(st['x']) and st['op'] in ('+', '+='):
                adv = T.show(st['y'])
                continue
            if st.get('k') == 'Ret' and 'Ok' in T.show(st.get('x') or {}):
                exits += 1
                if adv is None:
                    chk.bad(rule, 'Lexer::lex_multi_line_comment', 'ok-exit-without-advance', 'lex_multi_line_comment returns Ok after consuming the comment without advancing col_token_starts: '
                            'in `x = 1 #[ c ]#; print! foo` the caret for `foo` is 9 columns too far left', LEX, st.get('l'))
                else:
                    chk.ok(rule, ('exit', st.get('l')), sample='col_token_starts += %s; return Ok' % adv[:80])
                continue
            # descend into nested control flow with the current state
            for n in T.children(st) if st.get('k') not in ('If', 'Match', 'Loop', 'Block') else [st]:
                pass
            for sub in _sub_blocks(st):
                scan(sub, adv)
        return adv

    def _sub_blocks(n):
        out = []
        k = n.get('k')
        if k == 'Block':
            out.append(n)
        elif k == 'If':
            out.append(n['t'])
            if 'e' in n:
                out.append(n['e'])
        elif k == 'Match':
            for a in n['arms']:
                out.append(a['b'])
        elif k == 'Loop':
            out.append(n['b'])
        else:
            for c in T.children(n):
                if 'k' in c:
                    out.extend(_sub_blocks(c))
                else:
                    for cc in T.children(c):
                        out.extend(_sub_blocks(cc))
        return out
    scan(f['body'], None)
    chk.need(exits >= 1, 'lex_multi_line_comment: no `return Ok(..)` exit found')


def from_u32_rule(chk, by, rule):
    """char::from_u32(n).unwrap() is total only for n below the surrogate range"""
    chk.rule(rule, 'every `char::from_u32(n).unwrap()` of the lexer has n < 0xD800: n is parsed (from_str_radix, radix R) from a String that receives at most N digits '
                   '(loops `for _ in 0..N`, N evaluated as the maximum over the branches that define it), so R^N - 1 < 0xD800; a four-digit `\\uD800` would make the lexer panic')
    sites = 0

    def vmax(e, env, depth=0):
        if depth > 8:
            return None
        e = T.peel(e)
        k = e.get('k')
        v = T.lit_int(e)
        if v is not None:
            return v
        if k == 'Local' and e['n'] in env:
            return vmax(env[e['n']], env, depth + 1)
        if k == 'If' and 'e' in e:
            a, b = vmax(e['t'], env, depth + 1), vmax(e['e'], env, depth + 1)
            return None if a is None or b is None else max(a, b)
        if k == 'Match':
            vs = [vmax(a['b'], env, depth + 1) for a in e['arms']]
            return None if any(x is None for x in vs) else max(vs)
        if k == 'Block' and 'e' in e:
            return vmax(e['e'], env, depth + 1)
        if k == 'Cast':
            return vmax(e['x'], env, depth + 1)
        return None
    for nm, f in sorted(by.items()):
        env = VS.let_env(f)
        for n in T.walk(f['body']):
            if not (n.get('k') == 'MCall' and n['n'] in ('unwrap', 'expect')):
                continue
            c = T.peel(n['r'])
            if not (c.get('k') == 'Call' and (c.get('fn') or '').endswith('::from_u32') and c['a']):
                continue
            sites += 1
            arg = T.peel(c['a'][0])
            src = arg
            if arg.get('k') == 'MCall' and arg['n'] in ('unwrap', 'expect', 'unwrap_or', 'unwrap_or_default'):
                src = T.peel(arg['r'])
            bound = None
            why = 'the argument `%s` is not a from_str_radix of a bounded digit string' % T.show(arg)[:40]
            if src.get('k') == 'Call' and (src.get('fn') or '').endswith('::from_str_radix') and len(src['a']) == 2:
                radix = T.lit_int(T.peel(src['a'][1]))
                txt = T.peel(src['a'][0])
                if txt.get('k') == 'Local' and radix:
                    # pushes to that String: each inside a `for _ in a..b` loop (digits = b - a), or a single push
                    digits = 0
                    unknown = False
                    for m in T.walk(f['body']):
                        if m.get('k') == 'Match' and m.get('src') == 'ForLoopDesugar':
                            pushes = [x for x in T.calls(m) if x.get('k') == 'MCall' and x['n'] in ('push', 'push_str') and T.peel(x['r']).get('n') == txt['n']]
                            if not pushes:
                                continue
                            rng = T.peel(m['x'])
                            if not (rng.get('k') == 'Call' and (rng.get('fn') or '').endswith('into_iter')):
                                continue      # the inner `match Iterator::next(&iter)` of the same desugared loop
                            rng = T.peel(rng['a'][0]) if rng.get('k') == 'Call' and rng.get('a') else rng
                            flds = {x['n']: x['x'] for x in rng.get('f', [])} if rng.get('k') == 'Struct' else {}
                            lo, hi = (vmax(flds['start'], env) if 'start' in flds else None), (vmax(flds['end'], env) if 'end' in flds else None)
                            if lo is None or hi is None or any(x['n'] == 'push_str' for x in pushes):
                                unknown = True
                            else:
                                digits += (hi - lo + (1 if (rng.get('d') or '').endswith('RangeInclusive') else 0)) * len(pushes)
                    if not unknown and digits > 0:
                        bound = radix ** digits - 1
                        why = 'at most %d digit(s) in radix %d: n <= %#x' % (digits, radix, bound)
            key = '%s:from_u32' % nm
            if bound is not None and bound < 0xD800:
                chk.ok(rule, key, sample='%s: %s' % (nm, why))
            else:
                chk.bad(rule, nm, 'from_u32-unwrap', '%s unwraps char::from_u32(..) although %s: values in 0xD800..=0xDFFF (and above 0x10FFFF) are not characters, so an escape such as '
                        '`"\\ud800"` makes the lexer panic instead of reporting a syntax error' % (nm, why), LEX, n.get('l'))
    chk.count('char::from_u32(..).unwrap() sites', sites)


def l7(chk, by):
    rule = PREFIX + '-L7'
    chk.rule(rule, 'a token that crosses a line break does not count the characters of its earlier lines into the column: wherever a Lexer method resets col_token_starts to 0 inside '
                   'the loop that accumulates the text of a token (a String local later handed to emit_*_token), the same block clears the accumulator or records the split '
                   '(token_line_start), and both emit functions subtract the recorded split from their advance')
    sites = 0
    for nm, f in sorted(by.items()):
        # accumulators: String locals passed to an emit call
        acc = set()
        for c in T.calls(f['body']):
            if c.get('k') == 'MCall' and c['n'] in ('emit_singleline_token', 'emit_multiline_token') and c['a']:
                a = T.peel(c['a'][-1])
                if a.get('k') == 'Local':
                    acc.add(a['n'])
        if not acc:
            continue

        def blocks(n, in_loop):
            if n.get('k') == 'Loop':
                # only loops that append to the accumulator: its text survives the line break
                in_loop = in_loop or any(c.get('k') == 'MCall' and c['n'] in ('push', 'push_str') and T.peel(c['r']).get('n') in acc for c in T.calls(n))
            if n.get('k') == 'Block' and in_loop:
                yield n
            for c in T.children(n):
                if 'k' in c:
                    yield from blocks(c, in_loop)
                else:
                    for cc in T.children(c):
                        yield from blocks(cc, in_loop)
        for b in blocks(f['body'], False):
            sts = [T.unsemi(x) for x in T.stmts_of(b)]
            resets = [x for x in sts if x.get('k') == 'Assign' and 'col_token_starts' in T.show(x['x']) and T.lit_int(T.peel(x['y'])) == 0]
            if not resets:
                continue
            # does the accumulator survive the break?  (pushes before the loop or in it: any accumulator used in the function)
            sites += 1
            cleared = any(x.get('k') == 'MCall' and x['n'] == 'clear' and T.peel(x['r']).get('n') in acc for x in sts)
            recorded = any(x.get('k') in ('Assign', 'AssignOp') and 'token_line_start' in T.show(x['x']) for x in sts)
            key = '%s:reset#%d' % (nm, sites)
            if cleared or recorded:
                chk.ok(rule, key, sample='%s: %s' % (nm, 'accumulator cleared' if cleared else 'split recorded'))
            else:
                chk.bad(rule, nm, 'reset-without-split', '%s resets col_token_starts at a line break inside a token but keeps counting the characters accumulated before the break: after '
                        '`x = """a\\nb"""` every later token on the closing line is reported too far right (past the end of the line)' % nm, LEX, resets[0].get('l'))
    chk.floor(PREFIX + ' column resets inside accumulating token loops', sites, 4)
    for nm in ('Lexer::emit_singleline_token', 'Lexer::emit_multiline_token'):
        f = by.get(nm)
        if not chk.need(f is not None, nm + ' not found'):
            continue
        adv = [n for n in T.walk(f['body']) if 'col_token_starts' in T.show(n.get('x') or {}) and (n.get('k') == 'AssignOp' or (n.get('k') == 'Assign' and 'col_token_starts +' in T.show(n['y'])))]
        lets = {}
        for n in T.walk(f['body']):
            if n.get('k') == 'Let' and n.get('init') is not None:
                for b in T.walk(n['pat']):
                    if b.get('k') == 'Bind':
                        lets[b['id']] = n['init']

        def derives(e, seen=()):
            if 'token_line_start' in T.show(e):
                return True
            return any(x.get('k') == 'Local' and x.get('id') in lets and x['id'] not in seen and derives(lets[x['id']], seen + (x['id'],)) for x in T.walk(e))
        uses = any(derives(n['y']) for n in adv)
        if adv and uses:
            chk.ok(rule, nm)
        else:
            chk.bad(rule, nm, 'advance-ignores-split', '%s advances the column by the whole token text, ignoring the part that lies before the last line break inside the token' % nm, LEX, f.get('l'))


def l4(chk, by):
    rule = PREFIX + '-L4'
    chk.rule(rule, 'indentation accounting: in every arm of `match sum_indent.cmp(&spaces_len)` of Lexer::lex_indent_dedent the column advance '
                   '(col_token_starts increments + lengths of emitted token texts) equals the characters that stay consumed (spaces_len minus what is given back through `cursor -=`); '
                   'decided by linear arithmetic over the locals')
    f = by.get('Lexer::lex_indent_dedent')
    if not chk.need(f is not None, 'Lexer::lex_indent_dedent not found'):
        return
    env = VS.let_env(f)
    ms = [n for n in T.walk(f['body']) if n.get('k') == 'Match' and n.get('src') == 'Normal' and 'cmp(' in T.show(n['x'])]
    if not chk.need(len(ms) == 1, 'lex_indent_dedent: the `sum_indent.cmp(&spaces_len)` match was not found'):
        return
    consumed_total = lin({'k': 'Local', 'n': 'spaces_len'}, env)
    for arm in ms[0]['arms']:
        which = '|'.join(sorted(T.last_seg(v) for v in T.pat_variants(arm['pat'])))
        adv, back = {}, {}
        ok = True
        for n in T.walk(arm['b']):
            if n.get('k') == 'AssignOp' and n['op'] in ('+', '+=') and 'col_token_starts' in T.show(n['x']):
                l = lin(n['y'], env)
                ok &= l is not None
                adv = add(adv, l or {}, 1)
            if n.get('k') == 'AssignOp' and n['op'] in ('-', '-=') and T.show(n['x']).endswith('cursor'):
                l = lin(n['y'], env)
                ok &= l is not None
                back = add(back, l or {}, 1)
        # emitted tokens: a path emits at most one token; take the maximum over alternatives by requiring all alternatives to agree
        lens = []
        for c in T.calls(arm['b']):
            if c.get('k') == 'MCall' and c['n'] in ('emit_singleline_token', 'emit_multiline_token') and len(c['a']) >= 2:
                tl = text_len(c['a'][-1], env)
                ok &= tl is not None
                lens.append(tl or {})
        if not ok:
            chk.lost.append('lex_indent_dedent: arm %s contains a non-linear column / cursor expression' % which)
            continue
        distinct = [dict(t) for t in {tuple(sorted(l.items())) for l in lens}] or [{}]
        for tl in distinct:
            total = add(adv, tl, 1)
            want = add(consumed_total, back, -1)
            if total == want:
                chk.ok(rule, which, sample='%s: advance %s == consumed %s' % (which, fmt(total), fmt(want)))
            else:
                chk.bad(rule, 'Lexer::lex_indent_dedent', 'arm:%s' % which, 'in the %s arm the column advances by %s while %s character(s) stay consumed: every token on the first line of a '
                        'nested block is reported at the wrong column' % (which, fmt(total), fmt(want)), LEX, arm['l'])


def fmt(l):
    if not l:
        return '0'
    return ' + '.join(('%s' % k if v == 1 else '%d*%s' % (v, k)) if k != '#' else str(v) for k, v in sorted(l.items())).replace('+ -', '- ')
