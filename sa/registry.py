"""Which properties are claimed, with the text that goes to MANIFEST.json (tools/mk_manifest.py)."""

CLAIMS = {}
NOT_APPLICABLE = {
    'C29': 'Incremental LS analysis vs fresh analysis quantifies over edit histories and type-checker state; no shape-visible necessary condition exists (ASTDiff yielding one edit is neither necessary nor sufficient), so static analysis cannot address it here.',
    'C30': 'LS rename preserving meaning needs completeness of the reference index and behavioural equality of the renamed program over all programs: runtime/semantic facts, not decidable from the shape of the code.',
    'C34': 'Inferred types describing run-time values is soundness of dependent type inference (substitution, unification, evaluation) over all programs; no structural clause whose breach necessarily breaks it could be identified.',
}


def claim(pid, technique, text, note, design_ref):
    CLAIMS[pid] = dict(technique=technique, text=text, note=note, design_ref=design_ref)


claim('C16', 'table agreement: rustc-resolved enum discriminants / match-arm tables vs frozen CPython tables',
      'Complete finite comparison of every opcode number, compare-op index, BINARY_OP index, jump classification row and '
      'magic-number range in erg_common/opcode*.rs, serialize.rs and ty/codeobj.rs::jump_abs_addr_3xx against dis.opmap/hasjrel/hasjabs/'
      'cmp_op/_nb_ops/MAGIC_NUMBER of CPython 3.7-3.12. The property is a table equality, so an exhaustive table comparison decides it.',
      'Trusts rustc\'s AdtDef::discriminants and path resolution, and the frozen tables in ref/ (dumped from the installed interpreters; re-dumped and compared in the thorough tier). '
      'The disassembly *display* code (read_instr_3xx) is not judged.',
      'DESIGN.md §3 C16')
