"""Which properties are claimed, with the text that goes to MANIFEST.json (tools/mk_manifest.py)."""

CLAIMS = {}
NOT_APPLICABLE = {
    'C29': 'Incremental LS analysis vs fresh analysis quantifies over edit histories and type-checker state; no shape-visible necessary condition exists (ASTDiff yielding one edit is neither necessary nor sufficient), so static analysis cannot address it here.',
    'C30': 'LS rename preserving meaning needs completeness of the reference index and behavioural equality of the renamed program over all programs: runtime/semantic facts, not decidable from the shape of the code.',
}


def claim(pid, technique, text, note, design_ref):
    CLAIMS[pid] = dict(technique=technique, text=text, note=note, design_ref=design_ref)


claim('C16', 'table agreement: rustc-resolved enum discriminants / match-arm tables vs frozen CPython tables',
      'Complete finite comparison of every opcode number, compare-op index, BINARY_OP index, jump classification row and '
      'magic-number range in erg_common/opcode*.rs, serialize.rs and ty/codeobj.rs::jump_abs_addr_3xx against dis.opmap/hasjrel/hasjabs/'
      'cmp_op/_nb_ops/MAGIC_NUMBER of CPython 3.7-3.12. The property is a table equality, so an exhaustive table comparison decides it.',
      'Trusts rustc\'s AdtDef::discriminants and path resolution, and the frozen tables in ref/ (dumped from the installed interpreters; re-dumped and compared in the thorough tier). '
      'The disassembly *display* code (read_instr_3xx) is not judged.',
      'DESIGN.md §3 C16')

claim('C06', 'table agreement: in-order evaluation of resolved match arms of Context::cheap_supertype_of on the numeric tower, Obj and Never; the union arms of structural_supertype_of read as quantifier formulas and evaluated over a finite model',
      'Decides the tower / top / bottom clauses of the property exhaustively (36 ordered pairs of numeric classes, Obj and Never against every built-in unit type, '
      'the reflexive prefix, the cheap_subtype_of flip). Structural: a missing pair falls into the final (Absolutely,false) arm, so the rows are necessary and sufficient for the tower. '
      'Also decides that the relation defined by the (Or, Or), (Or, t), (t, Or) arms is reflexive and transitive on every type of a 25-type model (5 atoms, their unions of 2 and 3).',
      'Does not decide reflexivity/transitivity over intersections, refinements or containers (nor unions beyond the three arms above). Guards other than Type::is_mono_value_class on an arm that can match a tower pair are ANCHOR-LOST.',
      'DESIGN.md §3 C06')
claim('C11', 'table agreement: precedence/category/associativity tables, reduction-loop comparator, lexer `-` arm',
      'Decides the documented precedence order (ordering constraints, not numbers), left associativity of all binary operators, the category table, the `stacked >= incoming` '
      'comparator of both reduction loops and the prefix-minus rule of the lexer, exhaustively over the listed operators.',
      'The shape of the parse-stack handling beyond the comparator is not decided.',
      'DESIGN.md §3 C11')
claim('C04', 'sibling cross-check of the folding functions + integer operation audit (typed HIR)',
      'Decides structural necessary conditions of "compile-time evaluation agrees with run time and never crashes": every numeric arm of ValueObj::try_<op> applies <op>, '
      'with its operands in the order of the pattern (every alternative of an or-pattern); '
      'Context::eval_bin dispatches OpKind::X to try_x; no trapping or truncating integer operation in those arms (each instance reported; the 51 present at the start were repaired in a2939fdd); `//` and `%` go through helpers that are interpreted and compared with Python on a grid (C04-py).',
      'Float rounding and non-arithmetic constant expressions are not decided. Operand types come from rustc typeck.',
      'DESIGN.md §3 C04')
claim('C21', 'coupled-state rule over every ModuleGraph method (who writes `graph` must write `index`); who-may-write + dominance rule for dependency edges',
      'Decides the representation invariant index[path] == position(path): every mutation of the node vector or of a Node::id is accompanied, on the same path, by an index update; '
      'and cycle refusal: the only edge writer is inc_ref, behind `referrer == depends_on` and a transitive deep_depends_on(depends_on, referrer) test that no conjunct weakens.',
      'Query answers and topological order over operation histories are not decided.',
      'DESIGN.md §3 C21')
claim('C31', 'structural rule on the ParentDir arm(s) of cheap_canonicalize_path; reachability of pop by last-component case, or coupled-state rule on a component counter',
      'Decides the clause "never discards leading parent-directory components" as necessary conditions: a ParentDir arm must be able to emit the component, and a pop happens only when '
      'the last accumulated component is a normal one (by matching on it, or by a counter incremented / decremented exactly with the pushes / pops of normal components).',
      'Idempotence is not decided; an unrecognised recording idiom is ANCHOR-LOST, not a violation.',
      'DESIGN.md §3 C31')
claim('C22', 'visitor completeness (type graph of hir x origin-to-visit dataflow in SideEffectChecker::check_expr)',
      'Decides that the effect checker visits every sub-expression position in which an effect can hide (every Expr-bearing field path of every hir::Expr variant), '
      'with reasoned, guarded exceptions for positions the front end cannot fill.',
      'Whether a visited call is classified as effectful is decided only for the callee test of the Call arm. Exceptions are frozen in sa/props/c22.py with guards evaluated on every run.',
      'DESIGN.md §3 C22')
claim('C23', 'visitor completeness over OwnershipChecker::check_expr',
      'Decides that the ownership checker visits every use position (receiver, positional, variadic and keyword arguments, collection elements, bodies).',
      'Which positions move a value, and scoping, are not decided.',
      'DESIGN.md §3 C23')
claim('C12', 'dominance of erasure by purity+no-referrer tests; visitor completeness and callee classification of the purity test',
      'Decides the clause "dropping unused definitions never removes a side effect" structurally: every erasure site is guarded by referrers.is_empty() && is_pure(expr), '
      'opt level 0 bypasses the optimiser, and SideEffectChecker::is_impure is conservative on every hir::Expr variant — arm by arm and branch by branch — and classifies calls by callee.',
      'Equality of output across optimisation levels for whole programs is a run-time fact and is not decided.',
      'DESIGN.md §3 C12')

claim('C25', 'table agreement Rust<->Python (ADT discriminants, typed HIR, python ast) + I/O discipline rules',
      'Decides the framing clauses: instruction tables and 1+2+n big-endian unsigned header agree on both sides (int.to_bytes / from_bytes or struct formats), both sides use exact-length I/O, and the size field equals the payload '
      '(two instances of the last are known findings).',
      'The correspondence between inputs and results of DummyVM::eval over histories is not decided.',
      'DESIGN.md §3 C25')
claim('C27', 'declaration-table scan of lib/pystd/**/*.d.er against dir(module) of CPython 3.7-3.13 and typeshed stubs (all platform branches)',
      'Decides the property as stated, exhaustively over every top-level declaration of every bundled declaration file (23 misspelt / wrongly mapped names were repaired, 7 remain as known findings).',
      'Trusts the frozen dir() tables in ref/ (re-dumped live in the thorough tier) and the typeshed copy shipped in the tooling venv; nested class members are not checked.',
      'DESIGN.md §3 C27')

claim('C01', 'integer-cast audit of the marshalling writers and of the constant-pool equality; structural rule on the constant-pool predicate; sign abstraction of the declared operator table',
      'Decides the clause "holds for every literal value, including naturals of 2**31 and above and signed zeros": constant marshalling is width-preserving, the '
      'constant pool never merges float constants by IEEE equality nor integers through a lossy cast, and (R3) the class a numeric result is wrapped in can hold every result of the operator.',
      'The semantics of emitted operators, loops and functions are run-time facts and are not decided. Cast types come from rustc typeck.',
      'DESIGN.md §3 C01')
claim('C15', 'writer/reader sibling cross-check (ordered field, version, encoding lists), marshal type-code table, reader panic audit',
      'Decides: code-object layout agreement between CodeObj::into_bytes and from_bytes per version, fast-local kind agreement, DataTypePrefix == marshal.c codes, '
      'no lossy width in the writers, normalized TYPE_LONG digit counts (R6: count = ceil(bits/15) for every bit length), and lists every panicking operation of the reader on '
      'input-derived data (the 12 panicking operations present at the start were repaired in cbe78429; early-return length guards are recognised). The disassembly display of a well-formed file with corrupted bytecode is not judged.',
      'Value equality after marshal.loads of strings/tuples is not decided. The marshal code table is frozen and cross-checked against marshal.dumps in the thorough tier.',
      'DESIGN.md §3 C15')

claim('C13', 'per-version specialisation of the code generator (abstract interpretation over typed HIR) against dis.opmap; jump-unit rules; argument-flow rule for --py-command',
      'Decides: (R1) every opcode that can reach write_instr in code reachable under target 3.v is an opcode of CPython 3.v (v = 7..11, 500+ site x version obligations); '
      '(R3) jump operands are converted to the unit of the target (bytes <= 3.9, instructions >= 3.10); (R2) the interpreter chosen by --py-command reaches the spawn; '
      '(R4, shared with C14-R5) the load form / call form pairing of method calls does not differ between targets.',
      'That the emitted sequence computes the same result on every version is a run-time fact and is not decided. Three same-number aliases are frozen with reasons in sa/props/c13.py.',
      'DESIGN.md §3 C13')
claim('C14', 'abstract interpretation of the code generator per target version over (code-length parity, bytes since last opcode) with summaries; who-may-write rule; operand index-space typing; path enumeration of the call protocol; upper-bound analysis of the line-table writers; K5 cast audit; closure-tuple agreement',
      'Decides instruction alignment of everything the generator emits (so that every recorded lasti / patched jump target is an instruction boundary), the 3.11 inline-cache '
      'sizes against CPython\'s _inline_cache_entries, single ownership of the code array and of the stack accounting fields, the index space of every operand (R4), the pairing of '
      'the load form and the call form of method calls over 64 truth assignments (R5), the arithmetic of the line table (R6: bounded bytes, no trapping conversion, conserved totals; '
      'R7: table format per target — the raw co_lnotab up to 3.9, encoders with the constants of PEP 626 / PEP 657 for 3.10 / 3.11, chosen in CodeObj::into_bytes), operand width (R8), the closure tuple against the inner co_freevars (R9) and pass-through capture (R10: known finding).',
      'Does not decide that stacksize bounds the real operand depth, nor jump target values.',
      'DESIGN.md §3 C14')

claim('C08', 'typestate analysis of impl Lexer over structured HIR (characters known available; consumed vs appended characters; units of column arithmetic; indent/dedent pairing)',
      'Decides: no consume().unwrap() without a character known available (totality at end of input), the column advance of every escape arm (appended characters + the difference recorded by push_escaped = consumed characters; the 21 drifting arms present at the start were repaired in a6637b08), '
      'column arithmetic in characters not bytes, Indent/Dedent pairing with the indent stack and EOF only on an empty stack.',
      'Termination of the token loop and the columns of multi-line tokens are not decided. Entry contexts of lex_num_dot / lex_exponent are frozen from the call sites.',
      'DESIGN.md §3 C08')

claim('C24', 'shares the lexer column rules (consumed vs appended characters per escape arm; column arithmetic in characters)',
      'Decides the clause "locations after string escapes on the same line": diagnostic locations are concatenations of token locations, so token columns must be faithful '
      '(the 21 drifting escape arms present at the start were repaired in a6637b08).',
      'That a location covers the construct it names and that rendering never crashes are not decided (format_context\'s unchecked `ln_end - ln_begin` is listed as undecided).',
      'DESIGN.md §3 C24')
claim('C28', 'structural rules on els::util::pos_to_byte_index and FileCache::incremental_update; coupled-state rule cache text / VFS',
      'Decides necessary conditions of document synchronisation: UTF-16 column units, char-boundary results, line clamp, full-text changes, cache and VFS updated together, offsets '
      'computed in the working text, and no fallible step between a didChange notification and the update of the cached copy.',
      'Equality of the documents over arbitrary edit histories is not decided.',
      'DESIGN.md §3 C28')

claim('C02', 'sign-interval abstraction of Python arithmetic over the declared operator table (typed HIR) + guard rule over the dunders of value-constrained runtime classes (python ast)',
      'Decides the clause "a value-constraint error raised by Erg\'s runtime classes (a Nat becoming negative)": no operator is declared to return Nat where Python can return a negative '
      'number, and no runtime wrapper narrows into Nat / Nat! without a guard (one known finding: Nat!.__truediv__).',
      'TypeError / AttributeError / NameError freedom is soundness of the whole type checker and is not decided.',
      'DESIGN.md §3 C02')
claim('C26', 'declared operator table (typed HIR of init_builtin_classes) vs abstract sign/integrality semantics of Python and vs the runtime wrapper classes found through the MRO (python ast)',
      'Decides that every operation returns an instance of a class that can hold Python\'s result: sign soundness (no Nat for possibly negative results), integrality '
      '(one known finding: Int ** negative Int), agreement of the wrapper applied at run time with the declared class, and (C26-op) that every arithmetic / comparison dunder of the '
      'runtime classes applies its own Python operator in every branch.',
      'Value-level agreement with the Python built-ins beyond the operator applied (conversions, wrappers of operands) is not decided.',
      'DESIGN.md §3 C26')

claim('C03', 'row-by-row soundness of the comparison-atom arms of is_super_pred_of under a three-orderings model; quantifier structure of the And/Or arms',
      'Decides (R1) that each atom x atom row (Equal/NotEqual/GreaterEqual/LessEqual on both sides) answers "super" only when the set of integers really is a superset, for every '
      'ordering of the two constants (complete for the 14 rows; the truth tables of TyParamOrdering::is_lt/canbe_le/... are read from the source), (R2) that the And arm '
      'quantifies over the super side and the Or arm over the sub side, (mentions) that the occurrence test deciding whether a refinement constrains its variable inspects every variant with sub-terms, and (comb, shared with C32) that the predicate constructors and / or keep every conjunct / disjunct.',
      'reduce_preds, General* predicates, the completeness of the test on `not (..)` predicates (they are now rejected rather than vacuously accepted) and the interplay with unification are not decided. '
      'Seen, not demonstrated: Predicate::can_be_false answers `!p.can_be_false()` for Not(p) and `l && r` for And(l, r).',
      'DESIGN.md §3 C03')

claim('C32', 'table rule over the resolved arms of Predicate::invert / and / or under the three-orderings model; propositional equivalence (truth tables) of the arms and branches of and / or',
      'Decides the comparison-atom rows of invert (each must denote the complement), the TRUE/FALSE rows and the Equal-or-GreaterEqual short-cut of and/or, exhaustively for those rows '
      '(General<=/>= were inverted to each other at the start: repaired), and that every arm / branch of Predicate::and and Predicate::or in the propositional fragment returns the '
      'conjunction / disjunction of its arguments under the equalities its branch conditions state.',
      'Or-sets (treated as opaque atoms) and the arithmetic short-cuts other than Equal-or-GreaterEqual are not decided.',
      'DESIGN.md §3 C32')

claim('C17', 'table agreement across crates: characters produced by the lexer escape arms vs the replace chain of PyScriptGenerator::escape_str; typestate rule on the fresh-name counter',
      'Decides the clause "string literals with arbitrary contents": every unescaped character that cannot stand raw in a Python literal must be escaped by the transpiler '
      '(`"` and `\\` were unescaped at the start: repaired in a4bea8d6); and that generated helper names are unique: the fresh-name counter is incremented before anything that can take the same name template.',
      'Behavioural equivalence of the transpiled script and the compiled bytecode is not decided.',
      'DESIGN.md §3 C17')
claim('C18', 'flow rule inside JsonGenerator: value / literal text must pass a JSON encoder before reaching the output',
      'Decides that every literal or value text written into the JSON output is encoded (repaired in /repo: a json_value encoder now wraps every sink).',
      'That the emitted values equal the constant initializers is not decided.',
      'DESIGN.md §3 C18')

claim('C34', 'table agreement: dependent List / List! signatures (typed HIR) vs symbolic-length interpretation of the run-time list operations (python ast + frozen built-in list semantics)',
      'Decides only the length clause ("length-indexed list types", "an index the checker accepts as in range for a list type is in range at run time") and only at the declarations: '
      'every List / List! operation whose declared type computes a length (N + M, N + 1, N * M, N - 1, 0) is bound to a run-time implementation that produces that length; '
      'the index type of __getitem__ ends at N - 1; a list literal is given the number of its lowered elements as length; the +, -, * of the declared lengths are folded by '
      'ValueObj::try_add / try_sub / try_mul, whose numeric arms each apply their own operator in operand order.',
      'Soundness of substitution / unification / evaluation of these signatures during inference, and the singleton / enum / interval clauses of the property, are not decided '
      '(the arithmetic tables behind the latter are decided under C02 / C04 / C26).',
      'DESIGN.md §8.2 C34')
claim('C33', 'dominance rule over the structured HIR of Context::get_match_call_t; table agreement of the four interval operators (typed HIR + python ast)',
      'Decides that a `match` call is typed successfully only after sub_unify(scrutinee type, union of all arm pattern types) succeeded, its failure producing match_error; and that the '
      'refinement type built for each interval operator excludes exactly the ends excluded by the run-time Range class emitted for it.',
      'Soundness of sub_unify / union for other pattern types and the other run-time arm tests generated by the code generator are not decided.',
      'DESIGN.md §3 C33')
claim('C05', 'dominance rules over the pipeline functions (lower, effect check, ownership check, HIRBuilder::check, Compiler::compile*)',
      'Decides the pipeline clause "is rejected ... and is not executed": no stage returns Ok with accumulated errors, no collected error is dropped on the way, stages are chained '
      'with `?`, and the code generator runs only after a successful build.',
      'That the type checker detects each definite error at every nesting depth is not decided.',
      'DESIGN.md §3 C05')

claim('C07', 'scan of every match over a syntax-tree enum in the checker / optimiser / code generator for todo!/unimplemented!/panic! arms on constructible variants; monotone count of unimplemented markers',
      'Decides one necessary condition of "never panics on a well-formed program": no total traversal sends a variant the front end can construct into an unimplemented arm '
      '(two reviewed exceptions with reasons), and no new unimplemented marker appears in the pipeline files.',
      'Internal-error diagnostics (compiler_bug, type_not_found), unwrap()/enum_unwrap! sites and hangs depend on inference state, not on shape, and are not decided.',
      'DESIGN.md §3 C07')
claim('C09', 'SCC analysis of the resolved call graph of erg_parser for depth guards; who-may-call rule for the enlarged-stack thread',
      'Decides the clause "deeper nesting is reported as an error instead of overflowing the stack": every recursive cycle through try_reduce_* needs a depth guard '
      '(known finding: none exists), and the CLI runs the parser on the enlarged-stack thread.',
      'Panic-freedom of the enum_unwrap!/unwrap sites on arbitrary token sequences and termination are not decided.',
      'DESIGN.md §3 C09')

claim('C10', 'effect reachability over the resolved call graph from the parser entry points; ADT rule on derived equality of the syntax tree; filter-dominance and comment-discrimination rules on the lexer',
      'Decides (R1) determinism as absence of clocks / RNG / randomly seeded hashers / environment reads / mutable statics in everything reachable from the lexer, parser and '
      'desugarer, (R2) that the AST equality through which layout-insensitivity is observed ignores positions (the 5 nodes that derived PartialEq over Location fields at the start were repaired), '
      '(R3) that every Indent / Dedent decision of the lexer lies behind the filter for lines holding only spaces or a line comment, and (R4) that every decision on `#` separates `#[`.',
      'That line continuations and redundant parentheses yield the same tree is behaviour of the parser and is not decided.',
      'DESIGN.md §3 C10')

claim('C19', 'dominance rule in lower(); type-based scan for iteration over RandomState collections; scope rule for named lock guards at scheduling calls',
      'Decides three necessary conditions of schedule-independence: thread diagnostics are collected only after the join, no randomly seeded hash order is iterated in '
      'erg_common / erg_parser / erg_compiler, and no named lock guard is in scope across a yield / sleep / join (one reviewed exception).',
      'Byte-identical bytecode across schedules (e.g. whether the process-global fresh-name counter reaches emitted names) is not decided.',
      'DESIGN.md §3 C19')
claim('C20', 'who-may-call rule on the resolved call graph + dominance / must-pass rules in get_mod_with_path, PackageBuilder::register, ModuleGraph::inc_ref, build_deps_and_module, start_analysis_process',
      'Decides that a module context is read from the shared cache only through get_mod_with_path and only after the analysis thread of that module was joined (or is not pending); '
      'and the shape-visible parts of "terminates, analyses each module once": the descent of register is cut by the seen-test and by the refused cyclic edge, the module graph is '
      'acyclic by construction (single edge writer behind a transitive reachability test), an analysis starts only with an entry removed from the work list, the built node leaves '
      'the graph, and every exit of start_analysis_process registers a promise.',
      'Deadlock-freedom of the joins under every thread schedule, visibility of public names with their declared types, and once-only execution at run time are not decided.',
      'DESIGN.md §3 C20')
