"""Helpers over the typed-HIR JSON trees exported by ergfacts."""

CHILD_KEYS = ('x', 'y', 'r', 'f', 'c', 't', 'e', 'b', 'i', 'g', 'init', 'els', 'base', 'pat', 'sub', 'p', 'm', 'lo', 'hi')
LIST_KEYS = ('a', 's', 'arms', 'f', 'p', 'params', 'b')


def children(n):
    """direct child nodes (dicts with a 'k', or arm dicts) in source order"""
    out = []
    for k, v in n.items():
        if k in ('m', 'v'):
            continue
        if isinstance(v, dict):
            out.append(v)
        elif isinstance(v, list):
            for x in v:
                if isinstance(x, dict):
                    out.append(x)
    return out


def walk(n):
    """pre-order over every dict in the tree (expressions, patterns, arms, field inits)"""
    stack = [n]
    while stack:
        x = stack.pop()
        yield x
        ch = children(x)
        stack.extend(reversed(ch))


def walk_exprs(n, into_closures=True):
    for x in walk(n):
        if 'k' in x:
            yield x


def kind(n):
    return n.get('k')


def callee(n):
    """resolved callee def-path of a Call / MCall (impl-resolved when known)"""
    if n.get('k') in ('Call', 'MCall'):
        return n.get('rd') or n.get('fn')
    return None


def callee_decl(n):
    if n.get('k') in ('Call', 'MCall'):
        return n.get('fn')
    return None


def calls(n):
    for x in walk(n):
        if x.get('k') in ('Call', 'MCall'):
            yield x


def macros(n):
    return n.get('m') or []


def in_macro(n, name):
    return name in (n.get('m') or [])


def ty(n, types, key='ty'):
    i = n.get(key)
    return types[i] if isinstance(i, int) and i < len(types) else None


def peel(n):
    """strip references / derefs / parens-like wrappers"""
    while True:
        if n.get('k') == 'Ref':
            n = n['x']
        elif n.get('k') == 'Unary' and n.get('op') == '*':
            n = n['x']
        elif n.get('k') == 'Block' and not n.get('s') and 'e' in n:
            n = n['e']
        else:
            return n


def field_chain(n):
    """self.a.b -> ['self','a','b']; None if not a pure local/field chain"""
    n = peel(n)
    out = []
    while True:
        k = n.get('k')
        if k == 'Field':
            out.append(n['n'])
            n = peel(n['x'])
        elif k == 'Local':
            out.append(n['n'])
            return list(reversed(out))
        elif k == 'MCall' and n['n'] in ('as_ref', 'as_mut', 'borrow', 'borrow_mut', 'clone', 'unwrap', 'as_deref') and not n['a']:
            out.append(n['n'] + '()')
            n = peel(n['r'])
        else:
            return None


def _strip_generics(t):
    out, depth = [], 0
    for ch in t:
        if ch == '<':
            depth += 1
        elif ch == '>':
            depth -= 1
        elif depth == 0:
            out.append(ch)
    return ''.join(out)


_NORM = {}


def norm(path):
    """canonical short form 'Type::method' / 'module::func' of a def-path:
    `a::b::<impl x::Y<T>>::m` -> `Y::m`, `<x::Y as Tr>::m` -> `Y::m`, `a::b::f` -> `b::f`"""
    if not path:
        return path
    r = _NORM.get(path)
    if r is not None:
        return r
    s = path
    i = s.find('<')
    while i != -1 and (s.startswith('<impl ', i) or ' as ' in s[i:]):
        depth, j = 0, i
        while j < len(s):
            if s[j] == '<':
                depth += 1
            elif s[j] == '>':
                depth -= 1
                if depth == 0:
                    break
            j += 1
        inner = s[i + 1:j]
        if inner.startswith('impl '):
            inner = inner[5:]
            if ' for ' in inner:
                inner = inner.split(' for ', 1)[1]
        else:
            # split at top-level ' as '
            d, k = 0, 0
            cut = None
            while k < len(inner):
                if inner[k] == '<':
                    d += 1
                elif inner[k] == '>':
                    d -= 1
                elif d == 0 and inner.startswith(' as ', k):
                    cut = k
                    break
                k += 1
            if cut is not None:
                inner = inner[:cut]
        inner = _strip_generics(inner).strip().lstrip('&').replace('mut ', '').strip()
        ty = inner.split('::')[-1]
        s = s[:i] + ty + s[j + 1:]
        i = s.find('<', i + len(ty))
    s = _strip_generics(s)
    parts = [x for x in s.split('::') if x]
    r = '::'.join(parts[-2:])
    _NORM[path] = r
    return r


def cq(n):
    """normalised resolved callee of a call node ('Type::method')"""
    c = callee(n)
    return norm(c) if c else None


def last_seg(path):
    return path.rsplit('::', 1)[-1] if path else path


def show(n, depth=0):
    """compact, position-free rendering used in messages and finding keys"""
    if n is None:
        return ''
    if depth > 6:
        return '…'
    k = n.get('k')
    d = depth + 1
    if k is None:
        if 'pat' in n and 'b' in n:
            return show(n['pat'], d) + ' => …'
        return '?'
    if k == 'Local':
        return n['n']
    if k == 'Path':
        p = n['d'].split('::')
        return '::'.join(p[-2:]) if n.get('dk', '').startswith('Ctor') or n.get('dk') in ('AssocFn', 'AssocConst') else p[-1]
    if k == 'Lit':
        v = n['v']
        if v is None:
            return '?'
        (kk, vv), = v.items()
        return repr(vv) if kk in ('str', 'char') else str(vv).lower() if kk == 'bool' else str(vv)
    if k == 'Field':
        return show(n['x'], d) + '.' + n['n']
    if k == 'MCall':
        return '%s.%s(%s)' % (show(n['r'], d), n['n'], ', '.join(show(a, d) for a in n['a']))
    if k == 'Call':
        f = n.get('fn')
        if f:
            p = f.split('::')
            fs = '::'.join(p[-2:])
        else:
            fs = show(n.get('f'), d)
        return '%s(%s)' % (fs, ', '.join(show(a, d) for a in n['a']))
    if k == 'Binary':
        return '%s %s %s' % (show(n['x'], d), n['op'], show(n['y'], d))
    if k == 'Unary':
        return n['op'] + show(n['x'], d)
    if k == 'Ref':
        return '&' + show(n['x'], d)
    if k == 'Cast':
        return show(n['x'], d) + ' as _'
    if k == 'Assign':
        return '%s = %s' % (show(n['x'], d), show(n['y'], d))
    if k == 'AssignOp':
        return '%s %s %s' % (show(n['x'], d), n['op'], show(n['y'], d))
    if k == 'Index':
        return '%s[%s]' % (show(n['x'], d), show(n['i'], d))
    if k == 'Tup':
        return '(' + ', '.join(show(a, d) for a in n['a']) + ')'
    if k == 'Array':
        return '[' + ', '.join(show(a, d) for a in n['a']) + ']'
    if k == 'Struct':
        return last_seg(n.get('d', '?')) + '{' + ', '.join(f['n'] for f in n['f']) + '}'
    if k == 'Ret':
        return 'return ' + show(n.get('x'), d)
    if k == 'Semi':
        return show(n['e'], d) + ';'
    if k == 'Block':
        if n.get('m'):
            return n['m'][0] + '!(…)'
        parts = [show(s, d) for s in n.get('s', [])[:2]]
        if 'e' in n:
            parts.append(show(n['e'], d))
        return '{ ' + ' '.join(parts) + ' }'
    if k == 'If':
        return 'if %s {…}' % show(n['c'], d)
    if k == 'LetCond':
        return 'let %s = %s' % (show(n['pat'], d), show(n['init'], d))
    if k == 'Let':
        return 'let %s = %s' % (show(n['pat'], d), show(n.get('init'), d))
    if k == 'Match':
        return 'match %s {…}' % show(n['x'], d)
    if k == 'Closure':
        return '|..| ' + show(n['b'], d)
    if k == 'Loop':
        return 'loop {…}'
    if k in ('Break', 'Continue'):
        return k.lower()
    if k == 'Repeat':
        return '[%s; _]' % show(n['x'], d)
    # patterns
    if k == 'Wild':
        return '_'
    if k == 'Bind':
        return n['n'] + (' @ ' + show(n['sub'], d) if 'sub' in n else '')
    if k == 'PTupleStruct':
        return '::'.join(n['d'].split('::')[-2:]) + '(' + ', '.join(show(p, d) for p in n['p']) + ')'
    if k == 'PStruct':
        return '::'.join(n['d'].split('::')[-2:]) + '{' + ', '.join(f['n'] for f in n['f']) + '}'
    if k == 'PPath':
        return '::'.join(n['d'].split('::')[-2:])
    if k == 'POr':
        return ' | '.join(show(p, d) for p in n['p'])
    if k == 'PTuple':
        return '(' + ', '.join(show(p, d) for p in n['p']) + ')'
    if k == 'PRef':
        return '&' + show(n['p'], d)
    if k == 'PLit':
        return ('-' if n.get('neg') else '') + show({'k': 'Lit', 'v': n['v']}, d)
    if k == 'PRange':
        return '%s..%s' % (show(n.get('lo'), d), show(n.get('hi'), d))
    return k


def pat_variants(p):
    """set of variant / const def-paths a pattern can match at its top level; '_' for catch-all"""
    k = p.get('k')
    if k in ('Wild',):
        return {'_'}
    if k == 'Bind':
        return pat_variants(p['sub']) if 'sub' in p else {'_'}
    if k in ('PTupleStruct', 'PStruct', 'PPath'):
        return {p['d']}
    if k == 'POr':
        s = set()
        for q in p['p']:
            s |= pat_variants(q)
        return s
    if k == 'PRef':
        return pat_variants(p['p'])
    if k == 'PGuard':
        return pat_variants(p['p'])
    return {'?' + str(k)}


def pat_bindings(p):
    """names bound by a pattern"""
    return [x['n'] for x in walk(p) if x.get('k') == 'Bind']


def stmts_of(block):
    """statements + tail of a Block as one list (Semi unwrapped is NOT done here)"""
    out = list(block.get('s', []))
    if 'e' in block:
        out.append(block['e'])
    return out


def unsemi(n):
    return n['e'] if n.get('k') == 'Semi' else n


def walk_ctx(n, ctx=()):
    """pre-order walk yielding (node, ctx): ctx is a tuple of enclosing control facts:
       ('if', cond, True|False)  - inside then / else branch of an `if cond`
       ('arm', match_node, arm)  - inside the body (or guard) of a match arm
       ('closure', node), ('loop', node)"""
    yield n, ctx
    k = n.get('k')
    if k == 'If':
        yield from walk_ctx(n['c'], ctx)
        yield from walk_ctx(n['t'], ctx + (('if', n['c'], True),))
        if 'e' in n:
            yield from walk_ctx(n['e'], ctx + (('if', n['c'], False),))
        return
    if k == 'Match':
        yield from walk_ctx(n['x'], ctx)
        for arm in n['arms']:
            c2 = ctx + (('arm', n, arm),)
            if 'g' in arm:
                yield from walk_ctx(arm['g'], c2)
            yield from walk_ctx(arm['b'], c2)
        return
    if k == 'Closure':
        yield from walk_ctx(n['b'], ctx + (('closure', n),))
        return
    if k == 'Loop':
        yield from walk_ctx(n['b'], ctx + (('loop', n),))
        return
    for c in children(n):
        if 'k' in c:
            yield from walk_ctx(c, ctx)
        else:
            # arm-like / field-init dicts
            for cc in children(c):
                yield from walk_ctx(cc, ctx)


def conds(ctx):
    """human-readable path condition"""
    out = []
    for c in ctx:
        if c[0] == 'if':
            out.append(('' if c[2] else '!') + '(' + show(c[1]) + ')')
        elif c[0] == 'arm':
            out.append('%s is %s' % (show(c[1]['x']), show(c[2]['pat'])) + (' if ' + show(c[2]['g']) if 'g' in c[2] else ''))
    return out


def match_table(m, value=lambda b: b):
    """[(set of variant paths, arm)] for a Match node"""
    return [(pat_variants(a['pat']), a) for a in m['arms']]


def lit_int(n):
    n = peel(n)
    if n.get('k') == 'Lit' and isinstance(n.get('v'), dict) and 'int' in n['v']:
        return n['v']['int']
    return None
