"""Helpers over the typed-HIR JSON trees exported by ergfacts."""

CHILD_KEYS = ('x', 'y', 'r', 'f', 'c', 't', 'e', 'b', 'i', 'g', 'init', 'els', 'base', 'pat', 'sub', 'p', 'm', 'lo', 'hi')
LIST_KEYS = ('a', 's', 'arms', 'f', 'p', 'params', 'b')


def children(n):
    """direct child nodes (dicts with a 'k', or arm dicts) in source order"""
    out = []
    for k, v in n.items():
        if k in ('m', 'v'):
            continue
        if isinstance(v, dict):
            out.append(v)
        elif isinstance(v, list):
            for x in v:
                if isinstance(x, dict):
                    out.append(x)
    return out


def walk(n):
    """pre-order over every dict in the tree (expressions, patterns, arms, field inits)"""
    stack = [n]
    while stack:
        x = stack.pop()
        yield x
        ch = children(x)
        stack.extend(reversed(ch))


def walk_exprs(n, into_closures=True):
    for x in walk(n):
        if 'k' in x:
            yield x


def kind(n):
    return n.get('k')


def callee(n):
    """resolved callee def-path of a Call / MCall (impl-resolved when known)"""
    if n.get('k') in ('Call', 'MCall'):
        return n.get('rd') or n.get('fn')
    return None


def callee_decl(n):
    if n.get('k') in ('Call', 'MCall'):
        return n.get('fn')
    return None


def calls(n):
    for x in walk(n):
        if x.get('k') in ('Call', 'MCall'):
            yield x


def macros(n):
    return n.get('m') or []


def in_macro(n, name):
    return name in (n.get('m') or [])


def ty(n, types, key='ty'):
    i = n.get(key)
    return types[i] if isinstance(i, int) and i < len(types) else None


def peel(n):
    """strip references / derefs / parens-like wrappers"""
    while True:
        if n.get('k') == 'Ref':
            n = n['x']
        elif n.get('k') == 'Unary' and n.get('op') == '*':
            n = n['x']
        elif n.get('k') == 'Block' and not n.get('s') and 'e' in n:
            n = n['e']
        else:
            return n


def field_chain(n):
    """self.a.b -> ['self','a','b']; None if not a pure local/field chain"""
    n = peel(n)
    out = []
    while True:
        k = n.get('k')
        if k == 'Field':
            out.append(n['n'])
            n = peel(n['x'])
        elif k == 'Local':
            out.append(n['n'])
            return list(reversed(out))
        elif k == 'MCall' and n['n'] in ('as_ref', 'as_mut', 'borrow', 'borrow_mut', 'clone', 'unwrap', 'as_deref') and not n['a']:
            out.append(n['n'] + '()')
            n = peel(n['r'])
        else:
            return None


def last_seg(path):
    return path.rsplit('::', 1)[-1] if path else path


def show(n, depth=0):
    """compact, position-free rendering used in messages and finding keys"""
    if n is None:
        return ''
    if depth > 6:
        return '…'
    k = n.get('k')
    d = depth + 1
    if k is None:
        if 'pat' in n and 'b' in n:
            return show(n['pat'], d) + ' => …'
        return '?'
    if k == 'Local':
        return n['n']
    if k == 'Path':
        p = n['d'].split('::')
        return '::'.join(p[-2:]) if n.get('dk', '').startswith('Ctor') or n.get('dk') in ('AssocFn', 'AssocConst') else p[-1]
    if k == 'Lit':
        v = n['v']
        if v is None:
            return '?'
        (kk, vv), = v.items()
        return repr(vv) if kk in ('str', 'char') else str(vv).lower() if kk == 'bool' else str(vv)
    if k == 'Field':
        return show(n['x'], d) + '.' + n['n']
    if k == 'MCall':
        return '%s.%s(%s)' % (show(n['r'], d), n['n'], ', '.join(show(a, d) for a in n['a']))
    if k == 'Call':
        f = n.get('fn')
        if f:
            p = f.split('::')
            fs = '::'.join(p[-2:])
        else:
            fs = show(n.get('f'), d)
        return '%s(%s)' % (fs, ', '.join(show(a, d) for a in n['a']))
    if k == 'Binary':
        return '%s %s %s' % (show(n['x'], d), n['op'], show(n['y'], d))
    if k == 'Unary':
        return n['op'] + show(n['x'], d)
    if k == 'Ref':
        return '&' + show(n['x'], d)
    if k == 'Cast':
        return show(n['x'], d) + ' as _'
    if k == 'Assign':
        return '%s = %s' % (show(n['x'], d), show(n['y'], d))
    if k == 'AssignOp':
        return '%s %s %s' % (show(n['x'], d), n['op'], show(n['y'], d))
    if k == 'Index':
        return '%s[%s]' % (show(n['x'], d), show(n['i'], d))
    if k == 'Tup':
        return '(' + ', '.join(show(a, d) for a in n['a']) + ')'
    if k == 'Array':
        return '[' + ', '.join(show(a, d) for a in n['a']) + ']'
    if k == 'Struct':
        return last_seg(n.get('d', '?')) + '{' + ', '.join(f['n'] for f in n['f']) + '}'
    if k == 'Ret':
        return 'return ' + show(n.get('x'), d)
    if k == 'Semi':
        return show(n['e'], d) + ';'
    if k == 'Block':
        if n.get('m'):
            return n['m'][0] + '!(…)'
        parts = [show(s, d) for s in n.get('s', [])[:2]]
        if 'e' in n:
            parts.append(show(n['e'], d))
        return '{ ' + ' '.join(parts) + ' }'
    if k == 'If':
        return 'if %s {…}' % show(n['c'], d)
    if k == 'LetCond':
        return 'let %s = %s' % (show(n['pat'], d), show(n['init'], d))
    if k == 'Let':
        return 'let %s = %s' % (show(n['pat'], d), show(n.get('init'), d))
    if k == 'Match':
        return 'match %s {…}' % show(n['x'], d)
    if k == 'Closure':
        return '|..| ' + show(n['b'], d)
    if k == 'Loop':
        return 'loop {…}'
    if k in ('Break', 'Continue'):
        return k.lower()
    if k == 'Repeat':
        return '[%s; _]' % show(n['x'], d)
    # patterns
    if k == 'Wild':
        return '_'
    if k == 'Bind':
        return n['n'] + (' @ ' + show(n['sub'], d) if 'sub' in n else '')
    if k == 'PTupleStruct':
        return '::'.join(n['d'].split('::')[-2:]) + '(' + ', '.join(show(p, d) for p in n['p']) + ')'
    if k == 'PStruct':
        return '::'.join(n['d'].split('::')[-2:]) + '{' + ', '.join(f['n'] for f in n['f']) + '}'
    if k == 'PPath':
        return '::'.join(n['d'].split('::')[-2:])
    if k == 'POr':
        return ' | '.join(show(p, d) for p in n['p'])
    if k == 'PTuple':
        return '(' + ', '.join(show(p, d) for p in n['p']) + ')'
    if k == 'PRef':
        return '&' + show(n['p'], d)
    if k == 'PLit':
        return ('-' if n.get('neg') else '') + show({'k': 'Lit', 'v': n['v']}, d)
    if k == 'PRange':
        return '%s..%s' % (show(n.get('lo'), d), show(n.get('hi'), d))
    return k


def pat_variants(p):
    """set of variant / const def-paths a pattern can match at its top level; '_' for catch-all"""
    k = p.get('k')
    if k in ('Wild',):
        return {'_'}
    if k == 'Bind':
        return pat_variants(p['sub']) if 'sub' in p else {'_'}
    if k in ('PTupleStruct', 'PStruct', 'PPath'):
        return {p['d']}
    if k == 'POr':
        s = set()
        for q in p['p']:
            s |= pat_variants(q)
        return s
    if k == 'PRef':
        return pat_variants(p['p'])
    if k == 'PGuard':
        return pat_variants(p['p'])
    return {'?' + str(k)}


def pat_bindings(p):
    """names bound by a pattern"""
    return [x['n'] for x in walk(p) if x.get('k') == 'Bind']


def stmts_of(block):
    """statements + tail of a Block as one list (Semi unwrapped is NOT done here)"""
    out = list(block.get('s', []))
    if 'e' in block:
        out.append(block['e'])
    return out


def unsemi(n):
    return n['e'] if n.get('k') == 'Semi' else n
