"""Names defined by the typeshed stub of a stdlib module on *any* platform / version branch (python `ast` over .pyi)."""
import ast, os

ROOTS = ['/opt/veriftools/pyvenv/lib/python3.11/site-packages/typeshed_client/typeshed']
_cache = {}


def stub_path(mod):
    rel = mod.replace('.', '/')
    for r in ROOTS:
        for cand in (os.path.join(r, rel + '.pyi'), os.path.join(r, rel, '__init__.pyi')):
            if os.path.exists(cand):
                return cand
    return None


def available():
    return any(os.path.isdir(r) for r in ROOTS)


def names(mod, depth=0):
    if mod in _cache:
        return _cache[mod]
    _cache[mod] = set()
    p = stub_path(mod)
    if not p:
        return set()
    try:
        tree = ast.parse(open(p, encoding='utf-8').read())
    except SyntaxError:
        return set()
    out = set()
    is_pkg = p.endswith('__init__.pyi')

    def visit(body):
        for st in body:
            if isinstance(st, (ast.FunctionDef, ast.AsyncFunctionDef, ast.ClassDef)):
                out.add(st.name)
            elif isinstance(st, ast.Assign):
                for t in st.targets:
                    for n in ast.walk(t):
                        if isinstance(n, ast.Name):
                            out.add(n.id)
            elif isinstance(st, ast.AnnAssign):
                if isinstance(st.target, ast.Name):
                    out.add(st.target.id)
            elif isinstance(st, ast.Import):
                for a in st.names:
                    out.add((a.asname or a.name).split('.')[0])
            elif isinstance(st, ast.ImportFrom):
                base = st.module or ''
                if st.level:
                    pkg = mod.split('.') if is_pkg else mod.split('.')[:-1]
                    pkg = pkg[:len(pkg) - (st.level - 1)] if st.level > 1 else pkg
                    base = '.'.join(pkg + ([st.module] if st.module else []))
                for a in st.names:
                    if a.name == '*':
                        if depth < 3:
                            out.update(n for n in names(base, depth + 1) if not n.startswith('_'))
                    else:
                        out.add(a.asname or a.name)
            elif isinstance(st, ast.If):
                t, f = version_feasible(st.test)
                if t:
                    visit(st.body)
                if f:
                    visit(st.orelse)
            elif isinstance(st, ast.Try):
                visit(st.body)
                visit(st.orelse)
                for h in st.handlers:
                    visit(h.body)
    visit(tree.body)
    _cache[mod] = out
    return out


SUPPORTED = [(3, m) for m in range(7, 14)]


def version_feasible(test):
    """(can the test be true, can it be false) for some supported CPython 3.7-3.13; platform and other tests: (True, True)"""
    if isinstance(test, ast.BoolOp):
        parts = [version_feasible(v) for v in test.values]
        if isinstance(test.op, ast.And):
            return all(p[0] for p in parts), any(p[1] for p in parts)
        return any(p[0] for p in parts), all(p[1] for p in parts)
    if isinstance(test, ast.UnaryOp) and isinstance(test.op, ast.Not):
        t, f = version_feasible(test.operand)
        return f, t
    if isinstance(test, ast.Compare) and len(test.ops) == 1 and ast.unparse(test.left) == 'sys.version_info' and isinstance(test.comparators[0], ast.Tuple):
        try:
            tup = tuple(e.value for e in test.comparators[0].elts)
        except AttributeError:
            return True, True
        op = test.ops[0]
        def holds(v):
            vv = v + (0,) * max(0, len(tup) - len(v))
            vv = vv[:len(tup)] if len(tup) < len(vv) else vv
            if isinstance(op, ast.GtE):
                return vv >= tup
            if isinstance(op, ast.Gt):
                return vv > tup
            if isinstance(op, ast.Lt):
                return vv < tup
            if isinstance(op, ast.LtE):
                return vv <= tup
            if isinstance(op, ast.Eq):
                return vv == tup
            return True
        res = [holds(v) for v in SUPPORTED]
        return any(res), not all(res)
    return True, True
