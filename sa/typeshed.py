"""Names defined by the typeshed stub of a stdlib module on *any* platform / version branch (python `ast` over .pyi)."""
import ast, os

ROOTS = ['/opt/veriftools/pyvenv/lib/python3.11/site-packages/typeshed_client/typeshed']
_cache = {}


def stub_path(mod):
    rel = mod.replace('.', '/')
    for r in ROOTS:
        for cand in (os.path.join(r, rel + '.pyi'), os.path.join(r, rel, '__init__.pyi')):
            if os.path.exists(cand):
                return cand
    return None


def available():
    return any(os.path.isdir(r) for r in ROOTS)


def names(mod, depth=0):
    if mod in _cache:
        return _cache[mod]
    _cache[mod] = set()
    p = stub_path(mod)
    if not p:
        return set()
    try:
        tree = ast.parse(open(p, encoding='utf-8').read())
    except SyntaxError:
        return set()
    out = set()
    is_pkg = p.endswith('__init__.pyi')

    def visit(body):
        for st in body:
            if isinstance(st, (ast.FunctionDef, ast.AsyncFunctionDef, ast.ClassDef)):
                out.add(st.name)
            elif isinstance(st, ast.Assign):
                for t in st.targets:
                    for n in ast.walk(t):
                        if isinstance(n, ast.Name):
                            out.add(n.id)
            elif isinstance(st, ast.AnnAssign):
                if isinstance(st.target, ast.Name):
                    out.add(st.target.id)
            elif isinstance(st, ast.Import):
                for a in st.names:
                    out.add((a.asname or a.name).split('.')[0])
            elif isinstance(st, ast.ImportFrom):
                base = st.module or ''
                if st.level:
                    pkg = mod.split('.') if is_pkg else mod.split('.')[:-1]
                    pkg = pkg[:len(pkg) - (st.level - 1)] if st.level > 1 else pkg
                    base = '.'.join(pkg + ([st.module] if st.module else []))
                for a in st.names:
                    if a.name == '*':
                        if depth < 3:
                            out.update(n for n in names(base, depth + 1) if not n.startswith('_'))
                    else:
                        out.add(a.asname or a.name)
            elif isinstance(st, ast.If):
                visit(st.body)
                visit(st.orelse)
            elif isinstance(st, ast.Try):
                visit(st.body)
                visit(st.orelse)
                for h in st.handlers:
                    visit(h.body)
    visit(tree.body)
    _cache[mod] = out
    return out
