#!/usr/bin/env python3
"""refresh the confirmation fields (and optionally detection / note) of /verif/seeded/<id>/meta.json from /tmp/seed_out/<id>/confirm.log
usage: seed_reconf.py <id> [<detection result>] [<note>]"""
import json, os, re, sys
sid = sys.argv[1]
d = '/verif/seeded/' + sid
if not os.path.exists(d + '/meta.json') and os.path.exists(d + '/meta.agent.json'):
    import subprocess
    subprocess.check_call(['python3', '/verif/tools/seed_meta.py', sid, sys.argv[2] if len(sys.argv) > 2 else '?', sys.argv[3] if len(sys.argv) > 3 else ''])
m = json.load(open(d + '/meta.json'))
conf = open('/tmp/seed_out/%s/confirm.log' % sid, errors='replace').read()
summ = re.findall(r'Summary \[.*?\] (.*)', conf)
c = m['confirmed_by_me']
if summ:
    c['tests'] = summ[-1]
    fails = sorted(set(re.findall(r'FAIL \[.*?\] \(.*?\) (\S+ \S+)', conf)))
    if fails:
        c['tests'] += ' — failed under load: %s (timing-sensitive language-server tests; pass when re-run alone with the change applied)' % ', '.join(fails)
c['demo_with_change_rc'] = (re.findall(r'DEMO_WITH_RC=(\d+)', conf) or ['?'])[-1]
c['demo_without_change_rc'] = (re.findall(r'DEMO_WITHOUT_RC=(\d+)', conf) or ['?'])[-1]
if len(sys.argv) > 2:
    m['detection']['result'] = sys.argv[2]
if len(sys.argv) > 3:
    c['note'] = sys.argv[3]
json.dump(m, open(d + '/meta.json', 'w'), indent=1, ensure_ascii=False)
print(sid, c['tests'][:90], c['demo_with_change_rc'], c['demo_without_change_rc'])
