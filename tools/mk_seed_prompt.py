#!/usr/bin/env python3
"""Create a scratch worktree for a seeding sub-agent and print its prompt (the agent sees only the property text)."""
import json, subprocess, sys, os
pid = sys.argv[1]
tag = sys.argv[2] if len(sys.argv) > 2 else ''
props = {json.loads(l)['id']: json.loads(l) for l in open('/verif/properties.jsonl')}
p = props[pid]
wt = f'/tmp/seed/{pid}{tag}'
out = f'/tmp/seed_out/{pid}{tag}'
os.makedirs('/tmp/seed', exist_ok=True); os.makedirs(out, exist_ok=True)
if not os.path.exists(wt):
    subprocess.check_call(['git', '-C', '/repo', 'worktree', 'add', '--detach', wt, 'HEAD'], stdout=subprocess.DEVNULL, stderr=subprocess.DEVNULL)
    subprocess.call(['cp', '-a', '/repo/target', wt + '/target'])
print(f"""You are helping test a verification effort for the open-source Erg compiler (erg-lang/erg, Rust). You have your own scratch git worktree of the repository at {wt} (already created, with a warm `target/` directory). Work ONLY inside {wt} and {out}. Do NOT read or touch /repo or /verif, and do NOT use `git stash` (the stash is shared between worktrees: to revert use `git diff > my.patch; git apply -R my.patch` and re-apply with `git apply my.patch`). Do not look for any verification machinery: your work must be independent of it. There is no network; use `--offline` with cargo.

Here is a semantic property of Erg that should hold true (JSON record):

{json.dumps(p, indent=1)}

Your task: produce ONE realistic source change (a plausible bug a maintainer could introduce: a refactor slip, an off-by-one, a forgotten case, a wrong table entry, two cooperating edits that each look fine alone, ...) to the repository that BREAKS this property, while
 (a) the workspace still compiles (`cargo build --offline --workspace`), and
 (b) the existing test suite still passes completely: `cd {wt} && cargo nextest run --workspace --no-fail-fast --test-threads 8 --offline` (230 tests; they pass on the unchanged tree in ~35 s after building). Run it and confirm 230 passed, 0 failed with your change applied.
The change should need something specific to manifest (an unusual input, a particular value range, a particular target version / option, a multi-step sequence of operations, a specific interleaving, a crash at a particular point, or two cooperating sites) — NOT something ordinary use would expose at once. Keep it small (typically 1–15 changed lines), in the Rust/Python/declaration sources of the repository (not in tests, docs or build scripts). Do not introduce an obviously artificial marker (no comments saying it is a bug, no special-casing of a magic input).

Also produce a demonstration: a small Erg program / input / shell script / Rust test that FAILS (shows the property violated) with your change applied and PASSES on the unchanged tree. The built binary is `{wt}/target/debug/erg` (`erg run f.er`, `erg check f.er`, `erg compile f.er`, `erg --mode lex f.er`, `erg transpile f.er`, `-o N` for optimisation level, `--py-command <path>`; Python interpreters: /root/.pyenv/versions/{{3.7.16,3.8.18,3.9.18,3.10.13,3.11.7,3.12.1,3.13.0}}/bin/python3; default `python3` is 3.11). Note: the erg binary uses the runtime library copy at /root/.erg/lib; if your change edits files under crates/erg_compiler/lib, do not modify /root/.erg — instead demonstrate with `ERG_PATH` pointing to a copy inside {out} if needed (e.g. copy {wt}/crates/erg_compiler/lib to {out}/erg_home/lib and set ERG_PATH={out}/erg_home), or demonstrate by reasoning + a Python-level test importing the changed module from the worktree.
Actually run the demonstration both ways (with the change, and after `git stash`/revert without it) and record the outputs.

Write these files into {out}/ :
  patch.diff   — `git -C {wt} diff` of your change (source change only; must apply with `git apply` to a clean checkout of the same commit)
  demo/        — the demonstration files plus a `run.sh` that exits non-zero when the property is violated (it may take the path to the erg binary / repo root as $1)
  meta.json    — {{"property": "{pid}", "summary": "...what was changed and why it breaks the property...", "needs_to_manifest": "...", "files_changed": [...], "tests_run": "...command and result (N passed)...", "demo_with_change": "...observed output...", "demo_without_change": "...observed output..."}}
Leave the worktree with your change applied (uncommitted) when you finish. If your first idea breaks an existing test, pick a different change. Do not spend effort on more than one final change. In your final reply, give a 5-line summary: the change, where, how it manifests, test result, demo result.""")
