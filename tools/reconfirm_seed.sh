#!/bin/bash
# move a seed worktree onto /repo's current HEAD (re-applying its uncommitted change) and run confirm_seed.sh
id=$1; wt=/tmp/seed/$id
cd $wt || exit 9
git diff > /tmp/reconf_$id.patch
git checkout -q -- . && git checkout -q --detach $(git -C /repo rev-parse HEAD) && git apply /tmp/reconf_$id.patch || { echo "REAPPLY FAILED $id"; exit 8; }
bash /verif/tools/confirm_seed.sh $id
