#!/usr/bin/env python3
"""Regenerate /verif/ref/*.json from the CPython interpreters installed in this image.
Only the *reference* interpreters' own tables are dumped (dis.opmap, MAGIC_NUMBER, dir(module)):
this is the oracle side of the table-agreement rules, never the system under analysis."""
import json, os, subprocess, sys, glob

VERIF = os.path.dirname(os.path.dirname(os.path.abspath(__file__)))
REF = os.path.join(VERIF, 'ref')
PY = {v.rsplit('.', 1)[0]: '/root/.pyenv/versions/%s/bin/python3' % v
      for v in ['3.7.16', '3.8.18', '3.9.18', '3.10.13', '3.11.7', '3.12.1', '3.13.0']}

OPS = r'''
import dis, json, sys, importlib.util, opcode
d = {"opmap": dis.opmap, "hasjrel": sorted(dis.hasjrel), "hasjabs": sorted(dis.hasjabs),
     "hasconst": sorted(dis.hasconst), "hasname": sorted(dis.hasname), "haslocal": sorted(dis.haslocal),
     "hasfree": sorted(dis.hasfree), "hascompare": sorted(dis.hascompare), "cmp_op": list(dis.cmp_op),
     "have_argument": dis.HAVE_ARGUMENT,
     "magic": int.from_bytes(importlib.util.MAGIC_NUMBER[:2], "little"),
     "magic_tail": list(importlib.util.MAGIC_NUMBER[2:]),
     "version": list(sys.version_info[:3])}
ice = getattr(opcode, "_inline_cache_entries", None)
if ice is not None:
    if isinstance(ice, dict):
        d["inline_cache_entries"] = {k: v for k, v in ice.items() if v}
    else:
        d["inline_cache_entries"] = {dis.opname[i]: n for i, n in enumerate(ice) if n}
nb = getattr(opcode, "_nb_ops", None)
if nb is not None:
    d["nb_ops"] = [x[0] for x in nb]
print(json.dumps(d))
'''

MODS = r'''
import json, sys, importlib, warnings
warnings.simplefilter("ignore")
mods = json.loads(sys.argv[1])
out = {}
for m in mods:
    try:
        mod = importlib.import_module(m)
        out[m] = sorted(set(dir(mod)))
    except BaseException as e:
        out[m] = None
print(json.dumps(out))
'''


def pystd_modules(repo='/repo'):
    base = os.path.join(repo, 'crates/erg_compiler/lib/pystd')
    mods = set()
    for p in glob.glob(base + '/**/*.d.er', recursive=True):
        rel = os.path.relpath(p, base)
        parts = rel.split('/')
        parts[-1] = parts[-1][:-len('.d.er')]
        parts = [x[:-2] if x.endswith('.d') else x for x in parts]
        if parts[-1] == '__init__':
            parts = parts[:-1]
        mods.add('.'.join(parts))
    return sorted(mods)


def main():
    os.makedirs(REF, exist_ok=True)
    ops = {}
    for v, exe in PY.items():
        if not os.path.exists(exe):
            print('missing interpreter', exe, file=sys.stderr)
            continue
        ops[v] = json.loads(subprocess.run([exe, '-c', OPS], capture_output=True, text=True, check=True).stdout)
    json.dump(ops, open(os.path.join(REF, 'cpython_opcodes.json'), 'w'), indent=0, sort_keys=True)
    mods = pystd_modules()
    attrs = {}
    for v, exe in PY.items():
        if not os.path.exists(exe):
            continue
        r = subprocess.run([exe, '-c', MODS, json.dumps(mods)], capture_output=True, text=True)
        if r.returncode != 0:
            print('module dump failed for', v, r.stderr[-500:], file=sys.stderr)
            continue
        attrs[v] = json.loads(r.stdout.strip().split('\n')[-1])
    json.dump(attrs, open(os.path.join(REF, 'py_module_attrs.json'), 'w'), indent=0, sort_keys=True)
    print('wrote', len(ops), 'opcode tables;', len(mods), 'modules x', len(attrs), 'interpreters')


if __name__ == '__main__':
    main()
