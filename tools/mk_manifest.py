#!/usr/bin/env python3
import json, os, sys
VERIF = os.path.dirname(os.path.dirname(os.path.abspath(__file__)))
sys.path.insert(0, VERIF)
from sa import registry as R
props = [json.loads(l) for l in open(os.path.join(VERIF, 'properties.jsonl'))]
checks, na = [], []
for p in props:
    pid = p['id']
    if pid in R.CLAIMS:
        c = dict(R.CLAIMS[pid])
        # the rule ids actually evaluated by the last run of the check (texts: evidence file, DESIGN.md §9)
        try:
            ev = json.load(open(os.path.join(VERIF, 'evidence', pid + '.json')))
            ids = [r.split(':')[0].strip() for r in ev['coverage']['rule'].split(' || ') if ':' in r]
            if ids:
                c['text'] = c['text'].rstrip() + ' Rules evaluated on every run (their statements are in the evidence file and in DESIGN.md §9): ' + ', '.join(ids) + '.'
        except (OSError, KeyError, ValueError):
            pass
        checks.append({
            'property_id': pid,
            'quick_cmd': './check %s --tier quick' % pid,
            'thorough_cmd': './check %s --tier thorough' % pid,
            'evidence_file': 'evidence/%s.json' % pid,
            'replay_cmd_template': './check %s --replay {path}' % pid,
            'engine': 'ergfacts+sa',
            'level_claimed': {'category': 'other', 'text': c['text'], 'design_ref': c['design_ref']},
            'level_note': c['note'],
            'technique': 'static analysis: ' + c['technique'],
        })
    else:
        na.append({'property_id': pid, 'reason': R.NOT_APPLICABLE.get(pid, 'rule not built yet (build in progress); see DESIGN.md')})
m = {
    'version': 1,
    'setup_cmd': './setup.sh',
    'hooks': {
        'guard': 'erg_lang_erg_verif',
        'enable': 'none needed: the checks read /repo\'s source through a rustc_private driver under `cargo +nightly check`; no instrumentation is compiled into erg',
        'baseline_off_cmd': 'cd /repo && (cargo nextest run --workspace --no-fail-fast --test-threads 8 --offline || cargo test --workspace --no-fail-fast --offline)',
        'source_commits': [],
        'add_only': True,
    },
    'engines': [
        {'name': 'ergfacts', 'path': 'driver/', 'serves_properties': sorted(R.CLAIMS),
         'kind_free_text': 'rustc_private driver (nightly) run as RUSTC_WORKSPACE_WRAPPER under cargo check: exports typed HIR trees with resolved callees/paths/patterns, ADT and impl tables, MIR facts (casts, integer ops, asserts, calls with live lock guards) per crate'},
        {'name': 'sa', 'path': 'sa/', 'serves_properties': sorted(R.CLAIMS),
         'kind_free_text': 'Python rule engine over the exported facts, Python ast of erg\'s runtime *.py, a scanner for *.d.er declarations, and frozen CPython reference tables'},
    ],
    'checks': checks,
    'not_applicable': na,
    'notes': 'All checks are static: nothing in /repo is executed. See DESIGN.md. Exit 2 + ANCHOR-LOST (no VIOLATION line) means a rule no longer recognises the code it is anchored in.',
}
json.dump(m, open(os.path.join(VERIF, 'MANIFEST.json'), 'w'), indent=1)
print('claimed:', len(checks), 'not applicable:', len(na))
