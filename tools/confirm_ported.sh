#!/bin/bash
# confirm a ported seed in /tmp/basewt: usage: confirm_ported.sh <id>
id=$1; wt=/tmp/basewt; log=/tmp/seed_out/$id/confirm_ported.log
exec > $log 2>&1
set -x
cd $wt && git checkout -q -- . && git checkout -q --detach $(git -C /repo rev-parse HEAD) && git apply /verif/seeded/$id/patch.diff || exit 9
CARGO_NET_OFFLINE=true cargo build --offline --workspace 2>&1 | tail -1
CARGO_NET_OFFLINE=true cargo nextest run --workspace --no-fail-fast --test-threads 6 --offline 2>&1 | tail -4
(cd /tmp/seed_out/$id/demo && timeout 900 bash ./run.sh $wt/target/debug/erg; echo "DEMO_WITH_RC=$?")
(cd /tmp/seed_out/$id/demo && timeout 900 bash ./run.sh /repo/target/debug/erg; echo "DEMO_WITHOUT_RC=$?")
cd $wt && git checkout -q -- .
