#!/bin/bash
# run the pinned baseline test-suite on /repo's HEAD in a scratch worktree (so that temporary edits of /repo cannot disturb it)
wt=/tmp/basewt
if [ ! -d $wt ]; then git -C /repo worktree add --detach $wt HEAD >/dev/null 2>&1; cp -a /repo/target $wt/target; fi
cd $wt && git checkout -q --detach $(git -C /repo rev-parse HEAD) && CARGO_NET_OFFLINE=true cargo nextest run --workspace --no-fail-fast --test-threads 8 --offline > /tmp/baseline_wt.log 2>&1
tail -3 /tmp/baseline_wt.log
