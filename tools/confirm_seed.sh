#!/bin/bash
# confirm a seeded change produced by a sub-agent: patch matches the worktree, workspace builds, 230 tests pass,
# demo fails with the change and passes on /repo (without it).  usage: confirm_seed.sh <dir under /tmp/seed_out> 
id=$1
wt=/tmp/seed/$id; out=/tmp/seed_out/$id; log=$out/confirm.log
exec > $log 2>&1
set -x
cd $wt || exit 9
git diff > /tmp/confirm_$id.diff
if ! diff -q <(grep -v '^index ' /tmp/confirm_$id.diff) <(grep -v '^index ' $out/patch.diff); then echo "PATCH-DIFFERS"; fi
CARGO_NET_OFFLINE=true cargo build --offline --workspace 2>&1 | tail -2
CARGO_NET_OFFLINE=true cargo nextest run --workspace --no-fail-fast --test-threads 6 --offline 2>&1 | tail -4
echo "=== demo WITH change"
(cd $out/demo && timeout 600 bash ./run.sh $wt/target/debug/erg; echo "DEMO_WITH_RC=$?")
echo "=== demo WITHOUT change (/repo)"
(cd $out/demo && timeout 600 bash ./run.sh /repo/target/debug/erg; echo "DEMO_WITHOUT_RC=$?")
