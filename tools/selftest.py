#!/usr/bin/env python3
"""Both-ways self-test of the rules against the seeded changes in /verif/seeded: every seed whose meta says "caught by Cxx-.." must make
that check exit 1 with a FINDING of that rule when applied to /repo, and /repo must be clean again afterwards.
usage: tools/selftest.py [seed ...]      (takes ~1-2 min per seed: facts are re-extracted for the patched tree)"""
import json, os, re, subprocess, sys
VERIF = os.path.dirname(os.path.dirname(os.path.abspath(__file__)))
seeds = sys.argv[1:] or sorted(os.listdir(os.path.join(VERIF, 'seeded')))
ok = bad = 0
for s in seeds:
    mp = os.path.join(VERIF, 'seeded', s, 'meta.json')
    if not os.path.exists(mp):
        continue
    m = json.load(open(mp))
    res = m['detection']['result']
    rules = re.findall(r'\b(C\d\d)-[A-Za-z0-9]+', res)
    if res.strip().lower().startswith('missed') and 'now' not in res and 'caught' not in res:
        print('%-5s expected: missed (%s)' % (s, res[:70]))
        continue
    props = sorted(set(rules)) or [m.get('property')]
    r = subprocess.run([os.path.join(VERIF, 'tools', 'run_seed.sh'), s] + props, capture_output=True, text=True)
    hit = [p for p in props if re.search(r'--- %s rc=1' % p, r.stdout)]
    status = 'OK ' if hit else 'FAIL'
    ok += bool(hit)
    bad += not hit
    print('%-5s %s  checks %s -> caught by %s' % (s, status, props, hit))
    if not hit:
        print(r.stdout[-600:])
dirty = subprocess.run(['git', '-C', '/repo', 'status', '--short'], capture_output=True, text=True).stdout.strip()
print('caught %d, not caught %d, /repo %s' % (ok, bad, 'clean' if not dirty else 'DIRTY: ' + dirty))
sys.exit(1 if bad or dirty else 0)
