#!/bin/bash
# apply a seeded change to /repo, run the given checks, undo it.  usage: run_seed.sh <seed dir name> <Cxx> [<Cyy> ...]
sd=/verif/seeded/$1; shift
[ -f $sd/patch.diff ] || { echo "no $sd/patch.diff"; exit 9; }
cd /repo
if ! git diff --quiet; then echo "/repo has uncommitted changes"; exit 9; fi
git apply $sd/patch.diff || { echo "PATCH DOES NOT APPLY"; exit 8; }
cd /verif
export VERIF_EVIDENCE_DIR=/tmp/run_seed_evidence   # evidence/ describes /repo itself, never a patched tree
for p in "$@"; do
  ./check $p > /tmp/run_seed_$p.out 2>&1; rc=$?
  echo "--- $p rc=$rc"; grep -E "^==|^FINDING|^VIOLATION|^ANCHOR" /tmp/run_seed_$p.out | cut -c1-260 | head -12
done
# another git process (a worktree being confirmed) can hold the index lock for a moment: retry until /repo is clean again
for i in 1 2 3 4 5 6 7 8 9 10; do
  git -C /repo checkout -- . 2>/dev/null
  [ -z "$(git -C /repo status --short)" ] && break
  sleep 2
done
git -C /repo status --short | head -3
