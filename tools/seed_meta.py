#!/usr/bin/env python3
"""write /verif/seeded/<id>/meta.json from the sub-agent's meta, my confirmation log and the detection result
usage: seed_meta.py <id> <detected-by or 'missed'> <note>"""
import json, os, re, sys
sid, detected, note = sys.argv[1], sys.argv[2], sys.argv[3]
d = '/verif/seeded/' + sid
agent = json.load(open(d + '/meta.agent.json'))
conf = ''
p = '/tmp/seed_out/%s/confirm.log' % sid
if os.path.exists(p):
    conf = open(p, errors='replace').read()
summ = re.findall(r'Summary \[.*?\] (.*)', conf)
meta = {
    'property': agent.get('property'),
    'summary': agent.get('summary'),
    'needs_to_manifest': agent.get('needs_to_manifest'),
    'files_changed': agent.get('files_changed'),
    'produced_by': 'independent sub-agent given only the property text and a scratch worktree (/tmp/seed/%s)' % sid,
    'confirmed_by_me': {
        'what_i_ran': 'tools/confirm_seed.sh %s: `git diff` of the worktree equals patch.diff; cargo build --offline --workspace; cargo nextest run --workspace (230 tests); '
                      'demo/run.sh with the changed build (must fail) and with the unchanged build (must pass)' % sid,
        'tests': summ[-1] if summ else 'see note',
        'demo_with_change_rc': (re.findall(r'DEMO_WITH_RC=(\d+)', conf) or ['?'])[-1],
        'demo_without_change_rc': (re.findall(r'DEMO_WITHOUT_RC=(\d+)', conf) or ['?'])[-1],
        'note': note,
    },
    'detection': {'checks_run': 'tools/run_seed.sh %s <checks> (git apply to /repo, ./check, git checkout)' % sid, 'result': detected},
}
json.dump(meta, open(d + '/meta.json', 'w'), indent=1)
os.remove(d + '/meta.agent.json')
print('ok', sid)
