#!/bin/bash
# final pass on /repo's HEAD: every quick check, every thorough check, manifest, rule inventory, schema validation.
# usage: tools/final.sh [quick|thorough|all]   (log: /tmp/final_<tier>.log)
cd /verif
what=${1:-all}
ids=$(python3 -c "
import sys; sys.path.insert(0,'/verif')
from sa import registry as R
print(' '.join(sorted(R.CLAIMS)))")
python3 -c "
import sys; sys.path.insert(0,'/verif')
from sa import facts
for c in ['default'] + (list(facts.EXTRA_CONFIGS) if '$what' != 'quick' else []):
    print('facts', c, facts.ensure(c, verbose=False))
"
run_tier() {
  tier=$1; log=/tmp/final_$tier.log; : > $log
  printf '%s\n' $ids | xargs -P 4 -I{} sh -c "./check {} --tier $tier > /tmp/final_${tier}_{}.out 2>&1; echo {} rc=\$? \$(grep -c '^KNOWN-FINDING' /tmp/final_${tier}_{}.out) known >> $log"
  sort $log
}
if [ "$what" = quick ] || [ "$what" = all ]; then run_tier quick; fi
if [ "$what" = thorough ] || [ "$what" = all ]; then run_tier thorough; fi
if [ "$what" = all ] || [ "$what" = quick ]; then
  # the evidence committed is that of the quick tier (the command run on every change): rerun quick last so that evidence/*.json is the quick result
  [ "$what" = all ] && run_tier quick > /dev/null
  python3 tools/mk_manifest.py
  python3 tools/rule_inventory.py > /dev/null
  python3-vt - <<'P'
import json, jsonschema, glob
jsonschema.validate(json.load(open('/verif/MANIFEST.json')), json.load(open('/root/.vp/MANIFEST.schema.json')))
es = json.load(open('/root/.vp/EVIDENCE.schema.json'))
n = 0
for f in sorted(glob.glob('/verif/evidence/C*.json')):
    jsonschema.validate(json.load(open(f)), es); n += 1
print('manifest ok; evidence files valid:', n)
P
fi
