#!/usr/bin/env python3
"""Development-time helper (never run by a check): record the *new violations* of the last run of a property as known
findings, each with the demonstration text given on the command line.
usage: tools/kf_add.py C04 'key-substring' 'what fails / demonstration'"""
import json, os, sys
VERIF = os.path.dirname(os.path.dirname(os.path.abspath(__file__)))
pid, sub, what = sys.argv[1], sys.argv[2], sys.argv[3]
ev = json.load(open(os.path.join(VERIF, 'evidence', pid + '.json')))
kf = json.load(open(os.path.join(VERIF, 'known_findings.json')))
have = {(e['property'], e['key']) for e in kf['findings']}
n = 0
for key in ev['coverage']['new_violations']:
    if sub in key and (pid, key) not in have:
        kf['findings'].append({'property': pid, 'key': key, 'what': what})
        n += 1
json.dump(kf, open(os.path.join(VERIF, 'known_findings.json'), 'w'), indent=1)
print('added', n)
